"""C01 - Deferred callback chains compute what a sequential interpreter predicts."""
from __future__ import annotations

import ast

from sa.astx import dotted, src
from sa.effects import module_accesses
from sa.selftest import Mutant, Silent
from sa.source import AnalysisError
from sa.props._lib_a import (DEFER, Q, RunShape, ChainWalk, bool_locals as bool_flag_locals, group, root_callers, inlined_func, _zero_fact, deferred_fact, attr_of, avoiding_path, call_nodes, calls_of, catching_handlers, const_int,
                             exc_escape, facts, handler_catches_all, handler_names, ident_fact, is_const, is_name, known_bool,
                             known_zero, method_call, name_assign_nodes, no_exc, params, stmt_nodes, targets_values)

PROPERTY = "C01"
TECHNIQUE = "structural: CFG dominance/must-pass, who-may-mutate closure, symbolic chain-stack typestate"
EXPLANATION = (
    "All rules are structural (for-all-paths verdicts on the code with private helpers inlined; nothing is run or sampled). Decides the clauses of the chaining rules on the CFG of Deferred._runCallbacks, addCallbacks/addCallback/"
    "addErrback/addBoth, pause and unpause: (a) `callbacks` is filled only by append (correct success/error slot per adder) and "
    "drained only from the front [who-may-mutate by operation kind], the chain stack discipline per kind of round ending (hand-over / re-chained / exhausted) [symbolic walk of all paths of one round = typestate]; (b) the user call-out is bracketed by _runningCallbacks "
    "True/False on every path incl. exceptions, is skipped re-entrantly, gets `current.result, *args, **kwargs` of the slot "
    "selected by isinstance(result, Failure) and its value/exception (BaseException) becomes the result; (c) a paused Deferred "
    "runs nothing, pause/unpause and the pause-and-chain / _CONTINUE hand-over are balanced (one decrement, result moved, inner "
    "result cleared, no further callback before the stack is re-read); (d) result stealing only from a fired, non-Deferred, "
    "unpaused result, donor cleared; (e) adders run callbacks at once on a called Deferred and return self. "
    "Not decided: equality of every callback input with a reference interpreter for arbitrary programs (value flow through "
    "user callbacks), _debugInfo bookkeeping, addTimeout/chainDeferred."
)
RULE_KINDS = {
    # every rule is decided on the (helper-inlined) code itself: CFG dominance / must-pass with exception edges, who-may-mutate closed over
    # the callers of private helpers, def-use of the call-out arguments, and the symbolic chain-stack walk (a typestate over all paths of one
    # round of the outer loop - no repository code is evaluated on sample inputs)
    "steal/decision-table": "finite-exhaustive",   # truth table over (has result, result is Deferred, paused); completeness: steal/decision-domain
    "*": "structural",
}
ASSUMPTIONS = [
    "Deferred.callbacks / paused / _runningCallbacks are mutated only inside internet/defer.py (who-may-mutate is decided for that module)",
    "pause counters are non-negative integers",
]

ADDERS = {
    # name: (success slot callee, error slot callee)  -- "P:<i>" = i-th parameter after self
    "addCallbacks": ("P:0", "P:1"),
    "addCallback": ("P:0", "_failthru"),
    "addErrback": ("passthru", "P:0"),
    "addBoth": ("P:0", "P:0"),
}


def _slot_callee(f, expr, local_tuples):
    """callee expression of a (callee, args, kwargs) triple, following one local tuple alias"""
    if isinstance(expr, ast.Name) and expr.id in local_tuples:
        expr = local_tuples[expr.id]
    if isinstance(expr, ast.Tuple) and len(expr.elts) == 3:
        return expr.elts[0], expr
    return None, None


def check(ctx):
    mod = ctx.mod(DEFER)
    q = Q + "Deferred._runCallbacks"

    # (a) who may mutate `callbacks`; FIFO
    with group(ctx, "queue"):
        acc = module_accesses(mod, {"callbacks"})
        allowed = {
            ("Deferred.__init__", "rebind-empty"), ("Deferred.addCallbacks", "append"), ("Deferred.addCallback", "append"),
            ("Deferred.addErrback", "append"), ("Deferred.addBoth", "append"),
            ("Deferred._runCallbacks", "append"),      # continuation registered on the returned Deferred (checked below)
            ("Deferred._runCallbacks", "pop_first"), ("Deferred._runCallbacks", "delitem"),   # `del cbs[0]` after reading cbs[0] (index judged below)
            # frozen exception, confirmed by reading: the cancel errback is put *first*, the rest keeps its order (C05 checks it)
            ("_addCancelCallbackToDeferred", "assign"), ("_addCancelCallbackToDeferred", "rebind-empty"), ("_addCancelCallbackToDeferred", "extend"),
        }
        roots = {a.func: sorted(root_callers(mod, a.func)) for a in acc}   # a private helper acts for the functions it is reached from
        for a in acc:
            ctx.check(all((r, a.kind) in allowed for r in roots[a.func]), "callbacks/who-may-mutate", ctx.construct(Q + a.func, a.node),
                      f"`callbacks` is mutated by operation kind '{a.kind}' in {a.func}: callbacks would not run once each, in the order added")
        ctx.floor("callbacks/who-may-mutate", len(acc), 5)
        fills = [a for a in acc if a.kind in ("append", "appendleft", "insert0", "insert", "extend") and all(r.startswith("Deferred.") for r in roots[a.func])]
        drains = [a for a in acc if a.kind.startswith("pop") or a.kind in ("remove", "del-prefix", "delitem", "clear")]
        for a in fills:
            ctx.check(a.kind == "append", "callbacks/fifo-fill", ctx.construct(Q + a.func, a.node),
                      f"callback pair added with '{a.kind}' instead of append: it would not run after the ones added before")
        def front(a):
            if a.kind == "pop_first":
                return True
            return a.kind == "delitem" and isinstance(a.node, ast.Delete) and all(isinstance(t, ast.Subscript) and const_int(t.slice) == 0 for t in a.node.targets)
        for a in drains:
            ctx.check(front(a) and roots[a.func] == ["Deferred._runCallbacks"], "callbacks/fifo-drain", ctx.construct(Q + a.func, a.node),
                      f"callbacks consumed with '{a.kind}' in {a.func}: with two callbacks added, the second would run first / be dropped")
        ctx.check(any(front(a) for a in drains), "callbacks/fifo-drain", q + " | <consumption of callbacks>",
                  "_runCallbacks no longer removes callbacks from the front as it runs them (each would run again, or out of order)")

    S = None
    with group(ctx, "run-callbacks/shape"):
        S = RunShape(ctx)
    g, cur, chain = (S.g, S.cur, S.chain) if S is not None else (None, None, None)
    cur_res = (lambda e: S.is_cur_result(e)) if S is not None else (lambda e: False)

    with group(ctx, "chain-stack"):
        _need_shape(S)
        # The chain stack is judged by meaning: a symbolic walk of one round of the outer loop (ChainWalk) tells what the logical
        # stack (explicit list + a separately kept current Deferred) has become at the next round / at exit, per kind of inner-loop exit.
        W = ChainWalk(S)
        if W.stack_var is None and not W.ambiguous:
            raise AnalysisError("Deferred._runCallbacks has no explicit chain stack (C02 reports this); stack discipline not applicable")
        if W.mode is None:
            raise AnalysisError("Deferred._runCallbacks: the outer loop / the way the current Deferred is kept is not readable by the chain walk")
        for n in sorted(set(W.lifo_bad)):
            ctx.check(False, "chain/lifo", ctx.construct(q, g.node(n).ast),
                      "the chain stack is read / pushed / popped at the wrong end: a Deferred other than the one on top is taken or removed")
        RULE = {"handover": ("continue/stack-not-popped-early",
                             "after the _CONTINUE hand-over the waiting Deferred is not the next one processed with the current one kept right below it"),
                "chained": ("chain/popped-after-chaining",
                            "after pause-and-chain the current Deferred is not retired from the chain stack: the next round re-reads it, finds it paused "
                            "and returns from the whole walk, abandoning the Deferreds below it (an inner Deferred's late-added callback never runs)"),
                "exhausted": ("chain/popped-when-exhausted",
                              "a Deferred whose callbacks are exhausted is not retired from the chain stack before the next round (the walk spins on "
                              "it / never returns to the Deferred that supplied its result)")}
        seen_kinds = set()
        for kind, okv, obs, path in W.verdicts():
            seen_kinds.add(kind)
            rule, fails = RULE[kind]
            ctx.check(okv, rule, q + f" | <round ending: {kind}>", f"{fails}; {obs}", detail=obs, witness=g.describe(path) if not okv else "")
        ctx.check({"chained", "exhausted"} <= seen_kinds, "chain/lifo", q + " | <rounds of the chain walk>",
                  f"the chain walk found only these kinds of round endings: {sorted(seen_kinds)}")
        if not W.lifo_bad:
            ctx.ok("chain/lifo", q + f" | <stack `{W.stack_var}` used at its top only>", f"current Deferred kept {'on top of the list' if W.mode == 'peek' else 'in its own variable'}")

    # adders: slot layout, run-at-once on a called Deferred, return self
    with group(ctx, "adders"):
        for name, (want_ok, want_err) in ADDERS.items():
            f = inlined_func(ctx, DEFER, f"Deferred.{name}")
            fg = ctx.cfg(f)
            fq = Q + f"Deferred.{name}"
            ps = params(f)[1:]
            local_tuples = {}
            for n in fg.nodes:
                if n.kind == "stmt":
                    for t, v in targets_values(n.ast):
                        if isinstance(t, ast.Name) and isinstance(v, ast.Tuple):
                            local_tuples[t.id] = v
            apps = call_nodes(fg, lambda c: isinstance(c.func, ast.Attribute) and c.func.attr == "append" and attr_of(c.func.value, "callbacks", "self"))
            deleg = call_nodes(fg, lambda c: method_call(c, "addCallbacks", "self")) if name != "addCallbacks" else []
            if not apps and len(deleg) == 1:
                # documented alternative: "could be implemented as a call to addCallbacks"
                _check_delegation(ctx, f, fg, fq, name, ps, want_ok, want_err, deleg[0])
                continue
            ctx.check(len(apps) == 1, "adder/appends-one-pair", fq, f"{name} appends {len(apps)} entries to self.callbacks instead of exactly one")
            for n in apps:
                c = calls_of(fg, n, lambda c: isinstance(c.func, ast.Attribute) and c.func.attr == "append")[0]
                pair = c.args[0] if c.args else None
                good = isinstance(pair, ast.Tuple) and len(pair.elts) == 2
                callee_ok = callee_err = None
                if good:
                    callee_ok, t_ok = _slot_callee(f, pair.elts[0], local_tuples)
                    callee_err, t_err = _slot_callee(f, pair.elts[1], local_tuples)
                    good = callee_ok is not None and callee_err is not None

                def defaulted(expr, pname):
                    """`_failthru if P is None else P` (either way round): P with the pass-through as default"""
                    if not isinstance(expr, ast.IfExp):
                        return False
                    isnone = ident_fact(expr.test, True, lambda x: is_name(x, pname), lambda x: is_const(x, None))
                    if isnone is None:
                        return False
                    when_none, otherwise = (expr.body, expr.orelse) if isnone else (expr.orelse, expr.body)
                    return is_name(when_none, "_failthru") and is_name(otherwise, pname)

                def matches(expr, want):
                    if want.startswith("P:"):
                        pn = ps[int(want[2:])]
                        return is_name(expr, pn) or (name == "addCallbacks" and want == "P:1" and defaulted(expr, pn))
                    return is_name(expr, want)
                ctx.check(good and matches(callee_ok, want_ok) and matches(callee_err, want_err), "adder/slot-layout", ctx.construct(fq, c),
                          f"{name} does not store (success-callable, error-callable) = ({want_ok}, {want_err}) in slots (0, 1): "
                          "a success would be routed to the errback or vice versa")
                if good and name != "addCallbacks":
                    # the extra positional / keyword arguments travel with the user's callable, the pass-through gets none
                    for callee, trip, want in ((callee_ok, t_ok, want_ok), (callee_err, t_err, want_err)):
                        if want.startswith("P:"):
                            ok = is_name(trip.elts[1], f.args.vararg.arg if f.args.vararg else "") and is_name(trip.elts[2], f.args.kwarg.arg if f.args.kwarg else "")
                        else:
                            ok = src(trip.elts[1]) == "()" and src(trip.elts[2]) in ("{}", "_NONE_KWARGS")
                        ctx.check(ok, "adder/slot-args", ctx.construct(fq, trip),
                                  f"{name}: the arguments stored next to {src(callee)} are not the ones the caller supplied for it")
                if good and name == "addCallbacks":
                    four = {"callbackArgs", "callbackKeywords", "errbackArgs", "errbackKeywords"}

                    def carries(e, want):   # the expression depends on `want` and on none of the other three (defaults such as `() if x is None else x` are fine)
                        names = {x.id for x in ast.walk(e) if isinstance(x, ast.Name)} | _local_sources(fg, e)
                        return want in names and not (names & (four - {want}))
                    ok = carries(t_ok.elts[1], "callbackArgs") and carries(t_ok.elts[2], "callbackKeywords") and \
                        carries(t_err.elts[1], "errbackArgs") and carries(t_err.elts[2], "errbackKeywords")
                    ctx.check(ok, "adder/slot-args", ctx.construct(fq, pair),
                              "addCallbacks: callbackArgs/Keywords and errbackArgs/Keywords are not stored with their own callable")
                # run at once when already called: from the append, the only way to the exit without _runCallbacks() is `self.called` false
                runs = call_nodes(fg, lambda c: method_call(c, "_runCallbacks", "self"))
                called_tests = {t.id for t in fg.nodes if t.kind == "test" and attr_of(t.ast, "called", "self")}

                def ok_edge(a, b, l):
                    return l != "exc" and not (a in called_tests and l == "F")
                wit = fg.path([n], [fg.exit], avoid=set(runs), edge_ok=ok_edge, strict=True)
                ctx.check(bool(runs) and wit is None, "adder/runs-when-called", fq,
                          f"{name} on an already fired Deferred can return without running the newly added callback",
                          witness=fg.describe(wit))
                for r in runs:
                    ctx.check(known_bool(fg, r, lambda e: attr_of(e, "called", "self")) is True and fg.must_precede([n], [r]) is None,
                              "adder/run-guard", ctx.construct(fq, fg.node(r).ast),
                              f"{name} runs the chain of a Deferred that has no result yet, or before the new pair is stored")
            if name == "addCallbacks":
                # errback=None means pass the failure through
                dfl = stmt_nodes(fg, lambda st: any(is_name(t, ps[1]) and is_name(v, "_failthru") for t, v in targets_values(st) if v is not None))
                inline_default = any(isinstance(x, ast.IfExp) and is_name(x.body if is_name(x.body, "_failthru") else x.orelse, "_failthru")
                                     and ident_fact(x.test, True, lambda y: is_name(y, ps[1]), lambda y: is_const(y, None)) is (True if is_name(x.body, "_failthru") else False)
                                     for x in ast.walk(f))
                ctx.check(inline_default or bool(dfl) and all(any(ident_fact(e, pol, lambda x: is_name(x, ps[1]), lambda x: is_const(x, None)) is True
                                                for e, pol in facts(fg, d)) for d in dfl),
                          "adder/default-errback", fq, "addCallbacks(cb) without errback no longer passes failures through unchanged")
            rets = stmt_nodes(fg, lambda st: isinstance(st, ast.Return))
            ctx.check(bool(rets) and all(is_name(fg.node(r).ast.value, "self") for r in rets) and
                      avoiding_path(fg, [fg.entry], [fg.exit], rets) is None, "adder/returns-self", fq,
                      f"{name} does not return the Deferred itself on every path (d.addCallback(f).addCallback(g) would break)")
        for nm in ("passthru", "_failthru"):
            f = ctx.func(DEFER, nm)
            p = params(f)
            rets = [st for st in ast.walk(f) if isinstance(st, ast.Return)]
            ctx.check(len(p) == 1 and len(rets) == 1 and is_name(rets[0].value, p[0]) and len([s for s in f.body if not isinstance(s, ast.Expr)]) == 1,
                      "adder/pass-through-identity", Q + nm, f"{nm} is not the identity: a result would change while skipping a callback of the other kind")

    # (b) the call-out
    with group(ctx, "call-out"):
        _need_shape(S)
        entry_guard = lambda e: attr_of(e, "_runningCallbacks", "self")
        set_true = stmt_nodes(g, lambda st: any(attr_of(t, "_runningCallbacks", cur) and is_const(v, True) for t, v in targets_values(st) if v is not None))
        set_false = stmt_nodes(g, lambda st: any(attr_of(t, "_runningCallbacks", cur) and is_const(v, False) for t, v in targets_values(st) if v is not None))
        for p in S.pops:
            ctx.check(known_bool(g, p, entry_guard) is False, "reentrancy/entry-guard", ctx.construct(q, g.node(p).ast),
                      "_runCallbacks consumes callbacks although it is already running for this Deferred (a callback that adds a "
                      "callback to its own Deferred would start the new one before the current one returned)")
            # paused: nothing runs.  The tested Deferred must be the one whose callbacks are consumed.
            ctx.check(known_zero(g, p, lambda e: attr_of(e, "paused", cur)) is True, "pause/guard-at-consumption",
                      ctx.construct(q, g.node(p).ast),
                      f"callbacks of `{cur}` are consumed without `{cur}.paused` having been tested zero: a paused Deferred "
                      "(e.g. one reached through a _CONTINUE hand-over while explicitly paused) would run its callbacks")
            # the test must be re-done whenever `cur` is re-bound
            for b in S.binds:
                tests = [t.id for t in g.nodes if t.kind == "test" and g.reachable(t.id) and
                         (attr_of(t.ast, "paused", cur) or any(attr_of(x, "paused", cur) for x in ast.walk(t.ast)))]
                wit = avoiding_path(g, [b], [p], tests)
                ctx.check(wit is None, "pause/guard-after-rebind", ctx.construct(q, g.node(b).ast),
                          "after taking the next Deferred from the chain stack its callbacks are consumed without testing its pause counter",
                          witness=g.describe(wit))
        for c in S.callouts:
            call = calls_of(g, c, lambda x: is_name(x.func, S.cb))[0]
            cons = ctx.construct(q, "<user callback call-out>")
            ctx.check(S.is_continue(c) is False, "callout/not-the-sentinel", cons,
                      "the _CONTINUE marker can reach the user call-out and be called like a callback")
            # arguments and destination
            a_ok = (len(call.args) == 2 and S.is_cur_result(call.args[0]) and isinstance(call.args[1], ast.Starred)
                    and is_name(call.args[1].value, S.a) and len(call.keywords) == 1 and call.keywords[0].arg is None
                    and is_name(call.keywords[0].value, S.kw))
            ctx.check(a_ok, "callout/arguments", cons,
                      f"the callback is not called as callback({cur}.result, *args, **kwargs) with the args stored next to it")
            st = g.node(c).ast
            ctx.check(any(attr_of(t, "result", cur) and v is call for t, v in targets_values(st)), "callout/result-stored", cons,
                      "the value returned by the callback does not become the Deferred's current result")
            # flag set before, on every path, and not reset in between
            wit = g.must_precede(set_true, [c])
            ctx.check(bool(set_true) and wit is None, "reentrancy/flag-set-before-callout", cons,
                      "the user callback can be entered with _runningCallbacks unset: re-entrant addCallback would run callbacks recursively",
                      witness=g.describe(wit))
            wit = avoiding_path(g, set_false, [c], set_true)
            ctx.check(wit is None, "reentrancy/flag-set-before-callout", cons + " (not reset before)",
                      "_runningCallbacks is reset between being set and the call-out", witness=g.describe(wit))
            # flag reset after, on every path incl. exceptional, before the next consumption / any exit
            targets = set(S.pops) | {g.exit, g.raise_exit} | set(S.binds)
            wit = g.path([c], targets, avoid=set(set_false), strict=True)
            ctx.check(bool(set_false) and wit is None, "reentrancy/flag-reset-on-every-exit", cons,
                      "after the user callback (returning or raising) the loop can go on / leave with _runningCallbacks still True: "
                      "callbacks added later to this Deferred would never run", witness=g.describe(wit))
            # (c) every exception becomes the result
            wit = exc_escape(g, c)
            ctx.check(wit is None, "callout/exception-captured", cons,
                      "an exception raised by a callback (BaseException included) can escape _runCallbacks instead of becoming the "
                      "Deferred's Failure result", witness=g.describe(wit))
            hs = catching_handlers(g, c)
            ctx.check(bool(hs) and any(handler_catches_all(g.node(h).ast) for h in hs), "callout/exception-captured", cons + " (catch-all)",
                      "no BaseException handler encloses the user call-out (handlers: "
                      + ", ".join(n for h in hs for n in handler_names(g.node(h).ast)) + ")")
            fail_assign = stmt_nodes(g, lambda st: any(attr_of(t, "result", cur) and isinstance(v, ast.Call) and dotted(v.func) == "Failure"
                                                       and not v.args for t, v in targets_values(st) if v is not None))
            for h in hs:
                wit = g.path([h], set(S.pops) | {g.exit} | set(S.binds), avoid=set(fail_assign), edge_ok=no_exc, strict=True)
                ctx.check(wit is None, "callout/exception-becomes-failure", ctx.construct(q, "except " + "/".join(handler_names(g.node(h).ast))),
                          "after catching the callback's exception the loop continues without storing Failure() as the result",
                          witness=g.describe(wit))
        # slot selection by the kind of the current result
        is_fail_test = lambda e: isinstance(e, ast.Call) and dotted(e.func) == "isinstance" and len(e.args) == 2 \
            and S.is_cur_result(e.args[0]) and is_name(e.args[1], "Failure")
        for n, k in S.unpacks:
            if isinstance(k, ast.AST):
                # item[1 if <test> else 0]  or  item[<test>] (a bool indexes 0 / 1)
                t, body, orelse = (k.test, const_int(k.body), const_int(k.orelse)) if isinstance(k, ast.IfExp) else (k, 1, 0)
                neg = False
                while isinstance(t, ast.UnaryOp) and isinstance(t.op, ast.Not):
                    t, neg = t.operand, not neg
                on_fail, on_ok = (orelse, body) if neg else (body, orelse)
                ctx.check(is_fail_test(t) and on_fail == 1 and on_ok == 0, "callout/slot-selection", ctx.construct(q, g.node(n).ast),
                          "the conditional slot index does not pick slot 1 for a Failure result and slot 0 otherwise")
                continue
            v = known_bool(g, n, is_fail_test)
            ctx.check(v is not None and k == (1 if v else 0), "callout/slot-selection", ctx.construct(q, g.node(n).ast),
                      f"slot {k} of the pair is used when the current result is {'a' if v else 'not a'} Failure "
                      "(slot 0 is the callback, slot 1 the errback)")
        for c in S.callouts:
            wit = g.must_precede([n for n, _ in S.unpacks], [c])
            ctx.check(wit is None, "callout/slot-selection", q + " | <every call-out uses a freshly selected slot>",
                      "the call-out can be reached without selecting the callback/errback slot for this item", witness=g.describe(wit))
            wit = avoiding_path(g, [c], S.callouts, S.pops)
            ctx.check(wit is None, "callout/once-per-item", q + " | <user callback call-out>",
                      "the same popped callback can be called twice", witness=g.describe(wit))

    with group(ctx, "fire"):
        # what is fired: callback() hands over its argument, errback() always a Failure
        f = inlined_func(ctx, DEFER, "Deferred.callback")
        fg = ctx.cfg(f)
        starts = call_nodes(fg, lambda c: method_call(c, "_startRunCallbacks", "self"))
        for n in starts:
            c = calls_of(fg, n, lambda c: method_call(c, "_startRunCallbacks", "self"))[0]
            ctx.check(len(c.args) == 1 and is_name(c.args[0], params(f)[1]) and not name_assign_nodes(fg, params(f)[1]), "fire/callback-passes-its-argument",
                      ctx.construct(Q + "Deferred.callback", c), "callback(x) does not start the chain with x")
        f = inlined_func(ctx, DEFER, "Deferred.errback")
        fg = ctx.cfg(f)
        eq_ = Q + "Deferred.errback"
        starts = call_nodes(fg, lambda c: method_call(c, "_startRunCallbacks", "self"))
        ctx.check(bool(starts), "fire/errback-wraps-failure", eq_, "errback() never starts the chain")
        for n in starts:
            c = calls_of(fg, n, lambda c: method_call(c, "_startRunCallbacks", "self"))[0]
            v = c.args[0] if len(c.args) == 1 else None
            ok = is_name(v)
            wit = None
            if ok:
                def ctor(x):
                    if isinstance(x, ast.IfExp):
                        return ctor(x.body) and ctor(x.orelse)
                    return isinstance(x, ast.Call) and dotted(x.func) == "Failure"

                def is_f(e, name):
                    return isinstance(e, ast.Call) and dotted(e.func) == "isinstance" and len(e.args) == 2 and is_name(e.args[0], name) and is_name(e.args[1], "Failure")

                def good_def(st_node):
                    # v = Failure(...)  |  v = x  where isinstance(x, Failure) is established at that point
                    for t, x in targets_values(fg.node(st_node).ast):
                        if is_name(t, v.id) and x is not None:
                            if ctor(x):
                                return True
                            if isinstance(x, ast.Name) and known_bool(fg, st_node, lambda e: is_f(e, x.id)) is True:
                                return True
                    return False
                wraps = [d for d in name_assign_nodes(fg, v.id) if good_def(d)]
                ftests = {t.id for t in fg.nodes if t.kind == "test" and is_f(t.ast, v.id)}
                # a path to the firing on which the value was neither built as / shown to be a Failure
                wit = fg.path([fg.entry], [n], avoid=set(wraps), edge_ok=lambda a, b, l: l != "exc" and not (a in ftests and l == "T"))
            ctx.check(ok and wit is None, "fire/errback-wraps-failure", ctx.construct(eq_, c),
                      "errback(x) can start the chain with something that is not a Failure: the *callbacks* would run with the raw exception",
                      witness=fg.describe(wit))

    with group(ctx, "who-may-write"):
        # who may write _runningCallbacks / paused
        acc2 = module_accesses(mod, {"_runningCallbacks", "paused"})
        for a in acc2:
            rs = root_callers(mod, a.func)
            if a.attr == "_runningCallbacks":
                ok = rs == {"Deferred._runCallbacks"}
            else:
                ok = rs <= {"Deferred.pause", "Deferred.unpause", "Deferred._runCallbacks"} and a.kind == "augassign"
            ctx.check(ok, "who-may-write/" + a.attr, ctx.construct(Q + a.func, a.node), f"{a.attr} is written in an unexpected place ({a.func}, {a.kind})")
        ctx.floor("who-may-write", len(acc2), 3)

    # (d) pause / unpause
    with group(ctx, "pause-unpause"):
        f = inlined_func(ctx, DEFER, "Deferred.pause")
        pg = ctx.cfg(f)
        incs = stmt_nodes(pg, lambda st: isinstance(st, ast.AugAssign) and attr_of(st.target, "paused", "self") and isinstance(st.op, ast.Add) and const_int(st.value) == 1)
        ctx.check(len(incs) == 1 and avoiding_path(pg, [pg.entry], [pg.exit], incs) is None and not pg.path(incs, incs, strict=True),
                  "pause/increments-once", Q + "Deferred.pause", "pause() does not increment the pause counter exactly once")
        f = inlined_func(ctx, DEFER, "Deferred.unpause")
        ug = ctx.cfg(f)
        uq = Q + "Deferred.unpause"
        decs = stmt_nodes(ug, lambda st: isinstance(st, ast.AugAssign) and attr_of(st.target, "paused", "self") and isinstance(st.op, ast.Sub) and const_int(st.value) == 1)
        ctx.check(len(decs) == 1 and avoiding_path(ug, [ug.entry], [ug.exit], decs) is None, "unpause/decrements-once", uq,
                  "unpause() does not decrement the pause counter exactly once on every path")
        uruns = call_nodes(ug, lambda c: method_call(c, "_runCallbacks", "self"))
        ctx.check(bool(uruns), "unpause/resumes", uq, "unpause() never resumes the callback chain")
        for r in uruns:
            ctx.check(known_zero(ug, r, lambda e: attr_of(e, "paused", "self")) is True, "unpause/only-at-zero", ctx.construct(uq, ug.node(r).ast),
                      "unpause() runs callbacks while the pause counter is still positive (two pauses, one unpause)")
            ctx.check(known_bool(ug, r, lambda e: attr_of(e, "called", "self")) is True, "unpause/only-if-called", ctx.construct(uq, ug.node(r).ast),
                      "unpause() runs callbacks of a Deferred that has no result yet")
            ctx.check(ug.must_precede(decs, [r]) is None, "unpause/decrement-before-test", ctx.construct(uq, ug.node(r).ast),
                      "unpause() tests the counter before decrementing it")
        # when the counter reached zero and the Deferred is called, callbacks *are* resumed
        ptests = {t.id for t in ug.nodes if t.kind == "test" and _zero_subject(t.ast, "self")}
        ctests = {t.id for t in ug.nodes if t.kind == "test" and attr_of(t.ast, "called", "self")}

        def live_edge(a, b, l):
            if l == "exc":
                return False
            if a in ctests and l == "F":
                return False
            if a in ptests:
                z = _zero_fact(ug.node(a).ast, l == "T", lambda e: attr_of(e, "paused", "self"))
                if z is False:
                    return False
            return True
        wit = ug.path(decs, [ug.exit], avoid=set(uruns), edge_ok=live_edge, strict=True) if decs else None
        ctx.check(wit is None, "unpause/resumes", uq + " | <counter zero and called>",
                  "unpause() bringing the counter to zero on a fired Deferred can return without running the callbacks", witness=ug.describe(wit))

    with group(ctx, "continue-handover"):
        _need_shape(S)
        # ---- _CONTINUE hand-over ------------------------------------------------------------------
        ctx.check(bool(S.cont_tests), "continue/recognised", q + " | <test for the _CONTINUE marker>",
                  "_runCallbacks no longer recognises the _CONTINUE marker: chained Deferreds would never receive their result")
        chainee = S.chainee
        cont_T = [d for t in S.cont_tests for d, l in g.succ[t]
                  if l in ("T", "F") and ident_fact(g.node(t).ast, l == "T", lambda x: is_name(x, S.cb), lambda x: (dotted(x) or "").endswith("_CONTINUE")) is True]
        handover = stmt_nodes(g, lambda st: any(attr_of(t, "result", chainee) and v is not None and S.is_cur_result(v) for t, v in targets_values(st)))
        dec = stmt_nodes(g, lambda st: isinstance(st, ast.AugAssign) and attr_of(st.target, "paused", chainee) and isinstance(st.op, ast.Sub)
                         and const_int(st.value) == 1) + call_nodes(g, lambda c: method_call(c, "unpause", chainee))
        clear = stmt_nodes(g, lambda st: any(attr_of(t, "result", cur) and is_const(v, None) for t, v in targets_values(st) if v is not None))
        leave = set(S.pops) | set(S.binds) | {g.exit}
        cq = q + " | <_CONTINUE branch>"
        if cont_T and chainee:
            for via, rule, fails in (
                (handover, "continue/result-handed-over", "the waiting Deferred is resumed without receiving the current result"),
                (dec, "continue/one-unpause", "the waiting Deferred's pause (taken when it chained) is never undone: its remaining callbacks never run"),
                (clear, "continue/inner-result-cleared", "the inner Deferred keeps the result it handed over (it must end with None)"),
            ):
                wit = avoiding_path(g, cont_T, leave, via, strict=False)
                ctx.check(bool(via) and wit is None, rule, cq, fails, witness=g.describe(wit))
            wit = avoiding_path(g, dec, dec, S.pops)
            ctx.check(wit is None, "continue/one-unpause", cq + " (at most once)", "the waiting Deferred is un-paused twice for one hand-over",
                      witness=g.describe(wit))
            for d in dec + handover:
                ctx.check(S.is_continue(d) is True, "continue/confined", ctx.construct(q, g.node(d).ast),
                          "hand-over to a waiting Deferred happens for an ordinary callback item")
            wit = avoiding_path(g, cont_T, [c for c in clear if S.is_continue(c)], handover, strict=False)
            ctx.check(wit is None, "continue/inner-result-cleared", cq + " (order)",
                      "the inner result is cleared before it is handed over (the waiting Deferred receives None)", witness=g.describe(wit))
            # nothing more runs for `cur` once its result has been handed over, until the current Deferred is re-bound
            nested = call_nodes(g, lambda c: method_call(c, "unpause", chainee) or method_call(c, "_runCallbacks", chainee))
            for hnode in handover:
                wit = avoiding_path(g, [hnode], set(S.pops) | set(S.callouts), set(S.binds) | set(nested))
                ctx.check(wit is None, "continue/stop-after-handover", ctx.construct(q, g.node(hnode).ast),
                          "after handing the result to the waiting Deferred the inner Deferred keeps consuming its own callbacks",
                          witness=g.describe(wit))
        else:
            ctx.check(False, "continue/recognised", cq, "the _CONTINUE branch / the waiting Deferred taken from args[0] is not recognisable")

    with group(ctx, "returned-deferred"):
        _need_shape(S)
        # ---- returned Deferred: pause-and-chain or steal ------------------------------------------
        is_def_test = [t.id for t in g.nodes if t.kind == "test" and g.reachable(t.id) and deferred_fact(t.ast, True, cur_res) is not None]
        ctx.check(bool(is_def_test), "returned-deferred/recognised", q + " | <is the new result a Deferred?>",
                  "the value returned by a callback is no longer examined for being a Deferred")
        for c in S.callouts:
            wit = avoiding_path(g, [c], set(S.pops) | {g.exit} | set(S.binds), is_def_test)
            ctx.check(wit is None, "returned-deferred/always-examined", q + " | <user callback call-out>",
                      "after a callback returned normally the next callback can run without checking whether the result is a Deferred",
                      witness=g.describe(wit))
        # the test that actually routes the new result (a later test of the same fact supersedes an earlier one, e.g. one inside a diagnostic)
        stopset = set(S.pops) | set(S.binds) | {g.exit}
        routing = [t for t in is_def_test if not any(o != t and g.path([d for d, l in g.succ[t] if l in ("T", "F")], [o], avoid=stopset, edge_ok=no_exc, strict=False)
                                                     for o in is_def_test)]
        dT = [d for t in routing for d, l in g.succ[t] if l in ("T", "F") and deferred_fact(g.node(t).ast, l == "T", cur_res) is True]
        wit = avoiding_path(g, dT, set(S.pops) | {g.exit} | set(S.callouts), set(S.regs) | set(S.steals), strict=False)
        ctx.check(wit is None, "returned-deferred/chain-or-steal", q + " | <result is a Deferred>",
                  "a Deferred returned by a callback can be passed on as a plain value (neither its result taken nor waited for)",
                  witness=g.describe(wit))
        pauses = call_nodes(g, lambda c: method_call(c, "pause", cur)) + stmt_nodes(
            g, lambda st: isinstance(st, ast.AugAssign) and attr_of(st.target, "paused", cur) and isinstance(st.op, ast.Add) and const_int(st.value) == 1)
        ctx.check(bool(S.regs), "chain/registration", q + " | <continuation registered on the returned Deferred>",
                  "waiting for an unfired returned Deferred is no longer arranged")
        for r in S.regs:
            call = calls_of(g, r, S._is_reg)[0]
            cons = ctx.construct(q, call)
            if S.reg_is_api(call):
                # waiting arranged with <inner>.addBoth(<cur>._resumer): same results and per-Deferred order (re-entrancy is C02's clause)
                ctx.check(S.is_inner(call.func.value), "chain/registration-target", cons,
                          "the continuation is not registered on the Deferred the callback returned")
            else:
                ctx.check(call.func.attr == "append" and S.is_inner(call.func.value.value), "chain/registration-target", cons,
                          "the continuation is not appended to the callbacks of the Deferred the callback returned")
                conts = [x for a in call.args for x in ast.walk(a) if isinstance(x, ast.Call) and isinstance(x.func, ast.Attribute) and x.func.attr == "_continuation"]
                ctx.check(all(is_name(x.func.value, cur) for x in conts) and len(call.args) == 1 and call.args[0] in conts, "chain/registration-target",
                          cons + " (whose continuation)", "the registered continuation is not the current Deferred's own")
            wit = avoiding_path(g, S.callouts, [r], pauses)
            ctx.check(bool(pauses) and wit is None, "chain/paused-while-waiting", cons,
                      "the current Deferred waits for the returned Deferred without being paused: the _CONTINUE hand-over would drive "
                      "its counter negative / callbacks added meanwhile run with a Deferred as input", witness=g.describe(wit))
            wit = avoiding_path(g, pauses, pauses, S.callouts)
            ctx.check(wit is None, "chain/paused-while-waiting", cons + " (once)", "the current Deferred is paused twice for one returned Deferred",
                      witness=g.describe(wit))
            wit = avoiding_path(g, [r], set(S.pops) | set(S.callouts), S.binds)
            ctx.check(wit is None, "chain/stop-after-registration", cons,
                      "after chaining to an unfired Deferred the loop goes on running callbacks with that Deferred as their input",
                      witness=g.describe(wit))
        for p_ in pauses:
            wit = avoiding_path(g, [p_], set(S.pops) | {g.exit} | set(S.binds), S.regs)
            ctx.check(wit is None, "chain/pause-implies-registration", ctx.construct(q, g.node(p_).ast),
                      "the current Deferred is paused for a returned Deferred but no continuation is registered: it never resumes",
                      witness=g.describe(wit))
        # continuation tuple: _CONTINUE in both slots with the Deferred itself as args[0]
        cf = ctx.func(DEFER, "Deferred._continuation")
        rets = [st for st in ast.walk(cf) if isinstance(st, ast.Return)]
        ltup = {t.id: v for st in cf.body for t, v in targets_values(st) if isinstance(t, ast.Name) and isinstance(v, ast.Tuple)}
        okc = len(rets) == 1 and isinstance(rets[0].value, ast.Tuple) and len(rets[0].value.elts) == 2
        if okc:
            for e in rets[0].value.elts:
                callee, trip = _slot_callee(cf, e, ltup)
                okc = okc and callee is not None and (dotted(callee) or "").endswith("_CONTINUE") and isinstance(trip.elts[1], ast.Tuple) \
                    and len(trip.elts[1].elts) == 1 and is_name(trip.elts[1].elts[0], "self")
        ctx.check(okc, "chain/continuation-shape", Q + "Deferred._continuation",
                  "_continuation() is not ((_CONTINUE, (self,), ..), (_CONTINUE, (self,), ..)): successes or failures of the inner "
                  "Deferred would not be handed to this Deferred")

    with group(ctx, "steal-decision"):
        _need_shape(S)
        _check_steal_decision(ctx, S, cur_res)

    with group(ctx, "steal"):
        _need_shape(S)
        # ---- steal --------------------------------------------------------------------------------
        ctx.check(bool(S.steals), "steal/recognised", q + " | <result taken from a fired returned Deferred>",
                  "the result of an already fired returned Deferred is never taken over")
        donor_clear = stmt_nodes(g, lambda st: any(isinstance(t, ast.Attribute) and t.attr == "result" and S.is_inner(t.value) and is_const(v, None)
                                                   for t, v in targets_values(st) if v is not None))
        for s in S.steals:
            cons = ctx.construct(q, g.node(s).ast)
            V = [v.id for t, v in targets_values(g.node(s).ast) if attr_of(t, "result", cur) and is_name(v)][0]
            fs = facts(g, s)
            no_res = any(ident_fact(e, pol, lambda x: is_name(x, V), lambda x: (dotted(x) or "").endswith("_NO_RESULT")) is False for e, pol in fs)
            not_def = any(deferred_fact(e, pol, lambda x: is_name(x, V)) is False for e, pol in fs)
            unpaused = known_zero(g, s, lambda e: isinstance(e, ast.Attribute) and e.attr == "paused" and S.is_inner(e.value)) is True
            # a guard that is a bare local (a flag computed elsewhere) hides what is established: abstain rather than guess
            opaque = [src(e) for e, pol in fs if isinstance(e, ast.Name) and e.id not in (S.cb, S.a, S.kw)
                      and len(name_assign_nodes(g, e.id)) > 1 and e.id not in bool_flag_locals(g)]
            if opaque and not (no_res and not_def and unpaused):
                raise AnalysisError(f"Deferred._runCallbacks: the result is taken under the local flag(s) {opaque}, whose meaning is not read; "
                                    "the take-or-wait clauses are not decided for this shape")
            ctx.check(no_res, "steal/only-if-fired", cons, "the result is taken from a returned Deferred that has not fired (the _NO_RESULT marker becomes the result)")
            ctx.check(not_def, "steal/not-a-deferred", cons, "the stolen result may itself be a Deferred (the inner one is still waiting): it would be passed on as a value")
            ctx.check(unpaused, "steal/not-paused", cons, "the result is taken from a returned Deferred that is paused (its own callbacks have not finished)")
            ctx.check(any(deferred_fact(e, pol, cur_res) is True for e, pol in fs), "steal/confined", cons,
                      "result stealing is not confined to 'the callback returned a Deferred'")
            # every route call-out -> steal -> next consumption passes a donor clear
            before = avoiding_path(g, S.callouts, [s], donor_clear)
            after = avoiding_path(g, [s], set(S.pops) | {g.exit} | set(S.binds), donor_clear)
            wit = after if (before is not None and after is not None) else None
            ctx.check(bool(donor_clear) and wit is None, "steal/donor-cleared", cons,
                      "the returned Deferred keeps the result that was taken from it (it must end holding None)", witness=g.describe(wit))


def _check_steal_decision(ctx, S, cur_res):
    """Take-or-wait for a Deferred returned by a callback is a truth table over exactly three facts about that Deferred:
    it has a result, that result is itself a Deferred, it is paused.  (a) structural: every *decisive* test (one whose two outcomes
    can lead to different decisions) reads only one of those facts; (b) finite-exhaustive: for every valuation the decision is
    `take` iff (has result, result not a Deferred, not paused)."""
    g, q = S.g, S.q
    is_V = lambda e: isinstance(e, ast.Name) and e.id in S.stolen
    is_inner_paused = lambda e: isinstance(e, ast.Attribute) and e.attr == "paused" and S.is_inner(e.value)

    def classify(e, pol):
        """(fact, value) established by taking edge `pol` of atomic test e, or None when e is outside the vocabulary"""
        v = ident_fact(e, pol, is_V, lambda x: (dotted(x) or "").endswith("_NO_RESULT"))
        if v is not None:
            return ("has", not v)
        v = deferred_fact(e, pol, is_V)
        if v is not None:
            return ("rd", v)
        v = _zero_fact(e, pol, is_inner_paused)
        if v is not None:
            return ("paused", not v)
        return None
    tests_ = [t.id for t in g.nodes if t.kind == "test" and g.reachable(t.id) and deferred_fact(t.ast, True, cur_res) is not None]
    stopset_ = set(S.pops) | set(S.binds) | {g.exit}
    tests_ = [t for t in tests_ if not any(o != t and g.path([d for d, l in g.succ[t] if l in ("T", "F")], [o], avoid=stopset_, edge_ok=no_exc, strict=False)
                                           for o in tests_)]
    starts = [d for t in tests_ for d, l in g.succ[t] if l in ("T", "F") and deferred_fact(g.node(t).ast, l == "T", cur_res) is True]
    steals, regs = set(S.steals), set(S.regs)
    if not starts or not steals or not regs:
        return      # reported by steal/recognised, chain/registration, returned-deferred/recognised
    stop = steals | regs | set(S.pops) | set(S.binds) | {g.exit}
    region = g.reach(starts, avoid=stop, edge_ok=no_exc)
    decisive = []
    for t in sorted(region):
        n = g.node(t)
        if n.kind != "test":
            continue
        ends = []
        for d, l in g.succ[t]:
            if l in ("T", "F"):
                first_steal = avoiding_path(g, [d], steals, regs | set(S.pops) | set(S.binds), strict=False) is not None
                first_reg = avoiding_path(g, [d], regs, steals | set(S.pops) | set(S.binds), strict=False) is not None
                ends.append((first_steal, first_reg))
        if len(ends) == 2 and ends[0] != ends[1]:
            decisive.append(t)
    opaque = [t for t in decisive if isinstance(g.node(t).ast, ast.Name) and not S.is_inner(g.node(t).ast) and g.node(t).ast.id not in S.stolen]
    if opaque:
        raise AnalysisError("Deferred._runCallbacks: take-or-wait is decided through the local flag(s) "
                            + ", ".join(src(g.node(t).ast) for t in opaque) + ", whose definitions are not read; decision clauses not decided for this shape")
    outside = [t for t in decisive if classify(g.node(t).ast, True) is None]
    vocab = "; ".join(src(g.node(t).ast) for t in decisive)
    for t in outside:
        ctx.check(False, "steal/decision-domain", ctx.construct(q, "test " + src(g.node(t).ast)),
                  "whether the result of a returned Deferred is taken at once or waited for depends on something other than (it has a result, "
                  "that result is not a Deferred, it is not paused): the documented chaining rule knows no further condition, so callbacks run in "
                  "a different order / with different inputs when this condition differs")
    ctx.check(bool(decisive), "steal/decision-domain", q + " | <take-or-wait decision>",
              "no test decides between taking the returned Deferred's result and waiting for it",
              detail=f"decisive tests (outcomes lead to different decisions): {vocab}; each reads only has-result / result-is-Deferred / paused"
              if not outside else "")
    if outside:
        return
    domain = ("finite-exhaustive: all valuations of (has result, result is a Deferred, paused) with `result is a Deferred` only when there is a "
              f"result; complete because the decisive tests read nothing else (steal/decision-domain: {vocab})")
    for has, rd, paused in ((0, 0, 0), (0, 0, 1), (1, 0, 0), (1, 0, 1), (1, 1, 0), (1, 1, 1)):
        env = {"has": bool(has), "rd": bool(rd), "paused": bool(paused)}

        def ok_edge(a, b, l):
            if l == "exc":
                return False
            if a in decisive and l in ("T", "F"):
                fact, val = classify(g.node(a).ast, l == "T")
                return env[fact] == val
            return True
        takes = g.path(starts, steals, avoid=regs | set(S.pops) | set(S.binds), edge_ok=ok_edge, strict=False)
        waits = g.path(starts, regs, avoid=steals | set(S.pops) | set(S.binds), edge_ok=ok_edge, strict=False)
        want_take = env["has"] and not env["rd"] and not env["paused"]
        lab = f"has result={'T' if has else 'F'} result is Deferred={'T' if rd else 'F'} paused={'T' if paused else 'F'}"
        good = (takes is not None and waits is None) if want_take else (waits is not None and takes is None)
        wit = (waits if want_take else takes) or []
        ctx.check(good, "steal/decision-table", f"{q} | {lab}",
                  f"for a returned Deferred with {lab} the chain must {'take its result at once' if want_take else 'wait for it'}, but the code can "
                  f"{'wait' if want_take else 'take the result'}" + ("" if (takes or waits) else " do neither"), detail=domain, witness=g.describe(wit))


def _need_shape(S):
    if S is None:
        raise AnalysisError("Deferred._runCallbacks skeleton not readable (see run-callbacks/shape)")


def _local_sources(fg, e) -> set:
    """names a local used in ``e`` was computed from (one level), so `args = () if callbackArgs is None else callbackArgs` is seen through"""
    out = set()
    for x in ast.walk(e):
        if isinstance(x, ast.Name):
            for d in name_assign_nodes(fg, x.id):
                for t, v in targets_values(fg.node(d).ast):
                    if is_name(t, x.id) and v is not None:
                        out |= {y.id for y in ast.walk(v) if isinstance(y, ast.Name)}
    return out


def _check_delegation(ctx, f, fg, fq, name, ps, want_ok, want_err, node):
    """addCallback/addErrback/addBoth written as `return self.addCallbacks(...)`"""
    c = calls_of(fg, node, lambda c: method_call(c, "addCallbacks", "self"))[0]
    sig = ["callback", "errback", "callbackArgs", "callbackKeywords", "errbackArgs", "errbackKeywords"]
    b = dict(zip(sig, c.args))
    b.update({k.arg: k.value for k in c.keywords if k.arg})
    va = f.args.vararg.arg if f.args.vararg else ""
    vk = f.args.kwarg.arg if f.args.kwarg else ""

    def callee(want, e):
        if want.startswith("P:"):
            return is_name(e, ps[int(want[2:])])
        return is_name(e, want) or (want == "_failthru" and (e is None or is_const(e, None)))
    ok = callee(want_ok, b.get("callback")) and callee(want_err, b.get("errback"))
    ctx.check(ok, "adder/slot-layout", ctx.construct(fq, c),
              f"{name} does not delegate (success-callable, error-callable) = ({want_ok}, {want_err}) to addCallbacks")
    for want, ka, kk in ((want_ok, "callbackArgs", "callbackKeywords"), (want_err, "errbackArgs", "errbackKeywords")):
        if want.startswith("P:"):
            good = is_name(b.get(ka), va) and is_name(b.get(kk), vk)
        else:
            good = b.get(ka) is None and b.get(kk) is None
        ctx.check(good, "adder/slot-args", ctx.construct(fq, c) + f" ({ka})", f"{name}: the caller's extra arguments are not forwarded with its own callable")
    rets = stmt_nodes(fg, lambda st: isinstance(st, ast.Return))
    wit = avoiding_path(fg, [fg.entry], [fg.exit], [node])
    ctx.check(wit is None, "adder/runs-when-called", fq, f"{name} can return without registering the callback", witness=fg.describe(wit))
    ctx.check(bool(rets) and all(is_name(fg.node(r).ast.value, "self") or fg.node(r).ast.value is c for r in rets) and
              avoiding_path(fg, [fg.entry], [fg.exit], rets) is None, "adder/returns-self", fq, f"{name} does not return the Deferred itself")


def _zero_subject(e, recv):
    return any(attr_of(x, "paused", recv) for x in ast.walk(e))


D = DEFER
MUTANTS = [
    Mutant("drop-finally-reset", D,
           "                    finally:\n                        current._runningCallbacks = False\n                except BaseException:",
           "                    finally:\n                        pass\n                    current._runningCallbacks = False\n                except BaseException:",
           expect_rule="reentrancy/flag-reset-on-every-exit"),
    Mutant("pop-last", D, "item = current.callbacks.pop(0)", "item = current.callbacks.pop()", expect_rule="callbacks/fifo-drain"),
    Mutant("drop-chainee-unpause", D, "                    chainee.paused -= 1\n", "", expect_rule="continue/one-unpause"),
    Mutant("pause-test-on-self", D, "            if current.paused:\n", "            if self.paused:\n", expect_rule="pause/guard"),
    Mutant("narrow-handler", D, "                except BaseException:\n                    # Including full frame", "                except Exception:\n                    # Including full frame",
           expect_rule="callout/exception-captured"),
    Mutant("steal-from-paused", D, "                            or type(resultResult) in _DEFERRED_SUBCLASSES\n                            or currentResult.paused\n",
           "                            or type(resultResult) in _DEFERRED_SUBCLASSES\n", expect_rule="steal/not-paused"),
    Mutant("steal-nested-deferred", D, "                            resultResult is _NO_RESULT\n                            or type(resultResult) in _DEFERRED_SUBCLASSES\n",
           "                            resultResult is _NO_RESULT\n", expect_rule="steal/not-a-deferred"),
    Mutant("no-break-after-chaining", D,
           "                            currentResult.callbacks.append(current._continuation())\n                            break\n",
           "                            currentResult.callbacks.append(current._continuation())\n", expect_rule="chain/stop-after-registration"),
    Mutant("finished-stays-true", D, "                    finished = False\n                    break\n", "                    break\n",
           expect_rule="continue/stack-not-popped-early"),
    Mutant("unpause-test-before-decrement", D, "        self.paused -= 1\n        if self.paused:\n            return\n",
           "        if self.paused:\n            self.paused -= 1\n            return\n", expect_rule="unpause/"),
    Mutant("unpause-ignores-called", D, "        if self.paused:\n            return\n        if self.called:\n            self._runCallbacks()\n",
           "        if self.paused:\n            return\n        self._runCallbacks()\n", expect_rule="unpause/only-if-called"),
    Mutant("addErrback-slots-swapped", D, "self.callbacks.append(((passthru, (), {}), (errback, args, kwargs)))",
           "self.callbacks.append(((errback, args, kwargs), (passthru, (), {})))", expect_rule="adder/slot-layout"),
    Mutant("addBoth-late-callback-not-run", D,
           "        call = (callback, args, kwargs)\n        self.callbacks.append((call, call))\n\n        if self.called:\n            self._runCallbacks()\n",
           "        call = (callback, args, kwargs)\n        self.callbacks.append((call, call))\n", expect_rule="adder/runs-when-called"),
    Mutant("donor-keeps-result", D, "                            currentResult.result = None\n", "                            pass\n", expect_rule="steal/donor-cleared"),
    Mutant("clear-before-handover", D, "                    chainee.result = current.result\n                    current.result = None\n",
           "                    current.result = None\n                    chainee.result = current.result\n", expect_rule="continue/"),
    Mutant("chain-peek-bottom", D, "            current = chain[-1]\n", "            current = chain[0]\n", expect_rule="chain/lifo"),
    Mutant("kwargs-dropped", D, "                            current.result, *args, **kwargs\n", "                            current.result, *args\n",
           expect_rule="callout/arguments"),
    Mutant("errback-does-not-wrap", D, "        elif not isinstance(fail, Failure):\n            fail = Failure(fail)\n\n        self._startRunCallbacks(fail)",
           "        self._startRunCallbacks(fail)", expect_rule="fire/errback-wraps-failure"),
    Mutant("flag-reset-only-on-success", D, "                    finally:\n                        current._runningCallbacks = False\n                except BaseException:",
           "                    finally:\n                        pass\n                except BaseException:",
           more=[(D, "                else:\n                    # isinstance() with Awaitable subclass is expensive:\n", "                else:\n                    current._runningCallbacks = False\n")],
           expect_rule="reentrancy/flag-reset-on-every-exit"),
    Mutant("inner-result-kept", D, "                    chainee.result = current.result\n                    current.result = None\n", "                    chainee.result = current.result\n",
           expect_rule="continue/inner-result-cleared"),
    Mutant("wait-without-pause", D, "                            current.pause()\n                            current._chainedTo = currentResult\n", "                            current._chainedTo = currentResult\n",
           expect_rule="chain/paused-while-waiting"),
    Mutant("exception-result-not-stored", D, "                    current.result = Failure(captureVars=self.debug)\n", "                    pass\n", expect_rule="callout/exception-becomes-failure"),
    Mutant("callbacks-iterated-not-removed", D, "            while current.callbacks:\n                item = current.callbacks.pop(0)\n", "            for item in list(current.callbacks):\n",
           expect_rule="callbacks/fifo-drain"),
    Mutant("callbacks-peeked-not-removed", D, "                item = current.callbacks.pop(0)\n", "                item = current.callbacks[0]\n", expect_rule="callbacks/fifo-drain"),
    Mutant("slot-index-negated", D, "                if not isinstance(current.result, Failure):\n                    callback, args, kwargs = item[0]\n                else:\n                    # type note: Callback signature also works for Errbacks in\n                    #     this context.\n                    callback, args, kwargs = item[1]\n",
           "                callback, args, kwargs = item[not isinstance(current.result, Failure)]\n", expect_rule="callout/slot-selection"),
    Mutant("while-else-cleanup-skipped-after-rechaining", D, "            finished = True\n            current._chainedTo = None\n", "            current._chainedTo = None\n",
           more=[(D, "                    # Delay cleaning this Deferred and popping it from the chain\n                    # until after we've dealt with chainee.\n                    finished = False\n                    break\n",
                  "                    # Delay cleaning this Deferred and popping it from the chain\n                    # until after we've dealt with chainee.\n                    break\n"),
                 (D, "            if finished:\n                # As much of the callback chain", "            else:\n                # As much of the callback chain")], expect_rule="chain/popped-after-chaining"),
    Mutant("while-else-handover-pops-the-waiter", D, "            finished = True\n            current._chainedTo = None\n", "            current._chainedTo = None\n",
           more=[(D, "                    # Delay cleaning this Deferred and popping it from the chain\n                    # until after we've dealt with chainee.\n                    finished = False\n                    break\n",
                  "                    # Delay cleaning this Deferred and popping it from the chain\n                    # until after we've dealt with chainee.\n                    chain.pop()\n                    break\n"),
                 (D, "            if finished:\n                # As much of the callback chain", "            else:\n                # As much of the callback chain")] + [(D, "                            currentResult.callbacks.append(current._continuation())\n                            break\n", "                            currentResult.callbacks.append(current._continuation())\n                            chain.pop()\n                            break\n")],
           expect_rule="continue/stack-not-popped-early"),
    Mutant("exhausted-deferred-never-popped", D, "                # This Deferred is done, pop it from the chain and move back up\n                # to the Deferred which supplied us with our result.\n                chain.pop()\n",
           "                if isinstance(current.result, Failure):\n                    chain.pop()\n", expect_rule="chain/popped"),
    Mutant("take-or-wait-also-looks-at-pending-callbacks", D, "                            or type(resultResult) in _DEFERRED_SUBCLASSES\n                            or currentResult.paused\n",
           "                            or type(resultResult) in _DEFERRED_SUBCLASSES\n                            or currentResult.paused\n                            or len(currentResult.callbacks) > 0\n",
           expect_rule="steal/decision-domain"),
    Mutant("take-or-wait-skips-failures", D, "                            resultResult is _NO_RESULT\n                            or type(resultResult) in _DEFERRED_SUBCLASSES\n",
           "                            resultResult is _NO_RESULT\n                            or isinstance(resultResult, Failure)\n                            or type(resultResult) in _DEFERRED_SUBCLASSES\n",
           expect_rule="steal/decision-domain"),
    Mutant("context-manager-does-not-reset-the-flag", D,
           "                try:\n                    current._runningCallbacks = True\n                    try:\n                        # type note: mypy sees `callback is _CONTINUE` above and\n                        #    then decides that `callback` is not callable.\n                        #    This goes away when we use `_Sentinel._CONTINUE`\n                        #    instead, but we don't want to do that attribute\n                        #    lookup in this hot code path, so we ignore the mypy\n                        #    complaint here.\n                        current.result = callback(  # type: ignore[misc]\n                            current.result, *args, **kwargs\n                        )\n\n                        if current.result is current:\n                            warnAboutFunction(\n                                callback,\n                                \"Callback returned the Deferred \"\n                                \"it was attached to; this breaks the \"\n                                \"callback chain and will raise an \"\n                                \"exception in the future.\",\n                            )\n                    finally:\n                        current._runningCallbacks = False\n                except BaseException:\n",
           "                try:\n                    with _Busy(current):\n                        current.result = callback(current.result, *args, **kwargs)\n                        if current.result is current:\n                            warnAboutFunction(callback, \"Callback returned the Deferred it was attached to\")\n                except BaseException:\n",
           more=[(D, "class Deferred(Awaitable[_SelfResultT]):\n", "class _Busy:\n    def __init__(self, d):\n        self._d = d\n\n    def __enter__(self):\n        self._d._runningCallbacks = True\n\n    def __exit__(self, *exc):\n        if exc[0] is None:\n            self._d._runningCallbacks = False\n\n\nclass Deferred(Awaitable[_SelfResultT]):\n")],
           expect_rule="reentrancy/flag-reset-on-every-exit"),
    Mutant("temporaries-with-slots-crossed", D, "                item = current.callbacks.pop(0)\n                if not isinstance(current.result, Failure):\n                    callback, args, kwargs = item[0]\n                else:\n                    # type note: Callback signature also works for Errbacks in\n                    #     this context.\n                    callback, args, kwargs = item[1]\n",
           "                item = current.callbacks.pop(0)\n                given = current.result\n                callback, args, kwargs = item[0] if isinstance(given, Failure) else item[1]\n",
           more=[(D, "                        current.result = callback(  # type: ignore[misc]\n                            current.result, *args, **kwargs\n                        )\n\n                        if current.result is current:", "                        got = current.result = callback(given, *args, **kwargs)\n\n                        if got is current:"),
                 (D, "                    if type(current.result) in _DEFERRED_SUBCLASSES:", "                    if type(got) in _DEFERRED_SUBCLASSES:"),
                 (D, "                        currentResult: Deferred[_SelfResultT] = current.result  # type: ignore[assignment]\n", "                        currentResult = got\n")], expect_rule="callout/slot-selection"),
    Mutant("cursor-re-pointed-parent-forgotten", D, "        chain: List[Deferred[Any]] = [self]\n\n        while chain:\n            current = chain[-1]\n", "        current = self\n        parents: List[Deferred[Any]] = []\n\n        while True:\n",
           more=[(D, "            finished = True\n            current._chainedTo = None\n", "            current._chainedTo = None\n"),
                 (D, "                    chain.append(chainee)\n                    # Delay cleaning this Deferred and popping it from the chain\n                    # until after we've dealt with chainee.\n                    finished = False\n                    break\n", "                    current = chainee\n                    if current.paused:\n                        return\n                    current._chainedTo = None\n                    continue\n"),
                 (D, "            if finished:\n                # As much of the callback chain", "            if True:\n                # As much of the callback chain"),
                 (D, "                chain.pop()\n", "                if not parents:\n                    return\n                current = parents.pop()\n")], expect_rule="continue/stack-not-popped-early"),
]
SILENT = [
    Silent("rename-locals", D, "item = current.callbacks.pop(0)\n                if not isinstance(current.result, Failure):\n                    callback, args, kwargs = item[0]",
           "entry = current.callbacks.pop(0)\n                if not isinstance(current.result, Failure):\n                    callback, args, kwargs = entry[0]",
           more=[(D, "                    callback, args, kwargs = item[1]", "                    callback, args, kwargs = entry[1]")]),
    Silent("invert-failure-test", D,
           "                if not isinstance(current.result, Failure):\n                    callback, args, kwargs = item[0]\n                else:\n                    # type note: Callback signature also works for Errbacks in\n                    #     this context.\n                    callback, args, kwargs = item[1]\n",
           "                if isinstance(current.result, Failure):\n                    callback, args, kwargs = item[1]\n                else:\n                    callback, args, kwargs = item[0]\n"),
    Silent("unpause-single-test", D, "        self.paused -= 1\n        if self.paused:\n            return\n        if self.called:\n            self._runCallbacks()\n",
           "        self.paused -= 1\n        if self.paused == 0 and self.called:\n            self._runCallbacks()\n"),
    Silent("pause-by-increment", D, "                            current.pause()\n                            current._chainedTo = currentResult\n",
           "                            current.paused += 1\n                            current._chainedTo = currentResult\n"),
    Silent("paused-compare", D, "            if current.paused:\n                # This Deferred isn't going", "            if current.paused > 0:\n                # This Deferred isn't going"),
    Silent("deque-popleft", D, "        self.callbacks: List[_CallbackChain] = []\n", "        self.callbacks = deque()\n",
           more=[(D, "item = current.callbacks.pop(0)", "item = current.callbacks.popleft()")]),
    Silent("flag-reset-without-finally", D,
           "                try:\n                    current._runningCallbacks = True\n                    try:\n                        # type note: mypy sees `callback is _CONTINUE` above and\n                        #    then decides that `callback` is not callable.\n                        #    This goes away when we use `_Sentinel._CONTINUE`\n                        #    instead, but we don't want to do that attribute\n                        #    lookup in this hot code path, so we ignore the mypy\n                        #    complaint here.\n                        current.result = callback(  # type: ignore[misc]\n                            current.result, *args, **kwargs\n                        )\n\n                        if current.result is current:\n                            warnAboutFunction(\n                                callback,\n                                \"Callback returned the Deferred \"\n                                \"it was attached to; this breaks the \"\n                                \"callback chain and will raise an \"\n                                \"exception in the future.\",\n                            )\n                    finally:\n                        current._runningCallbacks = False\n                except BaseException:\n",
           "                try:\n                    current._runningCallbacks = True\n                    current.result = callback(current.result, *args, **kwargs)\n                    if current.result is current:\n                        warnAboutFunction(callback, \"Callback returned the Deferred it was attached to\")\n                except BaseException:\n                    current._runningCallbacks = False\n",
           more=[(D, "                else:\n                    # isinstance() with Awaitable subclass is expensive:\n", "                else:\n                    current._runningCallbacks = False\n")]),
    Silent("addBoth-delegates", D, "        call = (callback, args, kwargs)\n        self.callbacks.append((call, call))\n\n        if self.called:\n            self._runCallbacks()\n\n        return self\n",
           "        return self.addCallbacks(callback, callback, callbackArgs=args, callbackKeywords=kwargs, errbackArgs=args, errbackKeywords=kwargs)\n"),
    Silent("steal-test-inverted", D,
           "                        if (\n                            resultResult is _NO_RESULT\n                            or type(resultResult) in _DEFERRED_SUBCLASSES\n                            or currentResult.paused\n                        ):\n                            # Nope, it didn't.  Pause and chain.\n                            current.pause()\n                            current._chainedTo = currentResult\n                            # Note: current.result has no result, so it's not\n                            # running its callbacks right now.  Therefore we can\n                            # append to the callbacks list directly instead of\n                            # using addCallbacks.\n                            currentResult.callbacks.append(current._continuation())\n                            break\n                        else:\n                            # Yep, it did.  Steal it.\n                            currentResult.result = None\n                            # Make sure _debugInfo's failure state is updated.\n                            if currentResult._debugInfo is not None:\n                                currentResult._debugInfo.failResult = None\n                            current.result = resultResult\n",
           "                        if (\n                            resultResult is not _NO_RESULT\n                            and type(resultResult) not in _DEFERRED_SUBCLASSES\n                            and not currentResult.paused\n                        ):\n                            currentResult.result = None\n                            if currentResult._debugInfo is not None:\n                                currentResult._debugInfo.failResult = None\n                            current.result = resultResult\n                            continue\n                        current.pause()\n                        current._chainedTo = currentResult\n                        currentResult.callbacks.append(current._continuation())\n                        break\n"),
    Silent("peek-then-delete-front", D, "                item = current.callbacks.pop(0)\n", "                item = current.callbacks[0]\n                del current.callbacks[0]\n"),
    Silent("slot-index-by-bool", D, "                if not isinstance(current.result, Failure):\n                    callback, args, kwargs = item[0]\n                else:\n                    # type note: Callback signature also works for Errbacks in\n                    #     this context.\n                    callback, args, kwargs = item[1]\n",
           "                callback, args, kwargs = item[isinstance(current.result, Failure)]\n"),
    Silent("while-else-with-explicit-pop-after-rechaining", D, "            finished = True\n            current._chainedTo = None\n", "            current._chainedTo = None\n",
           more=[(D, "                    # Delay cleaning this Deferred and popping it from the chain\n                    # until after we've dealt with chainee.\n                    finished = False\n                    break\n",
                  "                    # Delay cleaning this Deferred and popping it from the chain\n                    # until after we've dealt with chainee.\n                    break\n"),
                 (D, "            if finished:\n                # As much of the callback chain", "            else:\n                # As much of the callback chain")] + [(D, "                            currentResult.callbacks.append(current._continuation())\n                            break\n",
                                  "                            currentResult.callbacks.append(current._continuation())\n                            if current._debugInfo is not None:\n                                current._debugInfo.failResult = None\n                            chain.pop()\n                            break\n")]),
    Silent("flag-renamed-and-inverted", D, "            finished = True\n            current._chainedTo = None\n", "            handedOver = False\n            current._chainedTo = None\n",
           more=[(D, "                    finished = False\n                    break\n", "                    handedOver = True\n                    break\n"),
                 (D, "            if finished:\n                # As much of the callback chain", "            if not handedOver:\n                # As much of the callback chain")]),
    Silent("current-variable-plus-pending-stack", D, "        chain: List[Deferred[Any]] = [self]\n\n        while chain:\n            current = chain[-1]\n",
           "        pending: List[Deferred[Any]] = []\n        current = self\n\n        while True:\n",
           more=[(D, "            finished = True\n            current._chainedTo = None\n", "            nextUp = None\n            current._chainedTo = None\n"),
                 (D, "                    chain.append(chainee)\n", "                    nextUp = chainee\n"),
                 (D, "                    finished = False\n                    break\n", "                    break\n"),
                 (D, "            if finished:\n                # As much of the callback chain", "            if nextUp is not None:\n                pending.append(current)\n                current = nextUp\n                continue\n            if True:\n                # As much of the callback chain"),
                 (D, "                chain.pop()\n", "                if not pending:\n                    return\n                current = pending.pop()\n")]),
    Silent("hand-over-and-waiting-extracted-into-helpers", D,
           "                    chainee.result = current.result\n                    current.result = None\n                    # Making sure to update _debugInfo\n                    if current._debugInfo is not None:\n                        current._debugInfo.failResult = None\n                    chainee.paused -= 1\n",
           "                    current._handOver(chainee)\n",
           more=[(D, "                            current.pause()\n                            current._chainedTo = currentResult\n                            # Note: current.result has no result, so it's not\n                            # running its callbacks right now.  Therefore we can\n                            # append to the callbacks list directly instead of\n                            # using addCallbacks.\n                            currentResult.callbacks.append(current._continuation())\n",
                  "                            current._parkOn(currentResult)\n"),
                 (D, "    def _runCallbacks(self) -> None:\n        \"\"\"\n        Run the chain of callbacks once a result is available.\n",
                  "    def _dropFailResult(self):\n        if self._debugInfo is not None:\n            self._debugInfo.failResult = None\n\n"
                  "    def _handOver(self, waiter):\n        waiter.result = self.result\n        self.result = None\n        self._dropFailResult()\n        waiter.paused -= 1\n\n"
                  "    def _parkOn(self, inner):\n        self.pause()\n        self._chainedTo = inner\n        inner.callbacks.append(self._continuation())\n\n"
                  "    def _runCallbacks(self) -> None:\n        \"\"\"\n        Run the chain of callbacks once a result is available.\n")]),
    Silent("errback-dispatches-into-new-local", D, "        if fail is None:\n            fail = Failure(captureVars=self.debug)\n        elif not isinstance(fail, Failure):\n            fail = Failure(fail)\n\n        self._startRunCallbacks(fail)",
           "        if isinstance(fail, Failure):\n            reason = fail\n        elif fail is None:\n            reason = Failure(captureVars=self.debug)\n        else:\n            reason = Failure(fail)\n        self._startRunCallbacks(reason)"),
    Silent("addCallbacks-defaults-by-conditional-expression", D,
           "        self.callbacks.append(\n            (\n                (callback, callbackArgs, callbackKeywords),\n                (errback, errbackArgs, errbackKeywords),\n            )\n        )\n",
           "        good = (callback, () if callbackArgs is None else callbackArgs, {} if callbackKeywords is None else callbackKeywords)\n        bad = (errback, () if errbackArgs is None else errbackArgs, {} if errbackKeywords is None else errbackKeywords)\n        self.callbacks.append((good, bad))\n"),
    Silent("take-or-wait-by-named-conditions", D,
           "                        if (\n                            resultResult is _NO_RESULT\n                            or type(resultResult) in _DEFERRED_SUBCLASSES\n                            or currentResult.paused\n                        ):\n",
           "                        if resultResult is _NO_RESULT:\n                            mustWait = True\n                        elif isinstance(resultResult, Deferred):\n                            mustWait = True\n                        else:\n                            mustWait = currentResult.paused > 0\n                        if mustWait:\n",
           allow_error=True),
    Silent("slot-selected-by-conditional-expression", D, "                if not isinstance(current.result, Failure):\n                    callback, args, kwargs = item[0]\n                else:\n                    # type note: Callback signature also works for Errbacks in\n                    #     this context.\n                    callback, args, kwargs = item[1]\n",
           "                callback, args, kwargs = item[1] if isinstance(current.result, Failure) else item[0]\n"),
    Silent("running-flag-through-context-manager-class", D,
           "                try:\n                    current._runningCallbacks = True\n                    try:\n                        # type note: mypy sees `callback is _CONTINUE` above and\n                        #    then decides that `callback` is not callable.\n                        #    This goes away when we use `_Sentinel._CONTINUE`\n                        #    instead, but we don't want to do that attribute\n                        #    lookup in this hot code path, so we ignore the mypy\n                        #    complaint here.\n                        current.result = callback(  # type: ignore[misc]\n                            current.result, *args, **kwargs\n                        )\n\n                        if current.result is current:\n                            warnAboutFunction(\n                                callback,\n                                \"Callback returned the Deferred \"\n                                \"it was attached to; this breaks the \"\n                                \"callback chain and will raise an \"\n                                \"exception in the future.\",\n                            )\n                    finally:\n                        current._runningCallbacks = False\n                except BaseException:\n",
           "                try:\n                    with _Busy(current):\n                        current.result = callback(current.result, *args, **kwargs)\n                        if current.result is current:\n                            warnAboutFunction(callback, \"Callback returned the Deferred it was attached to\")\n                except BaseException:\n",
           more=[(D, "class Deferred(Awaitable[_SelfResultT]):\n", "class _Busy:\n    def __init__(self, d):\n        self._d = d\n\n    def __enter__(self):\n        self._d._runningCallbacks = True\n\n    def __exit__(self, *exc):\n        self._d._runningCallbacks = False\n\n\nclass Deferred(Awaitable[_SelfResultT]):\n")]),
    Silent("hand-over-detected-by-stack-depth", D, "            finished = True\n            current._chainedTo = None\n", "            before = len(chain)\n            current._chainedTo = None\n",
           more=[(D, "                    finished = False\n                    break\n", "                    break\n"),
                 (D, "            if finished:\n                # As much of the callback chain", "            if len(chain) == before:\n                # As much of the callback chain")]),
    Silent("adders-share-one-registration-method", D, "        self.callbacks.append(((callback, args, kwargs), (_failthru, (), {})))\n\n        if self.called:\n            self._runCallbacks()\n\n        return self\n",
           "        self._register((callback, args, kwargs), (_failthru, (), {}))\n        return self\n",
           more=[(D, "        self.callbacks.append(((passthru, (), {}), (errback, args, kwargs)))\n\n        if self.called:\n            self._runCallbacks()\n\n        return self\n", "        self._register((passthru, (), {}), (errback, args, kwargs))\n        return self\n"),
                 (D, "    def chainDeferred(self, d:", "    def _register(self, good, bad):\n        self.callbacks.append((good, bad))\n        if self.called:\n            self._runCallbacks()\n\n    def chainDeferred(self, d:")]),
    Silent("incoming-and-outcome-as-named-temporaries", D, "                item = current.callbacks.pop(0)\n                if not isinstance(current.result, Failure):\n                    callback, args, kwargs = item[0]\n                else:\n                    # type note: Callback signature also works for Errbacks in\n                    #     this context.\n                    callback, args, kwargs = item[1]\n",
           "                item = current.callbacks.pop(0)\n                given = current.result\n                callback, args, kwargs = item[1] if isinstance(given, Failure) else item[0]\n",
           more=[(D, "                        current.result = callback(  # type: ignore[misc]\n                            current.result, *args, **kwargs\n                        )\n\n                        if current.result is current:", "                        got = current.result = callback(given, *args, **kwargs)\n\n                        if got is current:"),
                 (D, "                    if type(current.result) in _DEFERRED_SUBCLASSES:", "                    if type(got) in _DEFERRED_SUBCLASSES:"),
                 (D, "                        currentResult: Deferred[_SelfResultT] = current.result  # type: ignore[assignment]\n", "                        currentResult = got\n")]),
    Silent("cursor-re-pointed-inside-the-inner-loop", D, "        chain: List[Deferred[Any]] = [self]\n\n        while chain:\n            current = chain[-1]\n", "        current = self\n        parents: List[Deferred[Any]] = []\n\n        while True:\n",
           more=[(D, "            finished = True\n            current._chainedTo = None\n", "            current._chainedTo = None\n"),
                 (D, "                    chain.append(chainee)\n                    # Delay cleaning this Deferred and popping it from the chain\n                    # until after we've dealt with chainee.\n                    finished = False\n                    break\n", "                    parents.append(current)\n                    current = chainee\n                    if current.paused:\n                        return\n                    current._chainedTo = None\n                    continue\n"),
                 (D, "            if finished:\n                # As much of the callback chain", "            if True:\n                # As much of the callback chain"),
                 (D, "                chain.pop()\n", "                if not parents:\n                    return\n                current = parents.pop()\n")]),
    Silent("paused-returned-deferred-waited-for-through-addBoth", D,
           "                            or type(resultResult) in _DEFERRED_SUBCLASSES\n                            or currentResult.paused\n                        ):\n",
           "                            or type(resultResult) in _DEFERRED_SUBCLASSES\n                        ):\n",
           more=[(D, "                        else:\n                            # Yep, it did.  Steal it.\n",
                  "                        elif currentResult.paused:\n                            current.pause()\n                            current._chainedTo = currentResult\n                            currentResult.addBoth(current._takeOver)\n                            break\n                        else:\n                            # Yep, it did.  Steal it.\n"),
                 (D, "    def _runCallbacks(self) -> None:\n        \"\"\"\n        Run the chain of callbacks once a result is available.\n",
                  "    def _takeOver(self, outcome):\n        self.result = outcome\n        self.unpause()\n\n    def _runCallbacks(self) -> None:\n        \"\"\"\n        Run the chain of callbacks once a result is available.\n")]),
]
