"""Stand-ins for the `cryptography` objects used by twisted.conch.ssh.keys, for evaluating the *source* of Key in the
interpreter (XVM).  Plain Python; nothing of twisted or cryptography is imported.  The stand-ins implement the documented
contracts the Key class relies on (numbers objects, SEC1 point encoding widths, raw Ed25519 encodings of 32 bytes, a PEM-like
private container, OpenSSH public line for EC keys) with toy mathematics."""
from __future__ import annotations

import base64
import hashlib
import struct

from sa.props._lib_h_d import VMStub


class NS_(VMStub):
    """attribute bag"""

    def __init__(self, **kw):
        self.__dict__.update(kw)


class Marker(VMStub):
    def __init__(self, name, arg=None):
        self.name, self.arg = name, arg

    def __repr__(self):
        return f"<{self.name}>"


def _ns(x: bytes) -> bytes:
    return struct.pack(">L", len(x)) + x


# ---- RSA ------------------------------------------------------------------------------------------------------

class RSAPublicNumbers(VMStub):
    def __init__(self, e, n):
        self.e, self.n = e, n

    def public_key(self, backend=None):
        return RSAPublicKey(self)


class RSAPublicKey(VMStub):
    def __init__(self, numbers):
        self._n = numbers
        self.key_size = numbers.n.bit_length()

    def public_numbers(self):
        return self._n

    def public_key(self):
        return self


class RSAPrivateNumbers(VMStub):
    def __init__(self, p, q, d, dmp1, dmq1, iqmp, public_numbers):
        self.p, self.q, self.d, self.dmp1, self.dmq1, self.iqmp, self.public_numbers = p, q, d, dmp1, dmq1, iqmp, public_numbers
        if p * q != public_numbers.n:
            raise ValueError("p*q != n")

    def private_key(self, backend=None):
        return RSAPrivateKey(self)


class RSAPrivateKey(VMStub):
    kind = b"RSA"

    def __init__(self, numbers):
        self._n = numbers
        self.key_size = numbers.public_numbers.n.bit_length()

    def private_numbers(self):
        return self._n

    def public_key(self):
        return RSAPublicKey(self._n.public_numbers)

    def private_bytes(self, encoding, fmt, encryption):
        n = self._n
        return _pem(b"RSA", (n.public_numbers.n, n.public_numbers.e, n.d, n.p, n.q), encoding, fmt, encryption)


class _RSA(VMStub):
    RSAPublicKey, RSAPrivateKey, RSAPublicNumbers, RSAPrivateNumbers = RSAPublicKey, RSAPrivateKey, RSAPublicNumbers, RSAPrivateNumbers

    def rsa_crt_iqmp(self, p, q):
        return pow(q, -1, p)

    def rsa_crt_dmp1(self, d, p):
        return d % (p - 1)

    def rsa_crt_dmq1(self, d, q):
        return d % (q - 1)


# ---- DSA ------------------------------------------------------------------------------------------------------

class DSAParameterNumbers(VMStub):
    def __init__(self, p, q, g):
        self.p, self.q, self.g = p, q, g


class DSAPublicNumbers(VMStub):
    def __init__(self, y, parameter_numbers):
        self.y, self.parameter_numbers = y, parameter_numbers

    def public_key(self, backend=None):
        return DSAPublicKey(self)


class DSAPublicKey(VMStub):
    def __init__(self, numbers):
        self._n = numbers
        self.key_size = numbers.parameter_numbers.p.bit_length()

    def public_numbers(self):
        return self._n

    def public_key(self):
        return self


class DSAPrivateNumbers(VMStub):
    def __init__(self, x, public_numbers):
        self.x, self.public_numbers = x, public_numbers

    def private_key(self, backend=None):
        return DSAPrivateKey(self)


class DSAPrivateKey(VMStub):
    def __init__(self, numbers):
        self._n = numbers
        self.key_size = numbers.public_numbers.parameter_numbers.p.bit_length()

    def private_numbers(self):
        return self._n

    def public_key(self):
        return DSAPublicKey(self._n.public_numbers)

    def private_bytes(self, encoding, fmt, encryption):
        n = self._n
        pn = n.public_numbers.parameter_numbers
        return _pem(b"DSA", (pn.p, pn.q, pn.g, n.public_numbers.y, n.x), encoding, fmt, encryption)


class _DSA(VMStub):
    DSAPublicKey, DSAPrivateKey, DSAPublicNumbers, DSAPrivateNumbers, DSAParameterNumbers = DSAPublicKey, DSAPrivateKey, DSAPublicNumbers, DSAPrivateNumbers, DSAParameterNumbers


# ---- EC (toy: the public point is a fixed function of the private value; widths as in SEC1) -----------------------------

class Curve(VMStub):
    name, key_size, nist = "", 0, b""

    def __eq__(self, other):
        return isinstance(other, Curve) and other.name == self.name

    def __hash__(self):
        return hash(self.name)


class SECP256R1(Curve):
    name, key_size, nist = "secp256r1", 256, b"nistp256"


class SECP384R1(Curve):
    name, key_size, nist = "secp384r1", 384, b"nistp384"


class SECP521R1(Curve):
    name, key_size, nist = "secp521r1", 521, b"nistp521"


CURVES = {c.nist: c for c in (SECP256R1, SECP384R1, SECP521R1)}


def ec_width(curve):
    return (curve.key_size + 7) // 8


def ec_point_of(curve, private_value):
    """toy 'scalar multiplication': deterministic, in range; small private values give coordinates with leading zero bytes"""
    w = ec_width(curve)
    if private_value < 2 ** 16:
        x = private_value * 257 + 1                  # many leading zero bytes
        y = (private_value * 65537 + 3) << 8
    else:
        h = hashlib.sha512(b"toy-ec" + curve.name.encode() + private_value.to_bytes(80, "big")).digest() * 2
        x = int.from_bytes(h[:w], "big") >> (8 * w - curve.key_size)
        y = int.from_bytes(h[w:2 * w], "big") >> (8 * w - curve.key_size)
    return x, y


class EllipticCurvePublicNumbers(VMStub):
    def __init__(self, x, y, curve):
        self.x, self.y, self.curve = x, y, curve

    def public_key(self, backend=None):
        return EllipticCurvePublicKey(self)


class EllipticCurvePublicKey(VMStub):
    def __init__(self, numbers):
        self._n = numbers
        self.curve = numbers.curve
        self.key_size = numbers.curve.key_size

    @classmethod
    def from_encoded_point(cls, curve, data):
        w = ec_width(curve)
        if not isinstance(data, bytes) or len(data) != 1 + 2 * w or data[:1] != b"\x04":
            raise ValueError(f"Invalid elliptic curve public key: expected {1 + 2 * w} bytes starting with 0x04, got {len(data) if isinstance(data, bytes) else type(data).__name__}")
        return cls(EllipticCurvePublicNumbers(int.from_bytes(data[1:1 + w], "big"), int.from_bytes(data[1 + w:], "big"), curve))

    def public_numbers(self):
        return self._n

    def public_key(self):
        return self

    def public_bytes(self, encoding, fmt):
        w = ec_width(self.curve)
        point = b"\x04" + self._n.x.to_bytes(w, "big") + self._n.y.to_bytes(w, "big")
        if encoding.name == "X962" and fmt.name == "UncompressedPoint":
            return point
        if encoding.name == "OpenSSH" and fmt.name == "OpenSSH":
            tag = b"ecdsa-sha2-" + self.curve.nist
            return tag + b" " + base64.b64encode(_ns(tag) + _ns(self.curve.nist) + _ns(point))
        raise ValueError("unsupported public_bytes combination")


class EllipticCurvePrivateNumbers(VMStub):
    def __init__(self, private_value, public_numbers):
        self.private_value, self.public_numbers = private_value, public_numbers

    def private_key(self, backend=None):
        return EllipticCurvePrivateKey(self)


class EllipticCurvePrivateKey(VMStub):
    def __init__(self, numbers):
        self._n = numbers
        self.curve = numbers.public_numbers.curve
        self.key_size = self.curve.key_size

    def private_numbers(self):
        return self._n

    def public_key(self):
        return EllipticCurvePublicKey(self._n.public_numbers)

    def private_bytes(self, encoding, fmt, encryption):
        pn = self._n.public_numbers
        return _pem(b"EC", (self.curve.nist, self._n.private_value, pn.x, pn.y), encoding, fmt, encryption)


def derive_private_key(private_value, curve, backend=None):
    x, y = ec_point_of(curve, private_value)
    return EllipticCurvePrivateKey(EllipticCurvePrivateNumbers(private_value, EllipticCurvePublicNumbers(x, y, curve)))


class _EC(VMStub):
    SECP256R1, SECP384R1, SECP521R1 = SECP256R1, SECP384R1, SECP521R1
    EllipticCurvePublicKey, EllipticCurvePrivateKey = EllipticCurvePublicKey, EllipticCurvePrivateKey
    EllipticCurvePublicNumbers, EllipticCurvePrivateNumbers = EllipticCurvePublicNumbers, EllipticCurvePrivateNumbers

    def derive_private_key(self, private_value, curve, backend=None):
        return derive_private_key(private_value, curve, backend)


# ---- Ed25519 (raw encodings are exactly 32 bytes) -------------------------------------------------------------------

def ed_public_of(seed: bytes) -> bytes:
    return hashlib.sha256(b"toy-ed25519" + seed).digest()


class Ed25519PublicKey(VMStub):
    def __init__(self, raw):
        self._raw = raw

    @classmethod
    def from_public_bytes(cls, data):
        if not isinstance(data, bytes) or len(data) != 32:
            raise ValueError("An Ed25519 public key is 32 bytes long")
        return cls(data)

    def public_bytes(self, encoding, fmt):
        if encoding.name == "Raw" and fmt.name == "Raw":
            return self._raw
        raise ValueError("unsupported")

    def public_key(self):
        return self


class Ed25519PrivateKey(VMStub):
    def __init__(self, seed):
        self._seed = seed

    @classmethod
    def from_private_bytes(cls, data):
        if not isinstance(data, bytes) or len(data) != 32:
            raise ValueError("An Ed25519 private key is 32 bytes long")
        return cls(data)

    def private_bytes(self, encoding, fmt, encryption):
        if encoding.name == "Raw" and fmt.name == "Raw":
            return self._seed
        raise ValueError("unsupported")

    def public_key(self):
        return Ed25519PublicKey(ed_public_of(self._seed))


class _ED(VMStub):
    Ed25519PublicKey, Ed25519PrivateKey = Ed25519PublicKey, Ed25519PrivateKey


# ---- serialization ---------------------------------------------------------------------------------------------------

class _Enum(VMStub):
    def __init__(self, *names):
        for n in names:
            setattr(self, n, Marker(n))


class NoEncryption(VMStub):
    name = "NoEncryption"


class BestAvailableEncryption(VMStub):
    name = "BestAvailableEncryption"

    def __init__(self, password):
        self.password = password


class _Serialization(VMStub):
    Encoding = _Enum("PEM", "DER", "OpenSSH", "Raw", "X962")
    PublicFormat = _Enum("OpenSSH", "Raw", "UncompressedPoint", "SubjectPublicKeyInfo")
    PrivateFormat = _Enum("TraditionalOpenSSL", "Raw", "PKCS8", "OpenSSH")
    NoEncryption, BestAvailableEncryption = NoEncryption, BestAvailableEncryption


def _pem(kind, numbers, encoding, fmt, encryption):
    if encoding.name != "PEM" or fmt.name != "TraditionalOpenSSL":
        raise ValueError("unsupported private_bytes combination")
    body = repr(numbers).encode()
    head = b""
    if isinstance(encryption, BestAvailableEncryption):
        if not encryption.password:
            raise ValueError("Passwords must not be empty")
        key = hashlib.sha256(encryption.password).digest()
        body = bytes(b ^ key[i % 32] for i, b in enumerate(body))
        head = b"Proc-Type: 4,ENCRYPTED\nDEK-Info: TOY," + hashlib.sha256(key).hexdigest()[:16].encode() + b"\n\n"
    b64 = base64.encodebytes(body)
    return b"-----BEGIN " + kind + b" PRIVATE KEY-----\n" + head + b64 + b"-----END " + kind + b" PRIVATE KEY-----\n"


def load_pem_private_key(data, password, backend=None):
    lines = data.strip().splitlines()
    kind = lines[0][11:-17]
    enc = len(lines) > 1 and lines[1].startswith(b"Proc-Type")
    body_lines = [l for l in lines[1:-1] if l and b":" not in l]
    body = base64.decodebytes(b"\n".join(body_lines))
    if enc:
        if password is None:
            raise TypeError("Password was not given but private key is encrypted")
        key = hashlib.sha256(password).digest()
        check = [l for l in lines if l.startswith(b"DEK-Info")][0].split(b",")[1]
        if hashlib.sha256(key).hexdigest()[:16].encode() != check:
            raise ValueError("Bad decrypt. Incorrect password?")
        body = bytes(b ^ key[i % 32] for i, b in enumerate(body))
    elif password is not None:
        raise TypeError("Password was given but private key is not encrypted.")
    import ast as _ast
    nums = _ast.literal_eval(body.decode())
    if kind == b"RSA":
        n, e, d, p, q = nums
        return RSAPrivateKey(RSAPrivateNumbers(p, q, d, d % (p - 1), d % (q - 1), pow(q, -1, p), RSAPublicNumbers(e, n)))
    if kind == b"DSA":
        p, q, g, y, x = nums
        return DSAPrivateKey(DSAPrivateNumbers(x, DSAPublicNumbers(y, DSAParameterNumbers(p, q, g))))
    if kind == b"EC":
        nist, priv, x, y = nums
        return EllipticCurvePrivateKey(EllipticCurvePrivateNumbers(priv, EllipticCurvePublicNumbers(x, y, CURVES[nist]())))
    raise ValueError("unknown PEM kind")


def load_ssh_public_key(data, backend=None):
    parts = data.split()
    tag, blob = parts[0], base64.b64decode(parts[1])
    fields = []
    while blob:
        n = struct.unpack(">L", blob[:4])[0]
        fields.append(blob[4:4 + n])
        blob = blob[4 + n:]
    if not tag.startswith(b"ecdsa-sha2-") or fields[0] != tag:
        raise ValueError("unsupported key type")
    return EllipticCurvePublicKey.from_encoded_point(CURVES[fields[1]](), fields[2])


# ---- bcrypt / ciphers for the openssh-key-v1 container ------------------------------------------------------------------

class _Bcrypt(VMStub):
    def kdf(self, password, salt, desired_key_bytes, rounds, ignore_few_rounds=False):
        out, i = b"", 0
        while len(out) < desired_key_bytes:
            out += hashlib.sha512(b"toy-bcrypt" + password + salt + struct.pack(">LL", rounds, i)).digest()
            i += 1
        return out[:desired_key_bytes]


class _Alg(VMStub):
    block_size = 128

    def __init__(self, key):
        self.key = key


class AES(_Alg):
    pass


class TripleDES(_Alg):
    block_size = 64


class _Algorithms(VMStub):
    AES, TripleDES = AES, TripleDES


class CTR(VMStub):
    def __init__(self, iv):
        self.iv = iv


class CBC(CTR):
    pass


class _Modes(VMStub):
    CTR, CBC = CTR, CBC


class _Stream(VMStub):
    def __init__(self, key, iv):
        self.key, self.iv, self.pos = key, iv, 0

    def update(self, data):
        ks = b""
        i = (self.pos // 64)
        while len(ks) < (self.pos % 64) + len(data):
            ks += hashlib.sha512(b"toy-ctr" + self.key + self.iv + struct.pack(">L", i)).digest()
            i += 1
        off = self.pos % 64
        self.pos += len(data)
        return bytes(a ^ b for a, b in zip(data, ks[off:off + len(data)]))

    def finalize(self):
        return b""


class Cipher(VMStub):
    def __init__(self, algorithm, mode, backend=None):
        self.algorithm, self.mode = algorithm, mode

    def encryptor(self):
        return _Stream(self.algorithm.key, self.mode.iv)

    decryptor = encryptor


class _Rand(VMStub):
    def secureRandom(self, n):
        return bytes((i * 41 + 7) & 0xFF for i in range(n))


class _Unicodedata(VMStub):
    def category(self, c):
        import unicodedata
        return unicodedata.category(c)

    def normalize(self, form, s):
        import unicodedata
        return unicodedata.normalize(form, s)


class _Utils(VMStub):
    def int_to_bytes(self, integer, length=None):
        if length == 0:
            raise ValueError("length argument can't be 0")
        return integer.to_bytes(length or ((integer.bit_length() + 7) // 8 or 1), "big")


def install(vm):
    """put the stand-ins where twisted.conch.ssh.keys imports the real thing"""
    g = vm.mod._g
    g.update({"rsa": _RSA(), "dsa": _DSA(), "ec": _EC(), "ed25519": _ED(), "serialization": _Serialization(), "bcrypt": _Bcrypt(),
              "algorithms": _Algorithms(), "modes": _Modes(), "unicodedata": _Unicodedata(), "Cipher": Cipher, "randbytes": _Rand(), "utils": _Utils(),
              "load_pem_private_key": lambda d, p, b=None: load_pem_private_key(d, p, b),
              "load_ssh_public_key": lambda d, b=None: load_ssh_public_key(d, b),
              "default_backend": lambda: None,
              "int_to_bytes": lambda n, l=None: _Utils().int_to_bytes(n, l),
              "decodebytes": lambda b: base64.decodebytes(b), "encodebytes": lambda b: base64.encodebytes(b), "b64encode": lambda b: base64.b64encode(b),
              "nativeString": lambda s: s.decode("ascii") if isinstance(s, bytes) else s,
              "iterbytes": lambda b: [bytes((c,)) for c in b],
              "Ed25519PublicKey": Ed25519PublicKey, "Ed25519PrivateKey": Ed25519PrivateKey})
    return vm
