"""throw-away: list which rules report each mutant (deleted before delivery)"""
import sys; sys.path.insert(0,'/verif')
from sa.check import run_once
from sa.report import load_known
from sa.selftest import apply_edit
from sa.source import SourceTree, AnalysisError
import importlib
prop=sys.argv[1]
m=importlib.import_module('sa.props.'+prop.lower())
known=load_known()
for x in list(m.MUTANTS)+list(m.SILENT):
    try:
        ov=apply_edit(SourceTree(), x)
    except LookupError as e:
        print(x.name,'N/A',e); continue
    try:
        _,c=run_once(prop,'quick',overlay=ov,known=known)
        print(type(x).__name__, x.name, '->', sorted({f.rule+' @ '+f.construct[-70:] for f in c.unlisted()})[:4])
    except AnalysisError as e:
        print(type(x).__name__, x.name,'ANALYSIS-ERROR',e)
