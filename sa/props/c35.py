"""C35 - SSH transport delivers packets intact and detects tampering."""
from __future__ import annotations

import ast
import hashlib
import hmac as _hmac
import struct

from sa.astx import NotConst, const_eval, statements
from sa.selftest import Mutant, Silent
from sa.source import AnalysisError, class_assigns
from sa.props._lib_h_d import MiniVM, VMError, VMObj, VMStub

PROPERTY = "C35"
TR = "conch/ssh/transport.py"
CMN = "conch/ssh/common.py"
QT = "twisted.conch.ssh.transport.SSHTransportBase."
QS = "twisted.conch.ssh.transport.SSHCiphers."
TECHNIQUE = ("structural: CFG dominance / must-pass-through / per-path counting, normalised linear comparisons, who-may-write and table agreement on the "
             "normalised view of SSHTransportBase / SSHCiphers (private helpers inlined, pure temporaries substituted); finite-exhaustive evaluation of the "
             "padding arithmetic; second layer (bounded): the source interpreted with stand-in ciphers against RFC 4253 reference encoder / decoder")
RULE_KINDS = {
    "s/": "structural",
    "s/framing/padding-arithmetic": "finite-exhaustive",
    "tables/": "structural",
    "tables/compression-handled": "bounded",
    "sender/": "bounded",
    "receiver/": "bounded",
    "tamper/": "bounded",
    "rekey/": "bounded",
    "mac/": "bounded",
    "setkeys/": "bounded",
    "kex/": "bounded",
    "version/": "bounded",
}
EXPLANATION = (
    "Two layers. Rules named s/... are STRUCTURAL (decided on the normalised code, nothing evaluated) and give the for-all verdict; the unprefixed rules are "
    "BOUNDED (source interpreted by a whitelisted interpreter with stand-in ciphers on enumerated inputs) and serve as witnesses and as cover where a "
    "structural rule abstains (an abstention is written as a note 's/<group>: shape not recognised ...; clause left to <bounded rule>'). Per clause: "
    "[MAC before delivery] s/mac/verified-before-delivery: every CFG path from entry to `return payload` of getPacket passes the true edge of verify(...) "
    "(or the false edge of `not verify`), the verified bytes are the decrypted packet that is delivered (s/mac/authenticates-what-is-delivered), the MAC "
    "bytes are cut from the buffer, a mismatch reaches sendDisconnect and returns nothing (s/mac/mismatch-disconnects, s/deliver/nothing-after-disconnect) "
    "- structural; bounded witness tamper/*: every single-byte corruption of sample packets. "
    "[sequence numbers] s/sequence/incoming-once-per-packet, outgoing-once-per-packet: on every path to a delivered / written packet the counter is "
    "incremented exactly once, on no other path, and the MAC is computed before the increment - structural (CFG counting); bounded witness sender/mac-and-sequence. "
    "[length / padding guards] s/length/*, s/header/*: guards compared as normalised linear inequalities (lincmp) with the RFC bounds (limit admits 35000, "
    "block alignment of length+4, padding < length) - structural; s/framing/padding-arithmetic is FINITE-EXHAUSTIVE: the sender's own arithmetic is "
    "evaluated for every residue class of len(payload) for block sizes 8..64 after checking on the code that the payload is read only through len(). "
    "[segmentation] s/segmentation/*: first block decrypted once and kept across calls, wait for the whole packet, consume exactly packet+MAC - structural; "
    "bounded witness receiver/segmentation-invariant (every two-way split, byte-wise). "
    "[key re-exchange] s/kex/blocked-before-write: every path to transport.write passes the `no key exchange in progress or message type allowed` "
    "predicate; s/rekey/queue, s/rekey/flush-in-order: blocked messages appended without consuming a sequence number, _newKeys flushes the queue in order "
    "after installing the keys; s/state/per-instance: mutable containers mutated through self are rebound per instance (not shared class attributes) - "
    "structural; bounded witnesses rekey/*. "
    "[MAC computation] s/mac/covers-sequence-number, siblings-agree, direction, none-path, whole-digest-compared, s/setkeys/direction-consistent: makeMAC "
    "and verify (through a straight-line private helper if any) authenticate uint32(seq) || packet with their own direction's key and digest, verify "
    "compares whole digests - structural (sibling / table agreement); bounded witness mac/peer-agreement-and-sensitivity. "
    "[compression] s/compression/*: compress is followed by a sync flush on every path, decompression applied to the payload only - structural; "
    "bounded: rekey/compression-contexts-restart-together, tables/compression-handled (evaluated _newKeys). "
    "[algorithm negotiation] s/kex/slots-negotiated-alike: the eight negotiated slots of ssh_KEXINIT are calls of one function with the own and the peer's list in the "
    "same argument roles (sibling agreement) - structural; kex/both-ends-agree: ssh_KEXINIT interpreted on a client and a server instance whose preference lists "
    "differ in order, both ends must pick the client's first supported entry for every slot - bounded. "
    "[tables] s/tables/*, tables/*: offered MACs / ciphers / compressions have table entries - structural. "
    "[version exchange] s/version/*: the scan loop's exits are classified on the CFG (banner lines skipped, rest preserved, length limit); the two "
    "exits that were findings F35a / F35b are closed since fix 91a3aef (revert mutants in MUTANTS) - structural; bounded witnesses version/* (streams under every two-way split). "
    "Bounded evidence only: sender/compression-framing's 'one frame per packet' with a stateful compressor and rekey/compression-contexts-restart-together "
    "(depends on object identity across _newKeys; no structural decider written). Not decided: the real cryptography, key exchange mathematics; payload sizes above the receiver's packet_length limit (the limit is reported in a note: the sender does "
    "not bound what it frames, RFC 4253 only requires 35000)."
)
ASSUMPTIONS = [
    "currentEncryptions is an SSHCiphers-like object (encrypt / decrypt / makeMAC / verify, encBlockSize / decBlockSize / verifyDigestSize)",
    "zlib flush modes 2 (Z_SYNC_FLUSH) and 3 (Z_FULL_FLUSH) release all pending output; decompressobj never raises on a complete frame",
    "hashlib / hmac of the standard library are used as the reference for HMAC",
]

MSG_DATA = 94


# ---- stand-ins for the cryptography (plain Python, whitelisted to the interpreter as VMStub) ---------------------

def _xor(data: bytes, pos: int) -> bytes:
    return bytes(x ^ (((pos + i) * 7 + 3) & 0xFF) for i, x in enumerate(data))


def _tag(seq: int, data: bytes, n: int) -> bytes:
    return hashlib.sha512(b"model-mac" + struct.pack(">L", seq & 0xFFFFFFFF) + data).digest()[:n]


class Ciphers(VMStub):
    def __init__(self, bs, ms, label=b""):
        self.encBlockSize = self.decBlockSize = bs
        self.verifyDigestSize = ms
        self.epos = self.dpos = 0
        self.label = label

    def encrypt(self, b):
        out = _xor(b, self.epos)
        self.epos += len(b)
        return out

    def decrypt(self, b):
        out = _xor(b, self.dpos)
        self.dpos += len(b)
        return out

    def makeMAC(self, seq, data):
        return _tag(seq, self.label + data, self.verifyDigestSize) if self.verifyDigestSize else b""

    def verify(self, seq, data, mac):
        return mac == (_tag(seq, self.label + data, self.verifyDigestSize) if self.verifyDigestSize else b"")


class Compressor(VMStub):
    """output appears only on a sync / full flush, one numbered frame per flush (a compression context is stateful:
    a peer that starts a fresh decompressor in mid-stream cannot read it)"""

    def __init__(self):
        self.pending = b""
        self.index = 0

    def compress(self, data):
        self.pending += data
        return b""

    def flush(self, mode=4):
        if mode in (2, 3, 4):
            out, self.pending = frame(self.pending, self.index), b""
            self.index += 1
            return out
        return b""


class Decompressor(VMStub):
    def __init__(self):
        self.buf = b""
        self.index = 0

    def decompress(self, data):
        self.buf += data
        out = b""
        while len(self.buf) >= 9 and self.buf[:1] == b"Z":
            idx, n = struct.unpack(">LL", self.buf[1:9])
            if idx != self.index:
                raise ValueError("compressed stream does not continue this context")
            if len(self.buf) < 9 + n:
                break
            out += self.buf[9:9 + n]
            self.buf = self.buf[9 + n:]
            self.index += 1
        if self.buf and self.buf[:1] != b"Z":
            raise ValueError("invalid compressed stream")
        return out


def frame(data: bytes, index: int = 0) -> bytes:
    return b"Z" + struct.pack(">LL", index, len(data)) + data


class Transport(VMStub):
    def __init__(self):
        self.sent = []
        self.lost = False

    def write(self, d):
        self.sent.append(bytes(d))

    def loseConnection(self):
        self.lost = True

    def getPeer(self):
        return None

    getHost = getPeer


class Rand(VMStub):
    def secureRandom(self, n):
        return bytes((i * 37 + 11) & 0xFF for i in range(n))


class Log(VMStub):
    def info(self, *a, **k):
        return None
    debug = failure = error = warn = info


class Zlib(VMStub):
    Z_SYNC_FLUSH, Z_FULL_FLUSH, Z_FINISH = 2, 3, 4

    def compressobj(self, *a):
        return Compressor()

    def decompressobj(self, *a):
        return Decompressor()


class ModelFailure(Exception):
    """the interpreted code raised"""


def _call(vm, obj, name, *args):
    try:
        return vm.call_method(obj, name, *args)
    except VMError as e:
        raise AnalysisError(f"C35: {name}: construct outside the interpreter's subset: {e}")
    except AnalysisError:
        raise
    except Exception as e:      # an exception raised by the interpreted code (or by a stand-in it misused)
        raise ModelFailure(f"{type(e).__name__}: {e}")


def make_vm(ctx, hooks=None):
    mod = ctx.mod(TR)
    from sa.props._lib_h import xvm
    vm = xvm(mod, hooks=hooks or {}, budget=4 * 10 ** 7, siblings={"twisted.conch.ssh.common": ctx.mod(CMN)})

    def _has(o, n):
        try:
            vm.getattr(o, n)
            return True
        except Exception:
            return False
    g = vm.mod._g
    g["hasattr"] = lambda o, n: _has(o, n)
    g["randbytes"] = Rand()
    g["zlib"] = Zlib()
    g["networkString"] = lambda s: s.encode("ascii", "replace") if isinstance(s, str) else s
    g["iterbytes"] = lambda b: [bytes((c,)) for c in b]
    return vm


def make_transport(vm, bs, ms, comp=False, got_version=True, cls="SSHTransportBase"):
    o = VMObj(vm.cls(cls))
    o.attrs["transport"] = Transport()
    o.attrs["currentEncryptions"] = Ciphers(bs, ms)
    o.attrs["_log"] = Log()
    if got_version:
        o.attrs["gotVersion"] = True
    if comp:
        o.attrs["outgoingCompression"] = Compressor()
        o.attrs["incomingCompression"] = Decompressor()
    return o


# ---- RFC 4253 section 6 reference encoder / decoder over the stand-in cipher ----------------------------------

def ref_packet(body: bytes, bs: int) -> bytes:
    total = 5 + len(body)
    pad = bs - (total % bs)
    if pad < 4:
        pad += bs
    return struct.pack(">LB", total + pad - 4, pad) + body + bytes((i * 37 + 11) & 0xFF for i in range(pad))


def ref_wire(messages, bs, ms, comp=False, seq0=0):
    out, pos = b"", 0
    c = Compressor() if comp else None
    for i, (mt, payload) in enumerate(messages):
        body = bytes((mt,)) + payload
        if c is not None:
            c.compress(body)
            body = c.flush(2)
        pkt = ref_packet(body, max(bs, 8))
        out += _xor(pkt, pos) + (_tag(seq0 + i, pkt, ms) if ms else b"")
        pos += len(pkt)
    return out


def ref_decode(wire, bs, ms, comp=False):
    """-> (list of (problem or None, message type, payload)), parsed strictly; raises ValueError with the first deviation"""
    msgs, pos, off, seq = [], 0, 0, 0
    d = Decompressor() if comp else None
    while off < len(wire):
        first = _xor(wire[off:off + bs], pos)
        if len(first) < 5:
            raise ValueError(f"trailing {len(wire) - off} bytes do not hold a packet header")
        L, P = struct.unpack(">LB", first[:5])
        if (4 + L) % max(bs, 8):
            raise ValueError(f"packet {seq}: length 4+{L} is not a multiple of the block size {max(bs, 8)}")
        if not 4 <= P <= 255:
            raise ValueError(f"packet {seq}: {P} bytes of padding (RFC 4253 6: at least 4)")
        if off + 4 + L + ms > len(wire):
            raise ValueError(f"packet {seq}: length field {L} runs past the end of what was written")
        pkt = _xor(wire[off:off + 4 + L], pos)
        mac = wire[off + 4 + L: off + 4 + L + ms]
        if mac != (_tag(seq, pkt, ms) if ms else b""):
            raise ValueError(f"packet {seq}: the MAC is not MAC(key, uint32({seq}) || unencrypted packet)")
        body = pkt[5:len(pkt) - P]
        if len(body) != L - P - 1 or L - P - 1 < 0:
            raise ValueError(f"packet {seq}: length field {L} != 1 + payload + padding {P}")
        if d is not None:
            try:
                body = d.decompress(body)
            except ValueError:
                raise ValueError(f"packet {seq}: payload is not one flushed compression frame")
            if d.buf:
                raise ValueError(f"packet {seq}: compressed payload not flushed with the packet")
        if not body:
            raise ValueError(f"packet {seq}: empty payload (the compressor was not flushed for this packet)" if comp else f"packet {seq}: empty payload")
        msgs.append((body[0], body[1:]))
        pos += 4 + L
        off += 4 + L + ms
        seq += 1
    return msgs


# ---- (1) sender -----------------------------------------------------------------------------------------------

PAYLOADS = [bytes((65 + n,)) * n for n in range(0, 18)] + [b"u" * 27, bytes(range(64)), b"t" * 300]
CONFIGS = [(8, 0, False), (8, 20, False), (16, 32, False), (16, 0, False), (8, 20, True), (16, 32, True)]


def check_sender(ctx, vm):
    q = QT + "sendPacket"
    n = 0
    for bs, ms, comp in CONFIGS:
        a = make_transport(vm, bs, ms, comp)
        msgs = [(MSG_DATA if i % 3 else 2, p) for i, p in enumerate(PAYLOADS)]
        problem = None
        try:
            for mt, p in msgs:
                _call(vm, a, "sendPacket", mt, p)
                n += 1
            wire = b"".join(a.attrs["transport"].sent)
            got = ref_decode(wire, bs, ms, comp)
            if got != msgs:
                problem = f"the peer would read {[(m, p[:8]) for m, p in got][:4]}... instead of the {len(msgs)} messages sent"
            elif len(a.attrs["transport"].sent) != len(msgs):
                problem = f"{len(a.attrs['transport'].sent)} transport writes for {len(msgs)} packets"
            seqno = a.attrs.get("outgoingPacketSequence")
            if problem is None and seqno != len(msgs):
                problem = f"outgoingPacketSequence is {seqno} after {len(msgs)} packets"
        except ModelFailure as e:
            problem = f"sendPacket raises {e}"
        except ValueError as e:
            problem = str(e)
        rule = "sender/compression-framing" if comp and problem and ("compress" in problem or "flush" in problem) else "sender/rfc4253-framing"
        if problem and "MAC" in problem:
            rule = "sender/mac-and-sequence"
        ctx.check(problem is None, rule if problem else ("sender/compression-framing" if comp else "sender/rfc4253-framing"),
                  f"{q} | block {bs}, mac {ms}, compression {'on' if comp else 'off'}",
                  f"what sendPacket writes is not a valid RFC 4253 binary packet stream (cipher block {bs}, MAC {ms} bytes, compression {'on' if comp else 'off'}): {problem}")
        if not problem:
            ctx.ok("sender/mac-and-sequence", f"{q} | block {bs}, mac {ms}, compression {'on' if comp else 'off'}")
    ctx.floor("sender/rfc4253-framing", n, 60, "packets evaluated")


# ---- (2) receiver ---------------------------------------------------------------------------------------------

def receive(vm, wire_chunks, bs, ms, comp=False, seq0=0):
    got = []
    vm.hooks["dispatchMessage"] = lambda vm_, o, num, payload: got.append((num, bytes(payload)))
    b = make_transport(vm, bs, ms, comp)
    if seq0:
        b.attrs["incomingPacketSequence"] = seq0
    err = None
    try:
        for ch in wire_chunks:
            _call(vm, b, "dataReceived", ch)
    except ModelFailure as e:
        err = str(e)
    tr = b.attrs["transport"]
    return got, tr.lost or bool(tr.sent), err, b


def check_receiver(ctx, vm):
    q = QT + "getPacket"
    n_runs = 0
    for bs, ms, comp in CONFIGS:
        msgs = [(MSG_DATA, b"x" * 5), (2, b""), (MSG_DATA, bytes(range(64))), (MSG_DATA, b"v" * 13)]
        wire = ref_wire(msgs, bs, ms, comp)
        first_two = len(ref_wire(msgs[:2], bs, ms, comp))
        segs = [("whole", [wire]), ("byte-wise", [wire[i:i + 1] for i in range(len(wire))])]
        segs += [(f"split after byte {i}", [wire[:i], wire[i:]]) for i in range(1, min(first_two + bs + 2, len(wire)))]
        segs += [("three segments", [wire[:bs + 1], wire[bs + 1:first_two - 1], wire[first_two - 1:]])]
        bad = None
        for label, chunks in segs:
            n_runs += 1
            got, disc, err, _ = receive(vm, chunks, bs, ms, comp)
            if err or disc or got != msgs:
                bad = (label, got, disc, err)
                break
        c = f"{q} | block {bs}, mac {ms}, compression {'on' if comp else 'off'}"
        whole_ok = bad is None or bad[0] != "whole"
        rule = "receiver/delivers-intact" if not whole_ok else "receiver/segmentation-invariant"
        ctx.check(bad is None, rule, c,
                  f"a valid packet stream ({len(msgs)} packets, cipher block {bs}, MAC {ms}, compression {'on' if comp else 'off'}) delivered {bad[0] if bad else ''} yields "
                  f"{[(m, p[:6]) for m, p in bad[1]] if bad else []}{' + disconnect' if bad and bad[2] else ''}{' / raises ' + bad[3] if bad and bad[3] else ''} "
                  f"instead of the {len(msgs)} payloads in order" + ("" if whole_ok else " (already when delivered in one piece)"))
        if bad is None:
            ctx.ok("receiver/delivers-intact", c)
    ctx.extra["receiver_runs"] = n_runs
    # a packet of the size every implementation must accept (RFC 4253 6.1: 35000 bytes total)
    big = [(MSG_DATA, b"B" * 34900)]
    got, disc, err, _ = receive(vm, [ref_wire(big, 8, 20)], 8, 20)
    ctx.check(got == big and not disc and not err, "receiver/accepts-rfc-minimum-size", q + " | 35000-byte packet",
              f"a packet of 35000 bytes (which every implementation must accept, RFC 4253 6.1) is {'refused' if disc else 'not delivered'}{' / ' + err if err else ''}")
    # malformed framing is refused (after successful MAC the stream cannot be trusted further)
    for label, mk in (("length not a multiple of the block size", lambda p: struct.pack(">LB", len(p) - 4 + 1, p[4]) + p[5:] + b"\0"),):
        pkt = ref_packet(bytes((MSG_DATA,)) + b"q" * 9, 8)
        badpkt = mk(pkt)
        wire = _xor(badpkt, 0) + _tag(0, badpkt, 20)
        got, disc, err, _ = receive(vm, [wire + b"\0" * 32], 8, 20)
        ctx.check(not got and disc, "receiver/malformed-refused", q + f" | {label}", f"a packet whose {label} is {'delivered' if got else 'not answered with a disconnect'}")


def check_tamper(ctx, vm):
    q = QT + "getPacket"
    n = 0
    for bs, ms, comp in ((8, 20, False), (16, 32, True)):
        msgs = [(MSG_DATA, b"first payload"), (MSG_DATA, b"second"), (2, b"third one")]
        wire = ref_wire(msgs, bs, ms, comp)
        l1 = len(ref_wire(msgs[:1], bs, ms, comp))
        l2 = len(ref_wire(msgs[:2], bs, ms, comp))
        delivered_altered = silent = None
        for off in range(l1, l2):           # every byte of the second packet and of its MAC
            n += 1
            t = wire[:off] + bytes((wire[off] ^ 0x20,)) + wire[off + 1:]
            got, disc, err, _ = receive(vm, [t], bs, ms, comp)
            if got != msgs[:len(got)] or len(got) > 1 and got[1] != msgs[1] or len(got) > 1:
                delivered_altered = delivered_altered or (off - l1, got)
            elif off - l1 >= 4 and not disc and not err:
                silent = silent or (off - l1, got)
        c = f"{q} | block {bs}, mac {ms}, compression {'on' if comp else 'off'}"
        ctx.check(delivered_altered is None, "tamper/never-delivered", c,
                  f"with byte {delivered_altered[0] if delivered_altered else 0} of a MAC-protected packet altered the receiver still dispatches "
                  f"{[(m, p[:10]) for m, p in delivered_altered[1]] if delivered_altered else []} (the tampered packet or what follows it)")
        ctx.check(silent is None, "tamper/disconnects", c,
                  f"altering byte {silent[0] if silent else 0} of a MAC-protected packet is not answered with a disconnect")
    ctx.floor("tamper/never-delivered", n, 60, "corruptions evaluated")


# ---- (3) key re-exchange queue ----------------------------------------------------------------------------------

def _kex_ready(vm, bs=8, ms=20):
    o = make_transport(vm, bs, ms)
    o.attrs.update({"supportedKeyExchanges": [b"curve25519-sha256"], "supportedPublicKeys": [b"ssh-ed25519"], "supportedCiphers": [b"aes128-ctr"],
                    "supportedMACs": [b"hmac-sha2-256"], "supportedCompressions": [b"none"], "supportedLanguages": (),
                    "outgoingCompressionType": b"none", "incomingCompressionType": b"none"})
    return o


def _decode_new(wire, seq, label, bs, ms):
    pos, off, out = 0, 0, []
    while off < len(wire):
        first = _xor(wire[off:off + bs], pos)
        L, P = struct.unpack(">LB", first[:5])
        pkt = _xor(wire[off:off + 4 + L], pos)
        if wire[off + 4 + L: off + 4 + L + ms] != _tag(seq, label + pkt, ms):
            raise ValueError(f"queued packet {seq} is not authenticated with the new keys and sequence number {seq}")
        out.append((pkt[5], pkt[6:len(pkt) - P]))
        pos, off, seq = pos + 4 + L, off + 4 + L + ms, seq + 1
    return out


def check_rekey(ctx, vm):
    q = QT + "_newKeys"
    problem = None
    try:
        a, b = _kex_ready(vm), _kex_ready(vm)
        _call(vm, a, "sendKexInit")
        _call(vm, a, "sendPacket", MSG_DATA, b"a-one")
        _call(vm, a, "sendPacket", 21, b"")             # NEWKEYS may be sent during key exchange
        _call(vm, a, "sendPacket", 50, b"a-two")
        _call(vm, b, "sendKexInit")                     # a second connection of the same process re-keys at the same time
        _call(vm, b, "sendPacket", MSG_DATA, b"b-one")
        got = ref_decode(b"".join(a.attrs["transport"].sent), 8, 20)
        if [m for m, p in got] != [20, 21]:
            problem = f"during key exchange the wire carries message types {[m for m, p in got]} (only KEXINIT and the key exchange message may pass)"
        elif a.attrs.get("outgoingPacketSequence") != 2:
            problem = f"outgoingPacketSequence is {a.attrs.get('outgoingPacketSequence')} after two written and two queued packets"
        for o, label in ((b, b"newB"), (a, b"newA")):
            o.attrs["nextEncryptions"] = Ciphers(16, 32, label)
            del o.attrs["transport"].sent[:]
        _call(vm, b, "_newKeys")
        outb = _decode_new(b"".join(b.attrs["transport"].sent), 1, b"newB", 16, 32)
        _call(vm, a, "_newKeys")
        outa = _decode_new(b"".join(a.attrs["transport"].sent), 2, b"newA", 16, 32)
        if problem is None and outb != [(MSG_DATA, b"b-one")]:
            problem = (f"when connection B completes its key exchange it sends {outb}; it had queued only [(94, b'b-one')] - messages queued on another "
                       "connection of the same process leak into it (shared queue)")
        if problem is None and outa != [(MSG_DATA, b"a-one"), (50, b"a-two")]:
            problem = f"after NEWKEYS the queued messages go out as {outa}, expected [(94, b'a-one'), (50, b'a-two')] in that order under the new keys"
        if problem is None and a.attrs.get("currentEncryptions").label != b"newA":
            problem = "_newKeys does not switch to nextEncryptions"
        if problem is None:
            n0 = len(a.attrs["transport"].sent)
            _call(vm, a, "sendPacket", MSG_DATA, b"three")
            if len(a.attrs["transport"].sent) != n0 + 1:
                problem = "a message sent after the key exchange completed is still queued"
    except ModelFailure as e:
        problem = f"raises {e}"
    except (ValueError, struct.error) as e:
        problem = str(e)
    ctx.check(problem is None, "rekey/queue-flushed-in-order", q, f"messages blocked by a key exchange: {problem}")
    # a second key exchange with compression negotiated: both directions restart their compression context together
    problem = None
    try:
        snd, rcv = _kex_ready(vm, 8, 20), _kex_ready(vm, 8, 20)
        got = []
        vm.hooks["dispatchMessage"] = lambda vm_, o, num, payload: got.append((num, bytes(payload)))
        for o in (snd, rcv):
            o.attrs.update({"outgoingCompressionType": b"zlib", "incomingCompressionType": b"zlib", "_blockedByKeyExchange": []})
        sent = []
        for round_ in (1, 2):
            snd.attrs["nextEncryptions"], rcv.attrs["nextEncryptions"] = Ciphers(8, 20), Ciphers(8, 20)
            for o in (snd, rcv):
                if not isinstance(o.attrs.get("_blockedByKeyExchange"), list):
                    o.attrs["_blockedByKeyExchange"] = []         # what sendKexInit does at the start of every key exchange
            seq_s, seq_r = snd.attrs.get("outgoingPacketSequence", 0), rcv.attrs.get("incomingPacketSequence", 0)
            _call(vm, snd, "_newKeys")
            _call(vm, rcv, "_newKeys")
            # the stand-in MAC of a fresh Ciphers object starts from the transports' running sequence numbers: keep both in step
            del snd.attrs["transport"].sent[:]
            for k in range(2):
                msg = (MSG_DATA, f"round {round_} message {k}".encode())
                sent.append(msg)
                _call(vm, snd, "sendPacket", *msg)
            _call(vm, rcv, "dataReceived", b"".join(snd.attrs["transport"].sent))
            if seq_s != seq_r:
                problem = "sequence numbers of the two model endpoints diverged"
        if problem is None and (got != sent or rcv.attrs["transport"].lost):
            problem = (f"with zlib negotiated, after a second key exchange the peer reads {[(m, p[:20]) for m, p in got[2:]]} instead of the two messages sent "
                       f"{'and disconnects ' if rcv.attrs['transport'].lost else ''}(one direction keeps its old compression context while the other starts a new one)")
    except ModelFailure as e:
        problem = f"raises {e}"
    ctx.check(problem is None, "rekey/compression-contexts-restart-together", q + " | zlib across two key exchanges", f"re-keying with compression: {problem}")
    # compression tables: each offered compression is installed in both directions by _newKeys
    ca = class_assigns(ctx.cls(TR, "SSHTransportBase"))
    comps = _consts(ca.get("supportedCompressions"))
    ctx.need(isinstance(comps, list), "supportedCompressions literal")
    for name in comps:
        if name == b"none":
            continue
        b = make_transport(vm, 8, 0)
        b.attrs.update({"_blockedByKeyExchange": [], "nextEncryptions": Ciphers(8, 0), "outgoingCompressionType": name, "incomingCompressionType": name})
        try:
            _call(vm, b, "_newKeys")
            oc, ic = b.attrs.get("outgoingCompression"), b.attrs.get("incomingCompression")
        except ModelFailure:
            oc = ic = None
        ctx.check(isinstance(oc, Compressor), "tables/compression-handled", f"{q} | {name!r} out",
                  f"compression {name!r} is offered but _newKeys installs {type(oc).__name__} as outgoing compressor: one side compresses and the other does not")
        ctx.check(isinstance(ic, Decompressor), "tables/compression-handled", f"{q} | {name!r} in",
                  f"compression {name!r} is offered but _newKeys installs {type(ic).__name__} as incoming decompressor")


# ---- (4) SSHCiphers ------------------------------------------------------------------------------------------------

class Namespace(VMStub):
    pass


class HashMod(VMStub):
    def __init__(self, name):
        self.name = name

    def __call__(self, *a):
        h = hashlib.new(self.name, *a)
        o = Namespace()
        o.digest_size, o.block_size, o.name = h.digest_size, h.block_size, self.name
        return o


class HMACObj(VMStub):
    def __init__(self, d):
        self._d = d

    def digest(self):
        return self._d


class HMACMod(VMStub):
    trans_36 = bytes((x ^ 0x36) for x in range(256))
    trans_5C = bytes((x ^ 0x5C) for x in range(256))

    def HMAC(self, key, msg=None, digestmod=None):
        h = _hmac.new(key, msg, digestmod.name if isinstance(digestmod, HashMod) else digestmod)
        return HMACObj(h.digest())

    new = HMAC

    def compare_digest(self, a, b):
        return _hmac.compare_digest(a, b)


class MACParams(tuple, VMStub):
    pass


class Alg(VMStub):
    block_size = 128

    def __init__(self, key):
        self.key = key


class AES(Alg):
    pass


class TripleDES(Alg):
    block_size = 64


class Mode(VMStub):
    def __init__(self, iv):
        self.iv = iv


class CBC(Mode):
    pass


class CTR(Mode):
    pass


class Factory(VMStub):
    """stands for a cryptography class object: callable, with the class attribute block_size"""

    def __init__(self, cls, block_size=None):
        self.cls = cls
        if block_size is not None:
            self.block_size = block_size

    def __call__(self, *a, **k):
        return self.cls(*a, **k)


class Ctx_(VMStub):
    def __init__(self, cipher, kind):
        self.cipher, self.kind = cipher, kind

    def update(self, data):
        return data


class CipherObj(VMStub):
    def __init__(self, algorithm, mode, backend=None):
        self.algorithm, self.mode = algorithm, mode

    def encryptor(self):
        return Ctx_(self, "enc")

    def decryptor(self):
        return Ctx_(self, "dec")


def ciphers_vm(ctx):
    vm = make_vm(ctx)
    g = vm.mod._g
    for n in ("md5", "sha1", "sha256", "sha384", "sha512"):
        g[n] = HashMod(n)
    g["hmac"] = HMACMod()
    g["_MACParams"] = MACParams
    alg, modes = Namespace(), Namespace()
    alg.AES, alg.TripleDES = Factory(AES, 128), Factory(TripleDES, 64)
    modes.CBC, modes.CTR = Factory(CBC), Factory(CTR)
    g["algorithms"], g["modes"], g["Cipher"] = alg, modes, Factory(CipherObj)
    g["default_backend"] = lambda: None
    return vm


def check_ciphers(ctx):
    vm = ciphers_vm(ctx)
    C = vm.cls("SSHCiphers")
    q = QS + "makeMAC ~ verify"

    def pair(mac_ab, mac_ba):
        a = vm.new(C, b"none", b"none", mac_ab, mac_ba)
        b = vm.new(C, b"none", b"none", mac_ba, mac_ab)
        kab, kba = b"K" * 70 + b"ab", b"Q" * 70 + b"ba"
        a.attrs["outMAC"], a.attrs["inMAC"] = _call(vm, a, "_getMAC", mac_ab, kab), _call(vm, a, "_getMAC", mac_ba, kba)
        b.attrs["outMAC"], b.attrs["inMAC"] = _call(vm, b, "_getMAC", mac_ba, kba), _call(vm, b, "_getMAC", mac_ab, kab)
        return a, b
    data = b"\x00\x00\x00\x0c\x06" + b"packet payload!" * 2
    for mac_ab, mac_ba in ((b"hmac-sha1", b"hmac-sha2-512"), (b"hmac-sha2-256", b"hmac-md5")):
        problem = None
        try:
            a, b = pair(mac_ab, mac_ba)
            m = _call(vm, a, "makeMAC", 7, data)
            if not isinstance(m, bytes) or len(m) < 16:
                problem = f"makeMAC returns {m!r}"
            elif not _call(vm, b, "verify", 7, data, m):
                problem = "the peer's verify() rejects the MAC makeMAC() produced for the same sequence number and packet"
            elif _call(vm, b, "verify", 8, data, m):
                problem = "verify() accepts the MAC under a different sequence number (replay / reordering / deletion undetected)"
            elif _call(vm, a, "verify", 7, data, m):
                problem = "the MAC of the outgoing direction verifies under the incoming direction's key (directions share a key)"
            else:
                for i in range(len(data)):
                    if _call(vm, b, "verify", 7, data[:i] + bytes((data[i] ^ 1,)) + data[i + 1:], m):
                        problem = f"verify() accepts the packet with byte {i} altered"
                        break
                for i in range(len(m)):
                    if problem is None and _call(vm, b, "verify", 7, data, m[:i] + bytes((m[i] ^ 1,)) + m[i + 1:]):
                        problem = f"verify() accepts a MAC whose byte {i} was altered (only part of the digest is compared)"
                if problem is None and (_call(vm, b, "verify", 7, data, m[:8]) or _call(vm, b, "verify", 7, data, m + b"\0")):
                    problem = "verify() accepts a truncated / extended MAC"
            if problem is None:
                ref = _hmac.new(vm.getattr(a.attrs["outMAC"], "key"), struct.pack(">L", 7) + data, mac_ab.decode()[5:].replace("-", "").replace("sha2", "sha")).digest()
                if m != ref:
                    problem = "makeMAC is not HMAC(key, uint32(sequence number) || packet) (RFC 4253 6.4)"
        except ModelFailure as e:
            problem = f"raises {e}"
        ctx.check(problem is None, "mac/peer-agreement-and-sensitivity", f"{q} | {mac_ab.decode()}",
                  f"SSHCiphers MAC ({mac_ab.decode()}): {problem}")
    # no MAC configured
    problem = None
    try:
        a = vm.new(C, b"none", b"none", b"none", b"none")
        a.attrs["outMAC"], a.attrs["inMAC"] = _call(vm, a, "_getMAC", b"none", b""), _call(vm, a, "_getMAC", b"none", b"")
        if _call(vm, a, "makeMAC", 1, data) != b"":
            problem = "makeMAC is not empty when no MAC is configured"
        elif not _call(vm, a, "verify", 1, data, b"") or _call(vm, a, "verify", 1, data, b"x"):
            problem = "without a MAC configured verify() must accept exactly the empty MAC"
    except ModelFailure as e:
        problem = f"raises {e}"
    ctx.check(problem is None, "mac/none-path", QS + "makeMAC ~ verify | none", f"SSHCiphers MAC 'none': {problem}")
    # setKeys: each direction gets its own cipher, key, IV, block size and integrity key
    q2 = QS + "setKeys"
    problem = None
    try:
        c = vm.new(C, b"3des-cbc", b"aes256-ctr", b"hmac-sha1", b"hmac-sha2-512")
        oiv, okey, iiv, ikey, oint, iint = (bytes((k,)) * 64 for k in (1, 2, 3, 4, 5, 6))
        _call(vm, c, "setKeys", oiv, okey, iiv, ikey, oint, iint)
        enc, dec = c.attrs.get("encryptor"), c.attrs.get("decryptor")
        facts = {
            "outgoing cipher is the outgoing algorithm": isinstance(enc, Ctx_) and enc.kind == "enc" and isinstance(enc.cipher.algorithm, TripleDES) and isinstance(enc.cipher.mode, CBC),
            "outgoing cipher uses the outgoing key": isinstance(enc, Ctx_) and enc.cipher.algorithm.key == okey[:24],
            "outgoing cipher uses the outgoing IV": isinstance(enc, Ctx_) and enc.cipher.mode.iv == oiv[:8],
            "incoming cipher is the incoming algorithm": isinstance(dec, Ctx_) and dec.kind == "dec" and isinstance(dec.cipher.algorithm, AES) and isinstance(dec.cipher.mode, CTR),
            "incoming cipher uses the incoming key": isinstance(dec, Ctx_) and dec.cipher.algorithm.key == ikey[:32],
            "incoming cipher uses the incoming IV": isinstance(dec, Ctx_) and dec.cipher.mode.iv == iiv[:16],
            "encBlockSize is the outgoing block size": c.attrs.get("encBlockSize") == 8,
            "decBlockSize is the incoming block size": c.attrs.get("decBlockSize") == 16,
            "verifyDigestSize is the incoming digest size": c.attrs.get("verifyDigestSize") == 64,
        }
        om, im = c.attrs.get("outMAC"), c.attrs.get("inMAC")
        facts["outgoing MAC uses the outgoing integrity key and hash"] = isinstance(om, tuple) and getattr(om, "key", b"")[:20] == oint[:20] and len(om) == 4 and om[3] == 20
        facts["incoming MAC uses the incoming integrity key and hash"] = isinstance(im, tuple) and getattr(im, "key", b"")[:64] == iint[:64] and len(im) == 4 and im[3] == 64
        wrong = [k for k, v in facts.items() if not v]
        if wrong:
            problem = "after setKeys(outIV, outKey, inIV, inKey, outInteg, inInteg) it does not hold that " + "; ".join(wrong[:3])
    except ModelFailure as e:
        problem = f"raises {e}"
    ctx.check(problem is None, "setkeys/direction-consistent", q2, f"SSHCiphers.setKeys: {problem}")


# ---- (5) version exchange -----------------------------------------------------------------------------------------

def _ref_version(stream: bytes):
    """reference: the first complete line that starts with b'SSH-' is the version line; what follows it stays in the buffer"""
    lines = stream.split(b"\n")
    for i, ln in enumerate(lines[:-1]):         # the last element is not terminated by a newline
        if ln.startswith(b"SSH-"):
            return True, ln.rstrip(b"\r"), b"\n".join(lines[i + 1:])
    return False, None, stream


def _version_streams():
    banners = [b"", b"hi\r\n", b"Welcome to the machine\r\n", b"a\r\nbb\r\n", b"motd: see https://x\n"]
    versions = [b"SSH-2.0-Twisted\r\n", b"SSH-2.0-x\n", b"SSH-1.99-OpenSSH_9 comment\r\n"]
    tails = [b"", b"\x00\x00\x00\x0c\x0a\x14", b"\x00\x00\x00\x1c\x04\x02ab\ncd\n\x00"]
    for b in banners:
        for v in versions:
            for t in tails:
                yield b + v + t
    yield b"Welcome\r\nSSH-2.0-Tw"      # ends inside the version line
    yield b"hi\r\nSSH-"


def check_version(ctx):
    q = QT + "dataReceived"
    events = []
    state = {}

    def rec(kind):
        def h(vm_, o, *a):
            events.append((kind, bool(o.attrs.get("gotVersion", False))) + tuple(x for x in a[:1] if isinstance(x, (int, bytes))))
            return None
        return h
    vm = make_vm(ctx, hooks={"getPacket": rec("getPacket"), "sendDisconnect": rec("disconnect"), "_unsupportedVersionReceived": rec("unsupported"),
                             "dispatchMessage": rec("dispatch")})

    def run(chunks):
        """-> list per chunk of (gotVersion, otherVersionString, buf, events, error)"""
        o = make_transport(vm, 8, 0, got_version=False)
        out = []
        for ch in chunks:
            del events[:]
            err = None
            try:
                _call(vm, o, "dataReceived", ch)
            except ModelFailure as e:
                err = str(e)
            out.append((bool(o.attrs.get("gotVersion", False)), o.attrs.get("otherVersionString"), o.attrs.get("buf", b""), list(events), err))
        return out
    n_runs = n_f35a = 0
    bad = None
    for stream in _version_streams():
        for cut in range(0, len(stream) + 1):
            chunks = [c for c in (stream[:cut], stream[cut:]) if c] or [b""]
            n_runs += 1
            acc = b""
            for ch, (gotv, ver, buf, evs, err) in zip(chunks, run(chunks)):
                acc += ch
                want = _ref_version(acc)
                early = [e for e in evs if e[0] == "getPacket" and not e[1]]
                other = [e for e in evs if e[0] in ("disconnect", "unsupported")]
                ok = err is None and not other and not early and gotv == want[0] and ((ver, buf) == (want[1], want[2]) if want[0] else buf == acc)
                if ok:
                    continue
                if b"SSH-" not in acc and not other and err is None and gotv == want[0] and buf == acc:
                    n_f35a += 1         # banner-only buffer handed to getPacket(): finding F35a, reported below on its own input
                    continue
                what = ("raises " + err) if err else ("disconnects " + repr(other[0])) if other else "parses packets before the version line is complete" if early else \
                    f"gotVersion={gotv}, version={ver!r}, buffer={buf!r}"
                bad = bad or (stream, chunks, ch, what, want)
                break
    ctx.extra["version_model_runs"] = n_runs
    ctx.note(f"version-exchange model: {n_runs} (stream, split) runs; {n_f35a} steps show finding F35a and are attributed to it")
    ctx.check(bad is None, "version/segmentation-invariant", q + " | <wait for a complete version line>",
              (f"the version exchange depends on how the stream is cut: stream {bad[0]!r} delivered as {bad[1]!r}: after {bad[2]!r} the transport {bad[3]}; reference (first "
               f"complete line starting with 'SSH-', judged on the accumulated buffer): gotVersion={bad[4][0]}, version={bad[4][1]!r}, buffer={bad[4][2]!r}") if bad else "")
    ctx.floor("version/segmentation-invariant", n_runs, 500, "runs")
    # F35s: an identification line that merely contains 'SSH-', followed by a version line cut anywhere (own construct, so that it is keyed apart from
    # every other stream of the rule above)
    stream = b"this gateway speaks SSH- only\r\nSSH-2.0-peer\r\n\x00\x00"
    bad_s = None
    for cut in range(1, len(stream)):
        chunks = [stream[:cut], stream[cut:]]
        acc = b""
        for ch, (gotv, ver, buf, evs, err) in zip(chunks, run(chunks)):
            acc += ch
            want = _ref_version(acc)
            if b"SSH-2.0" not in acc:
                continue                      # banner-only prefixes: F35a territory, judged there
            if err is not None or gotv != want[0] or (want[0] and (ver, buf) != (want[1], want[2])):
                bad_s = bad_s or (chunks, f"gotVersion={gotv}, version={ver!r}, buffer={buf!r}" if err is None else "raises " + err, want)
                break
    ctx.check(bad_s is None, "version/complete-line-only", q + " | <identification line containing 'SSH-' before a version line cut in two>",
              (f"delivered as {bad_s[0]!r} the transport ends with {bad_s[1]}; on the accumulated bytes the first complete line starting with 'SSH-' gives "
               f"gotVersion={bad_s[2][0]}, version={bad_s[2][1]!r}: the newline of the earlier line satisfies the completeness test and the unterminated tail of the "
               "buffer is taken as the version line, the rest of that line is then parsed as a packet") if bad_s else "")
    # F35a: identification text in a segment of its own
    res = run([b"Welcome to the machine\r\n", b"SSH-2.0-peer\r\n"])
    early = [e for e in res[0][3] if e[0] == "getPacket" and not e[1]]
    ctx.check(not early and res[0][4] is None, "version/packets-only-after-version", q + " | <banner line delivered before the version line>",
              "getPacket() is reached while the peer's version line has not been seen: identification (banner) text delivered on its own is parsed as a binary packet "
              "and the connection is dropped with 'bad packet length'")
    # F35b: the bytes after the version line are packet data, not lines
    tail = b"\x00\x00\x00\x1c\x0a\x02aa\nSSH-2.0-zz\nbb" + b"\0" * 9
    res = run([b"SSH-2.0-peer\r\n" + tail])
    gotv, ver, buf, evs, err = res[0]
    ctx.check(err is None and gotv and ver == b"SSH-2.0-peer" and buf == tail and not [e for e in evs if e[0] != "getPacket"],
              "version/first-version-line-only", q + " | <payload containing an SSH- line in the version segment>",
              "after the version line was accepted the remaining bytes - binary packet data - are still scanned for 'SSH-': a payload containing '\\nSSH-...\\n' that "
              f"arrives in the same segment is taken for a second version line (version={ver!r}) and the packet stream is cut (buffer={buf[:20]!r}...)")
    # banner length limit
    res = run([b"x" * 4999 + b"\n"])
    ctx.check(any(e[0] == "disconnect" for e in res[0][3]) and not [e for e in res[0][3] if e[0] == "getPacket"], "version/length-limit", q + " | <endless banner>",
              "5000 bytes without a version line are neither refused nor kept away from the packet parser (no length limit on the identification text)")
    res = run([b"x" * 4999 + b"\nSSH-2.0-peer\r\n" + tail])
    ctx.check(any(e[0] == "disconnect" for e in res[0][3]) and not res[0][0] and not [e for e in res[0][3] if e[0] == "getPacket"], "version/length-limit",
              q + " | <version line beyond the limit>",
              "after refusing an identification text longer than the limit the transport still goes on to accept a version line / parse packets from the same buffer")
    state.clear()


# ---- (6) tables --------------------------------------------------------------------------------------------------

def _consts(node):
    try:
        return const_eval(node, {}) if node is not None else None
    except NotConst:
        return None


def check_tables(ctx):
    ca = class_assigns(ctx.cls(TR, "SSHTransportBase"))
    cca = class_assigns(ctx.cls(TR, "SSHCiphers"))
    macmap, ciphmap = cca.get("macMap"), cca.get("cipherMap")
    ctx.need(isinstance(macmap, ast.Dict) and isinstance(ciphmap, ast.Dict), "SSHCiphers.macMap / cipherMap")
    mkeys = {_consts(k) for k in macmap.keys}
    ckeys = {_consts(k) for k in ciphmap.keys}
    macs = _consts(ca.get("supportedMACs"))
    ctx.need(isinstance(macs, list), "supportedMACs literal")
    for m in macs:
        ctx.check(m in mkeys, "tables/mac-known", f"{QT}supportedMACs | {m!r}", f"MAC {m!r} is offered but SSHCiphers.macMap has no entry: _getMAC raises KeyError after negotiation")
    ctx.floor("tables/mac-known", len(macs), 3)
    gsc = ctx.func(TR, "_getSupportedCiphers")
    lists = [_consts(st.value) for st in statements(gsc) if isinstance(st, ast.Assign) and isinstance(st.value, (ast.List, ast.Tuple)) and st.value.elts]
    lists = [x for x in lists if isinstance(x, (list, tuple))]
    ctx.need(lists, "_getSupportedCiphers: candidate list")
    for c in lists[0]:
        ctx.check(c in ckeys, "tables/cipher-known", f"twisted.conch.ssh.transport._getSupportedCiphers | {c!r}", f"cipher {c!r} is a candidate but SSHCiphers.cipherMap has no entry")
    ctx.floor("tables/cipher-known", len(lists[0]), 4)
    ctx.check(b"none" in mkeys and b"none" in ckeys, "tables/none-entries", QS + "macMap/cipherMap | none", "the initial (pre-key-exchange) 'none' cipher / MAC has no table entry")


def check_negotiation(ctx):
    """Bounded: ssh_KEXINIT of SSHTransportBase interpreted on a client and a server instance whose preference lists differ in order (one slot at a time and
    all at once): both ends must compute the same algorithm for each of the eight name-lists - the first entry of the CLIENT's list that the server
    supports (RFC 4253 7.1) - or nothing sent after NEWKEYS is readable."""
    q = QT + "ssh_KEXINIT | <client and server instance>"

    class Chosen(VMStub):
        def __init__(self, outCip, inCip, outMac, inMac):
            self.outCipType, self.inCipType, self.outMACType, self.inMACType = outCip, inCip, outMac, inMac

    def ns(b):
        return struct.pack(">L", len(b)) + b

    def kexinit(lists):
        names = [lists["kex"], lists["key"], lists["cipher"], lists["cipher"], lists["mac"], lists["mac"], lists["comp"], lists["comp"], [b""], [b""]]
        return b"\0" * 16 + b"".join(ns(b",".join(l)) for l in names) + b"\0" + b"\0\0\0\0"

    def side(is_client, own, peer):
        disc = []
        vm = make_vm(ctx, hooks={"sendDisconnect": lambda vm_, o, reason, desc: disc.append(bytes(desc))})
        vm.mod._g["SSHCiphers"] = Chosen
        o = make_transport(vm, 8, 0)
        o.attrs.update({"isClient": is_client, "supportedKeyExchanges": list(own["kex"]), "supportedPublicKeys": list(own["key"]), "supportedCiphers": list(own["cipher"]),
                        "supportedMACs": list(own["mac"]), "supportedCompressions": list(own["comp"]), "supportedLanguages": []})
        try:
            vm.call_method(o, "ssh_KEXINIT", kexinit(peer))
        except VMError as e:
            raise AnalysisError(f"C35: ssh_KEXINIT: construct outside the interpreter's subset: {e}")
        except Exception as e:
            return {"raises": f"{type(e).__name__}: {e}"}
        ne = o.attrs.get("nextEncryptions")
        return {"disconnect": disc or None, "kex": o.attrs.get("kexAlg"), "key": o.attrs.get("keyAlg"),
                "out": (getattr(ne, "outCipType", None), getattr(ne, "outMACType", None), o.attrs.get("outgoingCompressionType")),
                "in": (getattr(ne, "inCipType", None), getattr(ne, "inMACType", None), o.attrs.get("incomingCompressionType"))}
    base = {"kex": [b"kexA", b"kexB"], "key": [b"keyA", b"keyB"], "cipher": [b"cipA", b"cipB"], "mac": [b"macA", b"macB"], "comp": [b"none", b"zlib"]}
    bad = None
    n = 0
    for flipped in [("kex",), ("key",), ("cipher",), ("mac",), ("comp",), ("kex", "key", "cipher", "mac", "comp")]:
        for who in ("server", "client"):
            n += 1
            client = {k: list(v) for k, v in base.items()}
            server = {k: list(v) for k, v in base.items()}
            for slot in flipped:
                (server if who == "server" else client)[slot].reverse()
            c, sv = side(True, client, server), side(False, server, client)
            want = {slot: next(x for x in client[slot] if x in server[slot]) for slot in base}
            probs = []
            if "raises" in c or "raises" in sv or c.get("disconnect") or sv.get("disconnect"):
                probs.append(f"client: {c.get('raises') or c.get('disconnect')}, server: {sv.get('raises') or sv.get('disconnect')}")
            else:
                for slot, cv, svv in (("kex", c["kex"], sv["kex"]), ("host key", c["key"], sv["key"]),
                                      ("cipher client->server", c["out"][0], sv["in"][0]), ("cipher server->client", c["in"][0], sv["out"][0]),
                                      ("MAC client->server", c["out"][1], sv["in"][1]), ("MAC server->client", c["in"][1], sv["out"][1]),
                                      ("compression client->server", c["out"][2], sv["in"][2]), ("compression server->client", c["in"][2], sv["out"][2])):
                    key = {"kex": "kex", "host key": "key"}.get(slot, "cipher" if slot.startswith("cipher") else "mac" if slot.startswith("MAC") else "comp")
                    if cv != svv:
                        probs.append(f"{slot}: client picks {cv!r}, server picks {svv!r}")
                    elif cv != want[key]:
                        probs.append(f"{slot}: both pick {cv!r}, RFC 4253 7.1 says the first of the client's list the server supports ({want[key]!r})")
            if probs and bad is None:
                bad = (f"client offers {[b','.join(client[s_]).decode() for s_ in flipped]}, server offers {[b','.join(server[s_]).decode() for s_ in flipped]}", probs)
    ctx.check(bad is None, "kex/both-ends-agree", q,
              f"{bad[0] if bad else ''}: {'; '.join(bad[1][:3]) if bad else ''} - after NEWKEYS one side transforms what the other does not expect and no payload is delivered intact",
              detail=f"{n} client/server pairs: each of the five preference lists reversed on one side, and all of them")


def check(ctx):
    from sa.props._lib_h_s35 import structural
    structural(ctx)
    with ctx.section("model/negotiation"):
        check_negotiation(ctx)
    with ctx.section("model/sender"):
        check_sender(ctx, make_vm(ctx))
    with ctx.section("model/receiver"):
        check_receiver(ctx, make_vm(ctx))
    with ctx.section("model/tamper"):
        check_tamper(ctx, make_vm(ctx))
    with ctx.section("model/rekey"):
        check_rekey(ctx, make_vm(ctx))
    with ctx.section("model/ciphers"):
        check_ciphers(ctx)
    with ctx.section("model/version-exchange"):
        check_version(ctx)
    with ctx.section("tables"):
        check_tables(ctx)


MUTANTS = [
    Mutant("return-payload-before-mac-test", TR, "        if ms:\n            macData, self.buf = self.buf[:ms], self.buf[ms:]\n            if not self.currentEncryptions.verify(\n                self.incomingPacketSequence, packet, macData\n            ):\n                self.sendDisconnect(DISCONNECT_MAC_ERROR, b\"bad MAC\")\n                return\n        payload = packet[5:-paddingLen]\n",
           "        payload = packet[5:-paddingLen]\n        if ms and not self.incomingCompression:\n            macData, self.buf = self.buf[:ms], self.buf[ms:]\n            if not self.currentEncryptions.verify(\n                self.incomingPacketSequence, packet, macData\n            ):\n                self.sendDisconnect(DISCONNECT_MAC_ERROR, b\"bad MAC\")\n                return\n",
           expect_rule="receiver/"),
    Mutant("verify-drops-sequence-number", TR, "        data = struct.pack(\">L\", seqid) + data\n        outer = hmac.HMAC(self.inMAC.key, data, self.inMAC[0]).digest()", "        outer = hmac.HMAC(self.inMAC.key, data, self.inMAC[0]).digest()",
           expect_rule="mac/peer-agreement-and-sensitivity"),
    Mutant("mac-error-still-delivers", TR, "                self.sendDisconnect(DISCONNECT_MAC_ERROR, b\"bad MAC\")\n                return\n", "                self.sendDisconnect(DISCONNECT_MAC_ERROR, b\"bad MAC\")\n",
           expect_rule="tamper/never-delivered"),
    Mutant("first-block-not-stashed", TR, "            # Not enough data for a packet\n            self.first = first\n            return\n", "            # Not enough data for a packet\n            return\n",
           expect_rule="receiver/segmentation-invariant"),
    Mutant("wait-ignores-mac-length", TR, "        if len(self.buf) < packetLen + 4 + ms:", "        if len(self.buf) < packetLen + 4:", expect_rule="receiver/segmentation-invariant"),
    Mutant("sequence-bumped-when-queued", TR, "                self._blockedByKeyExchange.append((messageType, payload))\n                return\n",
           "                self._blockedByKeyExchange.append((messageType, payload))\n                self.outgoingPacketSequence += 1\n                return\n", expect_rule="rekey/queue-flushed-in-order"),
    Mutant("compression-not-flushed", TR, "            payload = self.outgoingCompression.compress(\n                payload\n            ) + self.outgoingCompression.flush(2)\n", "            payload = self.outgoingCompression.compress(payload)\n",
           expect_rule="sender/compression-framing"),
    Mutant("padding-off-by-one", TR, "        if lenPad < 4:\n            lenPad = lenPad + bs\n", "        if lenPad < 3:\n            lenPad = lenPad + bs\n", expect_rule="sender/rfc4253-framing"),
    Mutant("mac-table-row-removed", TR, "        b\"hmac-sha2-384\": sha384,\n", "", expect_rule="tables/mac-known"),
    Mutant("digest-size-of-wrong-direction", TR, "        if self.inMAC:\n            self.verifyDigestSize = self.inMAC[3]", "        if self.inMAC:\n            self.verifyDigestSize = self.outMAC[3]",
           expect_rule="setkeys/direction-consistent"),
    Mutant("rest-after-version-dropped-newlines", TR, "                    self.buf = b\"\\n\".join(lines[i + 1 :])", "                    self.buf = b\"\".join(lines[i + 1 :])", expect_rule="version/segmentation-invariant"),
    Mutant("rekey-flush-before-state-reset", TR, "        self._keyExchangeState = self._KEY_EXCHANGE_NONE\n        messages = self._blockedByKeyExchange\n        self._blockedByKeyExchange = None\n        for messageType, payload in messages:\n            self.sendPacket(messageType, payload)\n",
           "        messages = self._blockedByKeyExchange\n        self._blockedByKeyExchange = None\n        for messageType, payload in messages:\n            self.sendPacket(messageType, payload)\n        self._keyExchangeState = self._KEY_EXCHANGE_NONE\n",
           expect_rule="rekey/queue-flushed-in-order"),
    Mutant("incoming-zlib-typo", TR, "        if self.incomingCompressionType == b\"zlib\":", "        if self.incomingCompressionType == b\"zlib@openssh.com\":", expect_rule="tables/compression-handled"),
    Mutant("verify-compares-prefix", TR, "        return hmac.compare_digest(mac, outer)", "        return hmac.compare_digest(mac[:8], outer[:8])", expect_rule="mac/peer-agreement-and-sensitivity"),
    Mutant("no-return-after-banner-limit", TR, "                    b\"Preventing a denial of service attack.\",\n                )\n                return\n", "                    b\"Preventing a denial of service attack.\",\n                )\n",
           expect_rule="version/length-limit"),
    Mutant("version-wait-looks-at-chunk-only", TR, "            if self.buf.find(b\"\\n\", self.buf.find(b\"SSH-\")) == -1:\n                return\n",
           "            if self.buf.find(b\"SSH-\") == -1 or not data.endswith(b\"\\n\"):\n                return\n", expect_rule="version/segmentation-invariant"),
    Mutant("version-wait-any-newline-in-chunk", TR, "            if self.buf.find(b\"\\n\", self.buf.find(b\"SSH-\")) == -1:\n                return\n",
           "            if data.count(b\"\\n\") == 0:\n                return\n", expect_rule="version/segmentation-invariant"),
    Mutant("named-packet-size-forgets-mac", TR, "        if len(self.buf) < packetLen + 4 + ms:\n            # Not enough data for a packet\n            self.first = first\n            return\n        if (packetLen + 4) % bs != 0:",
           "        wireLen = packetLen + 4\n        if len(self.buf) < wireLen:\n            self.first = first\n            return\n        if wireLen % bs != 0:",
           more=[(TR, "        encData, self.buf = self.buf[: 4 + packetLen], self.buf[4 + packetLen :]", "        encData, self.buf = self.buf[:wireLen], self.buf[wireLen:]")],
           expect_rule="receiver/segmentation-invariant"),
    Mutant("stale-first-block", TR, "            first = self.first\n            del self.first\n", "            first = self.first\n", expect_rule="receiver/segmentation-invariant"),
    # the same faults must be caught by the structural / finite-exhaustive layer alone
    Mutant('s-return-payload-before-mac-test', TR, '        if ms:\n            macData, self.buf = self.buf[:ms], self.buf[ms:]\n            if not self.currentEncryptions.verify(\n                self.incomingPacketSequence, packet, macData\n            ):\n                self.sendDisconnect(DISCONNECT_MAC_ERROR, b"bad MAC")\n                return\n        payload = packet[5:-paddingLen]\n',
           '        payload = packet[5:-paddingLen]\n        if ms and not self.incomingCompression:\n            macData, self.buf = self.buf[:ms], self.buf[ms:]\n            if not self.currentEncryptions.verify(\n                self.incomingPacketSequence, packet, macData\n            ):\n                self.sendDisconnect(DISCONNECT_MAC_ERROR, b"bad MAC")\n                return\n', expect_rule='s/mac/verified-before-delivery'),
    Mutant('s-wait-ignores-mac-length', TR, '        if len(self.buf) < packetLen + 4 + ms:',
           '        if len(self.buf) < packetLen + 4:', expect_rule='s/segmentation/wait-for-whole-packet'),
    Mutant('s-sequence-bumped-when-queued', TR, '                self._blockedByKeyExchange.append((messageType, payload))\n                return\n',
           '                self._blockedByKeyExchange.append((messageType, payload))\n                self.outgoingPacketSequence += 1\n                return\n', expect_rule='s/sequence/outgoing-once-per-packet'),
    Mutant('s-padding-off-by-one', TR, '        if lenPad < 4:\n            lenPad = lenPad + bs\n',
           '        if lenPad < 3:\n            lenPad = lenPad + bs\n', expect_rule='s/framing/padding-arithmetic'),
    Mutant('s-rekey-flush-before-state-reset', TR, '        self._keyExchangeState = self._KEY_EXCHANGE_NONE\n        messages = self._blockedByKeyExchange\n        self._blockedByKeyExchange = None\n        for messageType, payload in messages:\n            self.sendPacket(messageType, payload)\n',
           '        messages = self._blockedByKeyExchange\n        self._blockedByKeyExchange = None\n        for messageType, payload in messages:\n            self.sendPacket(messageType, payload)\n        self._keyExchangeState = self._KEY_EXCHANGE_NONE\n', expect_rule='s/rekey/flush-in-order'),
    Mutant('s-verify-compares-prefix', TR, '        return hmac.compare_digest(mac, outer)',
           '        return hmac.compare_digest(mac[:8], outer[:8])', expect_rule='s/mac/whole-digest-compared'),
    # reverts of fix commit 91a3aef (F35a: the for-else `return`; F35b: the `break`), each reported on the finding's construct by both layers
    Mutant("revert-F35a-no-wait-for-version-line", TR, '                    break\n            else:\n                # Only lines preceding the version string were received so\n                # far (RFC 4253 section 4.2); wait for the version string.\n                return\n        packet = self.getPacket()',
           '                    break\n        packet = self.getPacket()', expect_rule="version/packets-only-after-version"),
    Mutant("revert-F35a-no-wait-for-version-line-structural", TR, '                    break\n            else:\n                # Only lines preceding the version string were received so\n                # far (RFC 4253 section 4.2); wait for the version string.\n                return\n        packet = self.getPacket()',
           '                    break\n        packet = self.getPacket()', expect_rule="s/version/packets-only-after-version"),
    Mutant("revert-F35b-scan-continues-after-version-line", TR, '                    # Everything after the version line is binary packet\n                    # data, not more identification lines.\n                    break\n            else:\n                # Only lines preceding the version string were received so\n                # far (RFC 4253 section 4.2); wait for the version string.\n                return\n',
           '            if not self.gotVersion:\n                # Only lines preceding the version string were received so\n                # far (RFC 4253 section 4.2); wait for the version string.\n                return\n', expect_rule="version/first-version-line-only"),
    Mutant("revert-F35b-scan-continues-after-version-line-structural", TR, '                    # Everything after the version line is binary packet\n                    # data, not more identification lines.\n                    break\n            else:\n                # Only lines preceding the version string were received so\n                # far (RFC 4253 section 4.2); wait for the version string.\n                return\n',
           '            if not self.gotVersion:\n                # Only lines preceding the version string were received so\n                # far (RFC 4253 section 4.2); wait for the version string.\n                return\n', expect_rule="s/version/first-version-line-only"),
    Mutant("alignment-test-inverted", TR, "        if (packetLen + 4) % bs != 0:\n", "        if not (packetLen + 4) % bs:\n", expect_rule="s/length/block-aligned"),
    Mutant("stashed-block-read-with-a-sentinel-but-decrypted-again", TR, '        if not hasattr(self, "first"):\n            first = self.currentEncryptions.decrypt(self.buf[:bs])\n        else:\n            first = self.first\n            del self.first\n',
           '        nothingStashed = object()\n        first = getattr(self, "first", nothingStashed)\n        if first is not nothingStashed:\n            del self.first\n        first = self.currentEncryptions.decrypt(self.buf[:bs])\n', expect_rule="s/segmentation/first-block-decrypted-once"),
    # one of the eight name-lists negotiated by a rule of its own: the two ends no longer pick the same algorithm for it
    Mutant("host-key-algorithm-by-our-own-preference", TR, '        self.keyAlg = ffs(client[1], server[1])\n', '        self.keyAlg = ffs(self.supportedPublicKeys, keyAlgs)\n', expect_rule="s/kex/slots-negotiated-alike"),
    Mutant("host-key-algorithm-by-our-own-preference-evaluated", TR, '        self.keyAlg = ffs(client[1], server[1])\n', '        self.keyAlg = ffs(self.supportedPublicKeys, keyAlgs)\n', expect_rule="kex/both-ends-agree"),
]
SILENT = [
    Silent("verify-result-in-named-boolean", TR, "            if not self.currentEncryptions.verify(\n                self.incomingPacketSequence, packet, macData\n            ):\n                self.sendDisconnect(DISCONNECT_MAC_ERROR, b\"bad MAC\")\n                return\n",
           "            authentic = self.currentEncryptions.verify(\n                self.incomingPacketSequence, packet, macData\n            )\n            if not authentic:\n                self.sendDisconnect(DISCONNECT_MAC_ERROR, b\"bad MAC\")\n                return\n"),
    Silent("padding-in-private-helper", TR, "        lenPad = bs - (totalSize % bs)\n        if lenPad < 4:\n            lenPad = lenPad + bs\n", "        lenPad = self._paddingLength(totalSize, bs)\n",
           more=[(TR, "    def getPacket(self):\n", "    def _paddingLength(self, size, blockSize):\n        pad = blockSize - (size % blockSize)\n        if pad < 4:\n            pad += blockSize\n        return pad\n\n    def getPacket(self):\n")]),
    Silent("mac-computed-into-a-temporary", TR, "        encPacket = self.currentEncryptions.encrypt(\n            packet\n        ) + self.currentEncryptions.makeMAC(self.outgoingPacketSequence, packet)\n        self.transport.write(encPacket)\n",
           "        ciphers = self.currentEncryptions\n        mac = ciphers.makeMAC(self.outgoingPacketSequence, packet)\n        self.transport.write(ciphers.encrypt(packet) + mac)\n"),
    Silent("dispatch-loop-while-true", TR, "        packet = self.getPacket()\n        while packet:\n            messageNum = ord(packet[0:1])\n            self.dispatchMessage(messageNum, packet[1:])\n            packet = self.getPacket()\n",
           "        while True:\n            packet = self.getPacket()\n            if not packet:\n                break\n            self.dispatchMessage(ord(packet[0:1]), packet[1:])\n"),
    Silent("version-wait-in-private-helper", TR, "            if self.buf.find(b\"\\n\", self.buf.find(b\"SSH-\")) == -1:\n                return\n", "            if not self._versionLineComplete():\n                return\n",
           more=[(TR, "    def dispatchMessage(self, messageNum, payload):\n", "    def _versionLineComplete(self):\n        marker = self.buf.find(b\"SSH-\")\n        return self.buf.find(b\"\\n\", marker) != -1\n\n    def dispatchMessage(self, messageNum, payload):\n")]),
    Silent("makeMAC-named-digestmod", TR, "        if not self.outMAC[0]:\n            return b\"\"\n        data = struct.pack(\">L\", seqid) + data\n        return hmac.HMAC(self.outMAC.key, data, self.outMAC[0]).digest()",
           "        digestmod = self.outMAC[0]\n        if not digestmod:\n            return b\"\"\n        data = struct.pack(\">L\", seqid) + data\n        return hmac.HMAC(self.outMAC.key, data, digestmod).digest()"),
    Silent("named-packet-size-keeps-mac", TR, "        if len(self.buf) < packetLen + 4 + ms:\n            # Not enough data for a packet\n            self.first = first\n            return\n        if (packetLen + 4) % bs != 0:",
           "        wireLen = packetLen + 4\n        needed = wireLen + ms\n        if len(self.buf) < needed:\n            self.first = first\n            return\n        if wireLen % bs != 0:",
           more=[(TR, "        encData, self.buf = self.buf[: 4 + packetLen], self.buf[4 + packetLen :]", "        encData, self.buf = self.buf[:wireLen], self.buf[wireLen:]"),
                 (TR, "        if len(packet) != 4 + packetLen:", "        if len(packet) != wireLen:")]),
    Silent("version-wait-explicit-index", TR, "            if self.buf.find(b\"\\n\", self.buf.find(b\"SSH-\")) == -1:\n                return\n",
           "            marker = self.buf.find(b\"SSH-\")\n            if self.buf.find(b\"\\n\", marker) == -1:\n                return\n"),
    Silent("rename-locals-and-invert-mac-test", TR, "        if ms:\n            macData, self.buf = self.buf[:ms], self.buf[ms:]\n            if not self.currentEncryptions.verify(\n                self.incomingPacketSequence, packet, macData\n            ):\n                self.sendDisconnect(DISCONNECT_MAC_ERROR, b\"bad MAC\")\n                return\n",
           "        if ms > 0:\n            tag, self.buf = self.buf[:ms], self.buf[ms:]\n            if self.currentEncryptions.verify(self.incomingPacketSequence, packet, tag):\n                pass\n            else:\n                self.sendDisconnect(DISCONNECT_MAC_ERROR, b\"bad MAC\")\n                return None\n"),
    Silent("wait-test-reordered", TR, "        if len(self.buf) < packetLen + 4 + ms:", "        if not len(self.buf) >= 4 + ms + packetLen:"),
    Silent("sequence-plain-assignment", TR, "        self.incomingPacketSequence += 1\n        return payload", "        self.incomingPacketSequence = self.incomingPacketSequence + 1\n        return payload"),
    Silent("repair-spelled-with-a-flag-test", TR, '                    break\n            else:\n                # Only lines preceding the version string were received so\n                # far (RFC 4253 section 4.2); wait for the version string.\n                return\n        packet = self.getPacket()',
           '                    break\n            if not self.gotVersion:\n                return\n        packet = self.getPacket()'),
    Silent("alignment-remainder-as-truth-value", TR, "        if (packetLen + 4) % bs != 0:\n", "        if (packetLen + 4) % bs:\n"),
    Silent("stashed-block-read-with-a-sentinel-default", TR, '        if not hasattr(self, "first"):\n            first = self.currentEncryptions.decrypt(self.buf[:bs])\n        else:\n            first = self.first\n            del self.first\n',
           '        nothingStashed = object()\n        first = getattr(self, "first", nothingStashed)\n        if first is nothingStashed:\n            first = self.currentEncryptions.decrypt(self.buf[:bs])\n        else:\n            del self.first\n'),
    Silent("kex-slot-operands-named", TR, '        self.kexAlg = ffs(client[0], server[0])\n', '        offered, accepted = client[0], server[0]\n        self.kexAlg = ffs(offered, accepted)\n'),
]
