"""C49 - Thread pools run every task exactly once within their worker limit."""
from __future__ import annotations

import ast

from sa.astx import NotConst, body_walk, call_attr, call_name, const_eval, dotted, lincmp, src, walk_local
from sa.selftest import Mutant, Silent
from sa.source import AnalysisError, methods
from sa.props._lib_j import (asserted_eq, asserted_is, bind_args, catching_handler, edge_asserts, funcs_in_class, is_self_attr,
                             local_defs, no_exc, node_calls, body_always_entered, leaf_values, normalise, run_sections, normal_exits, params, resolve, rsrc)

PROPERTY = "C49"
TEAM = "_threads/_team.py"
TW = "_threads/_threadworker.py"
MEM = "_threads/_memory.py"
POOL = "_threads/_pool.py"
TP = "python/threadpool.py"
CONV = "_threads/_convenience.py"
QT = "twisted._threads._team.Team"
TECHNIQUE = ("ownership fixpoint over call graph (closures, bound private methods, functools.partial objects and instances of private callable classes handed to a worker "
             "are read as the closure they stand for), CFG must-pass/dominance, queue-end operation kinds")
EXPLANATION = (
    "Decides (workers, exactly once on the error path): an item that is called has left its queue before the call - taken by a removing read, or a removal "
    "from the same queue precedes the call on every path (createMemoryWorker.perform, the ThreadWorker thread loop). "
    "Decides: (a) every read/write of Team._idle/_busyCount/_pending/_toShrink/_shouldQuitCoordinator and every call of "
    "_createWorker happens in a function that runs on the coordinator (lambda / decorated def handed to self._coordinator.do, "
    "or a private method whose call sites are - as a greatest fixpoint - all such functions); statistics() may only read; "
    "(b) in _coordinateThisTask a task is either parked in _pending or dispatched to a worker that came from _idle.pop() / "
    "_createWorker(), _busyCount is incremented exactly on the dispatch path and decremented in the hand-back, and the "
    "hand-back (coordinator.do -> _busyCount -= 1, _recycleWorker(same worker)) is reached after task() returns or raises "
    "(BaseException handler); (c) queues are FIFO (_pending append/popleft, LockWorker and MemoryWorker append/pop(0), "
    "queue.Queue for ThreadWorker); (d) quit flags are checked/set before work is queued, pending work outranks quitting and "
    "shrinking in _recycleWorker, the coordinator quits only when _shouldQuitCoordinator and _busyCount == 0; (e) LockWorker.do "
    "releases the lock and clears local.working on every exit after acquire; (f) ThreadPool reports each outcome once "
    "(BaseException handler, single onResult call then reset), stop() quits the team before joining every tracked thread, and "
    "the worker limit test is busy + idle >= currentLimit(). Not decided: real thread schedules, behaviour of user callbacks. "
    "Every anchor function is also checked to be entered on every call (no memoising/wrapping decorator, duplicate definition or rebinding). "
    "Methods: every clause is decided structurally (ownership fixpoint, dominance, must-pass incl. exception edges, operation kinds); nothing is evaluated. "
)
RULE_KINDS = {"*": "structural"}     # ownership fixpoint over the intra-class call graph, CFG dominance / must-pass incl. exception edges, queue-end operation kinds
ASSUMPTIONS = [
    "the rules read a normalised view of the anchored modules (sa/props/_lib_j.Normaliser): private helpers expanded at their call sites, module constants and single-assignment pure temporaries substituted, loops over constant tuples unrolled; evaluation order inside one statement is not modelled",
   
    "the coordinator's do() runs its argument in mutual exclusion (IExclusiveWorker contract; LockWorker checked separately)",
    "private Team methods are not called from outside _team.py (checked for _pool.py and threadpool.py)",
    "_logException / onResult / log.err do not raise",
]
OWNED = {"_idle", "_busyCount", "_pending", "_toShrink", "_shouldQuitCoordinator"}
COORD_DO = "self._coordinator.do"


def _fn_parent(node):
    p = getattr(node, "_parent", None)
    while p is not None and not isinstance(p, (ast.FunctionDef, ast.AsyncFunctionDef, ast.Lambda, ast.ClassDef)):
        p = getattr(p, "_parent", None)
    return p


def _handed_to(fn, callee_pred):
    """Is function/lambda ``fn`` handed to a call whose callee satisfies callee_pred (decorator form,
    direct argument, or by name in the enclosing function)?"""
    if isinstance(fn, ast.Lambda):
        p = getattr(fn, "_parent", None)
        return isinstance(p, ast.Call) and any(a is fn for a in p.args) and callee_pred(p.func)
    if any(callee_pred(d) for d in fn.decorator_list):
        return True
    outer = _fn_parent(fn)
    if outer is not None and not isinstance(outer, ast.ClassDef):
        # anywhere in the enclosing function, sibling closures included (`def back(): ...` handed over from inside `def work(): ... do(back)`)
        for c in ast.walk(outer):
            if isinstance(c, ast.Call) and callee_pred(c.func) and any(isinstance(a, ast.Name) and a.id == fn.name for a in c.args):
                return True
    return False


def _is_coord_do(e):
    return dotted(e) == COORD_DO


def _pop_end(call):
    """'first' / 'last' / None for x.pop(...) / x.popleft()."""
    if call_attr(call) == "popleft":
        return "first"
    if call_attr(call) == "pop":
        if not call.args:
            return "last"
        try:
            v = const_eval(call.args[0])
        except NotConst:
            return None
        return "first" if v == 0 else ("last" if v == -1 else None)
    return None


def _s_confinement(ctx, S):
    ctx.mod(TEAM)
    cls = ctx.cls(TEAM, "Team")
    fns = funcs_in_class(cls)
    meths = methods(cls)

    # ---------------- (a) coordinator confinement -----------------------------------------------------
    handed = {id(f): _handed_to(f, _is_coord_do) for q, f in fns}
    cand = {n for n in meths if n.startswith("_") and not n.startswith("__")}

    def on_coordinator(f):
        if handed.get(id(f)):
            return True
        return isinstance(f, ast.FunctionDef) and isinstance(getattr(f, "_parent", None), ast.ClassDef) and f.name in cand

    # call sites / references of self.<method>
    refs = {}
    for q, f in fns:
        for n in body_walk(f):
            if is_self_attr(n) and n.attr in meths and isinstance(n.ctx, ast.Load):
                p = getattr(n, "_parent", None)
                as_call = isinstance(p, ast.Call) and p.func is n
                to_coord = isinstance(p, ast.Call) and _is_coord_do(p.func) and any(a is n for a in p.args)
                refs.setdefault(n.attr, []).append((q, f, n, as_call, to_coord))
    changed = True
    while changed:
        changed = False
        for m in sorted(cand):
            for q, f, n, as_call, to_coord in refs.get(m, []):
                if to_coord or (as_call and on_coordinator(f)):
                    continue
                cand.discard(m)
                changed = True
                break
    ctx.extra["coordinator_only_methods"] = sorted(cand)
    nacc = 0
    for q, f in fns:
        for n in body_walk(f):
            if not (is_self_attr(n) and n.attr in OWNED):
                continue
            nacc += 1
            p = getattr(n, "_parent", None)
            write = isinstance(n.ctx, (ast.Store, ast.Del)) or (isinstance(p, ast.AugAssign) and p.target is n) or \
                (isinstance(p, ast.Attribute) and isinstance(getattr(p, "_parent", None), ast.Call) and getattr(p, "_parent").func is p
                 and p.attr in ("add", "pop", "popleft", "append", "appendleft", "remove", "discard", "clear", "extend", "update"))
            if q == "Team.__init__":
                ctx.ok("confinement/owned-state", ctx.construct(QT + ".__init__", f"self.{n.attr}"), "construction")
                continue
            if q == "Team.statistics":
                ctx.check(not write, "confinement/statistics-read-only", ctx.construct(QT + ".statistics", f"self.{n.attr}"),
                          f"statistics() runs on arbitrary threads and modifies self.{n.attr}")
                continue
            ctx.check(on_coordinator(f), "confinement/owned-state", ctx.construct("twisted._threads._team." + q, f"self.{n.attr} ({'write' if write else 'read'})"),
                      f"self.{n.attr} is {'modified' if write else 'read'} in {q}, which does not (only) run on the coordinator: two threads can "
                      f"interleave on the team's bookkeeping (lost update of the counters / a worker handed two tasks)")
    ctx.floor("confinement/owned-state", nacc, 20, "accesses to coordinator-owned attributes")
    ncw = 0
    for q, f in fns:
        for n in body_walk(f):
            if isinstance(n, ast.Call) and call_name(n) == "self._createWorker":
                ncw += 1
                ctx.check(on_coordinator(f), "confinement/worker-creation", ctx.construct("twisted._threads._team." + q, n),
                          "a worker is created outside the coordinator: the limit test of createWorker races with other creations (limit exceeded)")
    ctx.floor("confinement/worker-creation", ncw, 2, "createWorker call sites")
    for rel in (POOL, TP):
        m2 = ctx.mod(rel)
        bad = [n for n in ast.walk(m2.tree) if isinstance(n, ast.Attribute) and (n.attr in (OWNED - {"_pending"}) or n.attr in ("_quitIdlers", "_coordinateThisTask", "_recycleWorker"))]
        ctx.check(not bad, "confinement/no-outside-access", f"twisted/{rel}", "Team's coordinator-owned state is touched from outside _team.py")


def _s_dispatch(ctx, S):
    # ---------------- (b) _coordinateThisTask ------------------------------------------------------------
    f = ctx.func(TEAM, "Team._coordinateThisTask")
    g = ctx.cfg(f, exception_is_all=False)
    q = QT + "._coordinateThisTask"
    task_p = params(f)[1]

    def dispatch_nodes(fn, g_):
        """CFG nodes handing a function to <worker>.do (not the coordinator): [(node id, receiver expr, handed function node)]."""
        out = []
        for n in g_.nodes:
            if n.kind != "stmt" or not g_.reachable(n.id) or n.ast is None:
                continue
            st = n.ast
            if isinstance(st, ast.FunctionDef):
                for d in st.decorator_list:
                    if isinstance(d, ast.Attribute) and d.attr == "do" and not _is_coord_do(d):
                        out.append((n.id, d.value, st))
            else:
                for c in walk_local(st):
                    if isinstance(c, ast.Call) and isinstance(c.func, ast.Attribute) and c.func.attr == "do" and not _is_coord_do(c.func) and c.args:
                        a = c.args[0]
                        target = a if isinstance(a, ast.Lambda) else next((x for x in walk_local(fn) if isinstance(x, ast.FunctionDef) and isinstance(a, ast.Name) and x.name == a.id), None)
                        out.append((n.id, c.func.value, target))
        return out

    disp = dispatch_nodes(f, g)
    ctx.check(len(disp) == 1, "dispatch/single-site", q, f"_coordinateThisTask dispatches the task at {len(disp)} sites (exactly one expected)")
    park = [nid for nid, c in node_calls(g, lambda c: call_name(c) == "self._pending.append" and c.args and src(c.args[0]) == task_p)]
    wit = g.must_pass([g.entry], [d[0] for d in disp] + park, exc=False)
    ctx.check(wit is None, "dispatch/task-dispatched-or-parked", q,
              "a task can leave _coordinateThisTask neither handed to a worker nor parked in _pending (it never runs)", witness=g.describe(wit))
    for nid in park:
        # "no worker": the value tested against None is the dispatch receiver (or what it is an alias of)
        aliases = {src(d[1]) for d in disp} | {rsrc(d[1], f) for d in disp}
        ok = any(a is not None and a[2] and src(a[1]) == "None" and ({src(a[0]), rsrc(a[0], f)} & aliases)
                 for a in (asserted_is(t, lab) for t, lab in edge_asserts(g, nid)))
        ctx.check(ok, "dispatch/park-only-without-worker", ctx.construct(q, g.node(nid).ast),
                  "the task is parked in _pending although a worker is available")
    incs = [n for n in g.ids(lambda n: n.kind == "stmt" and isinstance(n.ast, ast.AugAssign) and is_self_attr(n.ast.target, "_busyCount"))]
    w = g.path(park, incs + [d[0] for d in disp], edge_ok=no_exc, strict=True) if park else None
    ctx.check(w is None, "dispatch/parked-task-not-dispatched", q,
              "after parking the task (no worker) the function goes on to count / dispatch it: _busyCount is incremented for a task nobody runs "
              "(or the task runs twice)", witness=g.describe(w))
    for nid, recv, target in disp:
        leaves = leaf_values(f, recv)
        ok = all(src(v) in ("self._idle.pop()", "self._createWorker()") for v, _, _ in leaves)
        ctx.check(ok, "dispatch/worker-from-idle-or-new", ctx.construct(q, "<worker>.do(doWork)"),
                  f"the task is dispatched to {sorted({src(v) for v, _, _ in leaves})}, which is not (only) a worker just removed from _idle or just created: a busy "
                  f"worker may be handed a second task")
        # idle-first: the pop happens only under a non-empty _idle, the creation only under an empty one (conditional expression or if/else)
        for v, conds, chain in leaves:
            want = {"self._idle.pop()": True, "self._createWorker()": False}.get(src(v))
            if want is None:
                continue
            have = [arm for t, arm in conds if src(t) == "self._idle"] + [not arm for t, arm in conds if src(t) == "not self._idle"]
            for st_ in chain:
                for cn_ in [x.id for x in g.nodes if x.ast is st_ and g.reachable(x.id)]:
                    have += [lab == "T" for t, lab in edge_asserts(g, cn_) if src(t) == "self._idle"]
            ctx.check(have == [want] or (have and all(h == want for h in have)), "dispatch/idle-first", ctx.construct(q, f"worker selection: {src(v)}"),
                      "a new worker is created although an idle one exists (or pop from an empty idle set)")
        w = g.must_precede(incs, [nid], exc=False)
        ctx.check(bool(incs) and w is None, "busy-count/incremented-on-dispatch", ctx.construct(q, "<worker>.do(doWork)"),
                  "a task is dispatched without _busyCount being incremented (the coordinator may quit / statistics under-count while it runs)",
                  witness=g.describe(w))
    for i in incs:
        st = g.node(i).ast
        ok = isinstance(st.op, ast.Add) and src(st.value) == "1"
        w = g.must_pass([i], [d[0] for d in disp], exc=False)
        ctx.check(ok and w is None, "busy-count/incremented-on-dispatch", ctx.construct(q, st),
                  "_busyCount is incremented on a path that does not dispatch a task (the count never returns to 0: the coordinator never quits)",
                  witness=g.describe(w))
    # doWork: task() then hand back
    for nid, recv, work in disp:
        if work is None:
            ctx.violation("handback/after-task", q, "the function handed to the worker is not readable")
            continue
        gw = ctx.cfg(work, exception_is_all=False)
        qw = q + "." + getattr(work, "name", "<lambda>")
        tcalls = node_calls(gw, lambda c: isinstance(c.func, ast.Name) and c.func.id == task_p)
        ctx.check(len(tcalls) == 1, "task/called-once", qw, f"the worker function calls the task at {len(tcalls)} sites (exactly once expected)")
        in_loop = any(isinstance(p, (ast.For, ast.While)) for _, c in tcalls for p in _parents_until(c, work))
        ctx.check(not in_loop, "task/called-once", qw + " | loop", "the task is called inside a loop")
        # hand-back sites: coordinator.do(<fn>) in decorator or call form
        backs = []
        for n in gw.nodes:
            if n.kind != "stmt" or n.ast is None or not gw.reachable(n.id):
                continue
            if isinstance(n.ast, ast.FunctionDef) and any(_is_coord_do(d) for d in n.ast.decorator_list):
                backs.append((n.id, n.ast))
            else:
                for c in walk_local(n.ast):
                    if isinstance(c, ast.Call) and _is_coord_do(c.func) and c.args:
                        a = c.args[0]
                        t_ = a if isinstance(a, ast.Lambda) else next((x for x in ast.walk(f) if isinstance(x, ast.FunctionDef) and isinstance(a, ast.Name) and x.name == a.id), None)
                        backs.append((n.id, t_))
        ctx.check(len(backs) >= 1, "handback/after-task", qw, "the worker function never hands the worker back through the coordinator")
        for tn, tc in tcalls:
            h = catching_handler(tc, work, "BaseException")
            ctx.check(h is not None, "handback/task-exceptions-contained", ctx.construct(qw, "task()"),
                      "an exception (BaseException included) raised by the task escapes the worker function: the worker is never recycled, "
                      "_busyCount stays high and the team can never finish quitting")
            ok_edge = lambda a, b, l, tn=tn: l != "exc" or a == tn
            wit = gw.path([tn], {gw.exit, gw.raise_exit}, avoid={b[0] for b in backs}, edge_ok=ok_edge, strict=True)
            ctx.check(wit is None, "handback/after-task", ctx.construct(qw, "task()"),
                      "after the task returned or raised, the worker function can end without handing the worker back to the coordinator",
                      witness=gw.describe(wit))
        for bn, bf in backs:
            if bf is None:
                ctx.violation("handback/recycles-same-worker", qw, "hand-back function not readable")
                continue
            body = bf.body if isinstance(bf, ast.FunctionDef) else [ast.Expr(bf.body)]
            decs = [s for s in ast.walk(ast.Module(body=body, type_ignores=[])) if isinstance(s, ast.AugAssign) and is_self_attr(s.target, "_busyCount")]
            ok = len(decs) == 1 and isinstance(decs[0].op, ast.Sub) and src(decs[0].value) == "1"
            ctx.check(ok, "busy-count/decremented-on-handback", ctx.construct(qw, "hand-back"),
                      "the hand-back does not decrement _busyCount exactly once")
            rec = [c for s in body for c in ast.walk(s) if isinstance(c, ast.Call) and call_name(c) == "self._recycleWorker"]
            same = len(rec) == 1 and len(rec[0].args) == 1 and rsrc(rec[0].args[0], f) == rsrc(recv, f)
            ctx.check(same, "handback/recycles-same-worker", ctx.construct(qw, "hand-back"),
                      "the hand-back does not recycle exactly the worker that ran the task")
            if ok and same and isinstance(bf, ast.FunctionDef):
                gb = ctx.cfg(bf)
                d_ = gb.ids(lambda n: n.kind == "stmt" and n.ast is decs[0])
                r_ = [nid_ for nid_, c in node_calls(gb, lambda c: c is rec[0])]
                w = gb.must_precede(d_, r_, exc=False)
                ctx.check(w is None, "busy-count/decremented-before-recycle", ctx.construct(qw, "hand-back"),
                          "_recycleWorker (which may decide to quit the coordinator when _busyCount == 0) runs before the count is decremented")


def _s_recycle(ctx, S):
    # ---------------- _recycleWorker -------------------------------------------------------------------------
    f = ctx.func(TEAM, "Team._recycleWorker")
    g = ctx.cfg(f)
    q = QT + "._recycleWorker"
    wparam = params(f)[1]
    adds = [nid for nid, c in node_calls(g, lambda c: call_name(c) == "self._idle.add" and c.args and src(c.args[0]) == wparam)]
    retry = [nid for nid, c in node_calls(g, lambda c: call_name(c) == "self._coordinateThisTask")]
    ctx.check(bool(adds) and g.must_pass([g.entry], adds, exc=False) is None, "recycle/worker-becomes-idle", q,
              "a recycled worker is not put back into _idle on every path")
    ctx.check(bool(retry), "recycle/pending-retried", q, "_recycleWorker never retries a pending task: parked tasks never run")
    for r in retry:
        call = next(c for nid, c in node_calls(g, lambda c: call_name(c) == "self._coordinateThisTask") if nid == r)
        a0 = resolve(call.args[0], local_defs(f, track_mutation=False)) if call.args else None
        end = _pop_end(a0) if isinstance(a0, ast.Call) and dotted(a0.func.value if isinstance(a0.func, ast.Attribute) else a0.func) == "self._pending" else None
        ctx.check(end == "first", "fifo/team-pending", ctx.construct(q, "retry of the pending task"),
                  "the retried task is not taken from the front of _pending (tasks run out of submission order / starvation of the oldest)")
        ctx.check(g.guarded(r, lambda e: src(e) == "self._pending", True), "recycle/pending-retried", ctx.construct(q, "self._coordinateThisTask(...)"),
                  "a pending task is popped without testing that _pending is non-empty")
        w = g.must_precede(adds, [r], exc=False)
        ctx.check(w is None, "recycle/idle-before-retry", ctx.construct(q, "self._coordinateThisTask(...)"),
                  "the pending task is retried before the worker is idle again (a new worker is created or the task is parked again)")
    stops = [nid for nid, c in node_calls(g, lambda c: call_name(c) in ("self._quitIdlers", wparam + ".quit", "self._idle.remove", "self._coordinator.quit"))]
    stops += g.ids(lambda n: n.kind == "stmt" and isinstance(n.ast, ast.AugAssign) and is_self_attr(n.ast.target, "_toShrink"))
    ctx.floor("recycle/pending-outranks-quit", len(stops), 3, "quit/shrink actions in _recycleWorker")
    for s in stops:
        ctx.check(g.guarded(s, lambda e: src(e) == "self._pending", False), "recycle/pending-outranks-quit", ctx.construct(q, g.node(s).ast),
                  "a worker is quit / shrunk while tasks are still pending: tasks submitted before quit() never run")
    shr = g.ids(lambda n: n.kind == "stmt" and isinstance(n.ast, ast.AugAssign) and is_self_attr(n.ast.target, "_toShrink"))
    for s in shr:
        st = g.node(s).ast
        lc = [lincmp(t, negate=(lab == "F")) for t, lab in edge_asserts(g, s)]
        pos = any(l is not None and dict(l[0]) == {"self._toShrink": 1} and l[1] >= 1 for l in lc)
        ctx.check(isinstance(st.op, ast.Sub) and src(st.value) == "1" and pos, "shrink/consume-one", ctx.construct(q, st),
                  "_toShrink is decremented without being positive (or by another amount)")
        rm = [nid for nid, c in node_calls(g, lambda c: call_name(c) == "self._idle.remove" and c.args and src(c.args[0]) == wparam)]
        qt = [nid for nid, c in node_calls(g, lambda c: call_name(c) == wparam + ".quit")]
        w1 = g.must_pass([s], rm, exc=False)
        w2 = g.must_pass([s], qt, exc=False)
        ctx.check(bool(rm) and bool(qt) and w1 is None and w2 is None, "shrink/worker-removed-and-quit", ctx.construct(q, st),
                  "a shrink request is consumed without the worker being removed from _idle and quit (a stopped worker stays selectable, or a "
                  "worker is never stopped)")
    qi = [nid for nid, c in node_calls(g, lambda c: call_name(c) == "self._quitIdlers")]
    ctx.check(bool(qi) and all(g.guarded(x, lambda e: src(e) == "self._shouldQuitCoordinator", True) for x in qi), "quit/recycle-quits-when-finishing", q,
              "after quit(), a worker that finishes its task is not stopped (no _quitIdlers under _shouldQuitCoordinator)")


def _s_quit_idlers(ctx, S):
    # ---------------- _quitIdlers ----------------------------------------------------------------------------
    f = ctx.func(TEAM, "Team._quitIdlers")
    g = ctx.cfg(f)
    q = QT + "._quitIdlers"
    cq = [nid for nid, c in node_calls(g, lambda c: call_name(c) == "self._coordinator.quit")]
    ctx.check(bool(cq), "quit/coordinator-quits", q, "the coordinator is never quit")
    for x in cq:
        a = edge_asserts(g, x)
        flag = any(src(t) == "self._shouldQuitCoordinator" and lab == "T" for t, lab in a)
        zero = any((e := asserted_eq(t, lab)) is not None and {src(e[0]), src(e[1])} == {"self._busyCount", "0"} for t, lab in a) or \
            any(src(t) == "self._busyCount" and lab == "F" for t, lab in a)
        ctx.check(flag, "quit/coordinator-only-when-finishing", ctx.construct(q, "self._coordinator.quit()"),
                  "the coordinator is quit although quit() was not requested (a plain shrink kills the team)")
        ctx.check(zero, "quit/coordinator-after-busy-drained", ctx.construct(q, "self._coordinator.quit()"),
                  "the coordinator is quit while workers are still busy: their hand-back raises AlreadyQuit, the workers are never stopped and "
                  "pending tasks are lost")
    pops = [c for c in walk_local(f) if isinstance(c, ast.Call) and call_name(c) == "self._idle.pop"]
    ctx.check(bool(pops), "quit/idle-workers-stopped", q, "_quitIdlers never takes a worker out of _idle")
    for c in pops:
        p = getattr(c, "_parent", None)
        ok = isinstance(p, ast.Attribute) and p.attr == "quit" and isinstance(getattr(p, "_parent", None), ast.Call)
        if not ok and isinstance(p, ast.Assign) and len(p.targets) == 1 and isinstance(p.targets[0], ast.Name):
            ok = any(isinstance(x, ast.Call) and call_name(x) == p.targets[0].id + ".quit" for x in walk_local(f))
        ctx.check(ok, "quit/idle-workers-stopped", ctx.construct(q, c), "a worker removed from _idle is not quit (its thread never ends)")
        for cn in g.ids_of(c):
            # an empty set is either tested for first, or its KeyError is caught (`try: w = idle.pop() except KeyError: <remember for later>`)
            empty_ok = g.guarded(cn, lambda e: src(e) == "self._idle", True) or catching_handler(c, f, "KeyError") is not None
            ctx.check(empty_ok, "quit/idle-workers-stopped", ctx.construct(q, "pop guarded by non-empty _idle"),
                      "pop from a possibly empty _idle set")
    defer_ = g.ids(lambda n: n.kind == "stmt" and isinstance(n.ast, ast.AugAssign) and is_self_attr(n.ast.target, "_toShrink"))
    ctx.check(bool(defer_), "shrink/deferred-for-busy", q, "shrinking below the number of idle workers is not remembered in _toShrink")
    for s in defer_:
        st = g.node(s).ast
        in_empty_handler = any(catching_handler(c, f, "KeyError") is not None and any(p_ is catching_handler(c, f, "KeyError") for p_ in _parents_until(st, f)) for c in pops)
        ctx.check(isinstance(st.op, ast.Add) and src(st.value) == "1" and (g.guarded(s, lambda e: src(e) == "self._idle", False) or in_empty_handler),
                  "shrink/deferred-for-busy", ctx.construct(q, st), "_toShrink is not incremented exactly when no idle worker is left")
    # the number of workers to stop defaults (n is None) to idle + busy: looked up through whatever feeds the loop's range()
    total = (frozenset({("len(self._idle)", 1), ("self._busyCount", 1)}), 0)
    cands = [n.value for n in walk_local(f) if isinstance(n, ast.Assign) and len(n.targets) == 1 and src(n.targets[0]) == params(f)[1]]
    for lp_ in [n for n in walk_local(f) if isinstance(n, ast.For) and isinstance(n.iter, ast.Call) and call_name(n.iter) == "range" and n.iter.args]:
        cands += [v for v, _, _ in leaf_values(f, lp_.iter.args[-1])]
    ok = any(lincmp(ast.Compare(left=d, ops=[ast.GtE()], comparators=[ast.Constant(0)])) == total for d in cands)
    ctx.check(ok, "quit/all-workers-by-default", q, "shrink(None) / quit does not cover idle + busy workers")


def _s_entry_points(ctx, S):
    # ---------------- do / grow / shrink / quit ---------------------------------------------------------------
    for name in ("do", "grow", "shrink"):
        f = ctx.func(TEAM, "Team." + name)
        g = ctx.cfg(f)
        q = f"{QT}.{name}"
        chk = [nid for nid, c in node_calls(g, lambda c: call_name(c) == "self._quit.check")]
        subs = [n.id for n in g.nodes if g.reachable(n.id) and n.kind == "stmt" and n.ast is not None and (
            (isinstance(n.ast, ast.FunctionDef) and any(_is_coord_do(d) for d in n.ast.decorator_list)) or
            any(isinstance(c, ast.Call) and _is_coord_do(c.func) for c in walk_local(n.ast)))]
        ctx.check(bool(subs), "submit/through-coordinator", q, f"Team.{name} does not hand its work to the coordinator")
        w = g.must_precede(chk, subs, exc=False)
        ctx.check(bool(chk) and w is None, "quit/refused-after-quit", q, f"Team.{name} accepts work after quit() (no self._quit.check() before the coordinator is used)")
        w = g.must_pass([g.entry], subs, exc=False)
        ctx.check(w is None, "submit/through-coordinator", q + " | every path", f"Team.{name} can return without submitting", witness=g.describe(w))
    f = ctx.func(TEAM, "Team.do")
    lam = [l for l in walk_local(f) if isinstance(l, ast.Lambda)]
    okdo = any(isinstance(l.body, ast.Call) and call_name(l.body) == "self._coordinateThisTask" and len(l.body.args) == 1 and src(l.body.args[0]) == params(f)[1] for l in lam) or \
        any(isinstance(c, ast.Call) and call_name(c) == "self._coordinateThisTask" and src(c.args[0]) == params(f)[1] for x in walk_local(f) if isinstance(x, ast.FunctionDef) for c in ast.walk(x))
    ctx.check(okdo, "submit/task-coordinated", QT + ".do", "Team.do does not pass its task to _coordinateThisTask")
    f = ctx.func(TEAM, "Team.grow")
    for fn in [x for x in walk_local(f) if isinstance(x, ast.FunctionDef) and x is not f]:
        gg = ctx.cfg(fn)
        cw = [c for _, c in node_calls(gg, lambda c: call_name(c) == "self._createWorker")]
        rc = [(nid, c) for nid, c in node_calls(gg, lambda c: call_name(c) == "self._recycleWorker")]
        for nid, c in rc:
            ok = any((a := asserted_is(t, lab)) is not None and not a[2] and {src(a[0]), src(a[1])} == {src(c.args[0]), "None"} for t, lab in edge_asserts(gg, nid)) if c.args else False
            ctx.check(ok and "_createWorker" in rsrc(c.args[0], fn), "grow/only-real-workers", ctx.construct(QT + ".grow", c),
                      "grow() recycles a worker that may be None (limit reached) or not freshly created")
        ctx.check(bool(cw) and bool(rc), "grow/only-real-workers", QT + ".grow", "grow() does not create and recycle workers")


def _s_team_quit(ctx, S):
    fns = funcs_in_class(ctx.cls(TEAM, "Team"))
    handed = {id(f): _handed_to(f, _is_coord_do) for q, f in fns}
    f = ctx.func(TEAM, "Team.quit")
    g = ctx.cfg(f)
    q = QT + ".quit"
    sets = [nid for nid, c in node_calls(g, lambda c: call_name(c) == "self._quit.set")]
    subs = [n.id for n in g.nodes if g.reachable(n.id) and n.kind == "stmt" and n.ast is not None and (
        (isinstance(n.ast, ast.FunctionDef) and any(_is_coord_do(d) for d in n.ast.decorator_list)) or any(isinstance(c, ast.Call) and _is_coord_do(c.func) for c in walk_local(n.ast)))]
    w = g.must_precede(sets, subs, exc=False)
    ctx.check(bool(sets) and bool(subs) and w is None, "quit/flag-before-finishing", q, "quit() does not set the quit flag before it starts finishing")
    fin = [x for x in ast.walk(f) if isinstance(x, (ast.FunctionDef, ast.Lambda)) and x is not f and handed.get(id(x))]
    okfin = False
    for fn in fin:
        if isinstance(fn, ast.FunctionDef):
            gf = ctx.cfg(fn)
            flag = gf.ids(lambda n: n.kind == "stmt" and isinstance(n.ast, ast.Assign) and any(is_self_attr(t, "_shouldQuitCoordinator") for t in n.ast.targets)
                          and isinstance(n.ast.value, ast.Constant) and n.ast.value.value is True)
            qi = [nid for nid, c in node_calls(gf, lambda c: call_name(c) == "self._quitIdlers" and not c.args)]
            okfin = bool(flag) and bool(qi) and gf.must_precede(flag, qi, exc=False) is None and gf.must_pass([gf.entry], qi, exc=False) is None
    ctx.check(okfin, "quit/finishing-sets-flag-then-quits-idlers", q,
              "quit() does not (on the coordinator) set _shouldQuitCoordinator and then quit all idle workers")
    # who may set the finishing flag
    for q_, f_ in fns:
        for n in body_walk(f_):
            if isinstance(n, ast.Assign) and any(is_self_attr(t, "_shouldQuitCoordinator") for t in n.targets) and q_ != "Team.__init__":
                ctx.check(q_.startswith("Team.quit."), "quit/flag-written-only-by-quit", ctx.construct("twisted._threads._team." + q_, n),
                          "_shouldQuitCoordinator is written outside quit()")


def _s_statistics(ctx, S):
    # Team.statistics argument order
    f = ctx.func(TEAM, "Team.statistics")
    st = ctx.func(TEAM, "Statistics.__init__")
    sc = [c for c in ast.walk(f) if isinstance(c, ast.Call) and call_name(c) == "Statistics"]
    if not sc:
        ctx.violation("statistics/slots", QT + ".statistics", "statistics() does not build a Statistics(idle, busy, backlog): the worker limit test reads garbage")
        return
    b = {k: src(v) for k, v in bind_args(sc[0], st, skip_self=True).items()}
    ctx.check(b == {"idleWorkerCount": "len(self._idle)", "busyWorkerCount": "self._busyCount", "backloggedWorkCount": "len(self._pending)"},
              "statistics/slots", QT + ".statistics", f"statistics() reports the counters in the wrong slots: {b}")
    sa = {src(s.targets[0]): src(s.value) for s in ast.walk(st) if isinstance(s, ast.Assign)}
    ctx.check(all(sa.get("self." + k) == k for k in ("idleWorkerCount", "busyWorkerCount", "backloggedWorkCount")), "statistics/slots",
              "twisted._threads._team.Statistics.__init__", "Statistics stores its arguments under the wrong names")


def _s_quit_flag(ctx, S):
    # ---------------- Quit flag ---------------------------------------------------------------------------------
    f = ctx.func(CONV, "Quit.set")
    g = ctx.cfg(f)
    c_ = [nid for nid, c in node_calls(g, lambda c: call_name(c) == "self.check")]
    s_ = g.ids(lambda n: n.kind == "stmt" and isinstance(n.ast, ast.Assign) and any(is_self_attr(t, "isSet") for t in n.ast.targets) and src(n.ast.value) == "True")
    ctx.check(bool(c_) and bool(s_) and g.must_precede(c_, s_) is None, "quit-flag/set-once", "twisted._threads._convenience.Quit.set", "Quit.set does not check then set")
    f = ctx.func(CONV, "Quit.check")
    g = ctx.cfg(f)
    r_ = g.ids(lambda n: n.kind == "stmt" and isinstance(n.ast, ast.Raise) and "AlreadyQuit" in src(n.ast))
    ctx.check(bool(r_) and all(g.guarded(r, lambda e: src(e) == "self.isSet", True) for r in r_) and
              g.path([g.entry], [g.exit], edge_ok=lambda a, b, l: not (src(g.node(a).ast) == "self.isSet" and l == "T") and l != "exc") is not None and
              g.path([g.entry], [g.exit], edge_ok=lambda a, b, l: not (src(g.node(a).ast) == "self.isSet" and l == "F") and l != "exc") is None,
              "quit-flag/check-raises-when-set", "twisted._threads._convenience.Quit.check", "Quit.check does not raise AlreadyQuit exactly when the flag is set")


def _s_workers(ctx, S):
    # ---------------- workers: check flag before queueing; FIFO ----------------------------------------------------
    def flag_then_queue(rel, qual, flagcall, queue_pred, label, fails):
        f = ctx.func(rel, qual)
        g = ctx.cfg(f)
        a = [nid for nid, c in node_calls(g, lambda c: call_name(c) == flagcall)]
        b = [nid for nid, c in node_calls(g, queue_pred)]
        if not b:
            ctx.violation(label, "twisted." + rel[:-3].replace("/", ".") + "." + qual, f"{qual} never queues anything: " + fails)
            return f, g
        w = g.must_precede(a, b, exc=False)
        ctx.check(bool(a) and w is None, label, "twisted." + rel[:-3].replace("/", ".") + "." + qual, fails, witness=g.describe(w))
        return f, g

    flag_then_queue(TW, "ThreadWorker.do", "self._hasQuit.check", lambda c: call_name(c) == "self._q.put", "quit/refused-after-quit",
                    "ThreadWorker.do enqueues work without checking the quit flag first (work after the stop sentinel is never run)")
    f, g = flag_then_queue(TW, "ThreadWorker.quit", "self._hasQuit.set", lambda c: call_name(c) == "self._q.put", "quit/flag-before-sentinel",
                           "ThreadWorker.quit enqueues the stop sentinel before rejecting new work: a task can be queued behind the sentinel and never run")
    sentinel_put = [src(c.args[0]) for c in ast.walk(f) if isinstance(c, ast.Call) and call_name(c) == "self._q.put" and c.args]
    fi = ctx.func(TW, "ThreadWorker.__init__")
    # the thread's loop, read by role: (queue read expression, stop sentinel, number of call sites of the dequeued task per iteration)
    #   for task in iter(q.get, SENTINEL): task()          |   while True: task = q.get(); if task == SENTINEL: break; task()
    shape = None
    for n in ast.walk(fi):
        if isinstance(n, ast.For) and isinstance(n.iter, ast.Call) and len(n.iter.args) == 2 and call_attr(n.iter.args[0]) is None and src(n.iter.args[0]).endswith(".get"):
            tv = src(n.target)
            calls = [c for s_ in n.body for c in ast.walk(s_) if isinstance(c, ast.Call) and isinstance(c.func, ast.Name) and c.func.id == tv]
            shape = (src(n.iter.args[0])[:-len(".get")], src(n.iter.args[1]), len(calls), True)
        elif isinstance(n, ast.While) and shape is None:
            gets = [a for a in ast.walk(n) if isinstance(a, ast.Assign) and len(a.targets) == 1 and isinstance(a.targets[0], ast.Name) and isinstance(a.value, ast.Call)
                    and call_attr(a.value) == "get" and not a.value.args]
            if len(gets) != 1:
                continue
            tv = gets[0].targets[0].id
            stops = [(i_, c_) for i_ in ast.walk(n) if isinstance(i_, ast.If) for c_ in [i_.test] if isinstance(c_, ast.Compare) and len(c_.ops) == 1 and
                     isinstance(c_.ops[0], (ast.Eq, ast.Is)) and tv in (src(c_.left), src(c_.comparators[0])) and any(isinstance(b, (ast.Break, ast.Return)) for b in i_.body)]
            if len(stops) != 1:
                continue
            stop_if, cmp_ = stops[0]
            other_side = cmp_.comparators[0] if src(cmp_.left) == tv else cmp_.left
            calls = [c for c in ast.walk(n) if isinstance(c, ast.Call) and isinstance(c.func, ast.Name) and c.func.id == tv and not any(c is x for b in stop_if.body for x in ast.walk(b))]
            forever = src(n.test) in ("True", "1")
            shape = (src(gets[0].value.func.value), src(other_side), len(calls), forever)
    ctx.need(shape, "the thread loop of ThreadWorker.__init__.work (iter(queue.get, sentinel) or while/get/compare/break)")
    qexpr, sentinel, ncalls, forever = shape
    ctx.check(sentinel_put == [sentinel], "worker/sentinel-agreement", "twisted._threads._threadworker.ThreadWorker | stop sentinel",
              f"quit() enqueues {sentinel_put} but the thread loop stops on {sentinel}: the thread never ends (stop() hangs)")
    ctx.check(ncalls == 1 and forever, "task/called-once", "twisted._threads._threadworker.ThreadWorker.__init__.work", "each dequeued task is not called exactly once "
              "(or the loop can end before the sentinel arrives)")
    ctx.check(qexpr.split(".")[0] == params(fi)[2] or qexpr.endswith("._q"), "worker/same-queue",
              "twisted._threads._threadworker.ThreadWorker.__init__.work", "the thread reads another queue than do() fills")
    started = [c for c in walk_local(fi) if isinstance(c, ast.Call) and call_name(c) == params(fi)[1]]
    ctx.check(len(started) == 1, "worker/one-thread", "twisted._threads._threadworker.ThreadWorker.__init__",
              f"a ThreadWorker starts {len(started)} threads (exclusivity needs exactly one)")
    flag_then_queue(MEM, "MemoryWorker.do", "self._quit.check", lambda c: call_name(c) == "self._pending.append", "quit/refused-after-quit",
                    "MemoryWorker.do queues work without checking the quit flag first")
    flag_then_queue(MEM, "MemoryWorker.quit", "self._quit.set", lambda c: call_name(c) == "self._pending.append", "quit/flag-before-sentinel",
                    "MemoryWorker.quit appends NoMoreWork before rejecting new work")
    fp = ctx.func(MEM, "createMemoryWorker.perform")
    ends = [_pop_end(c) for c in ast.walk(fp) if isinstance(c, ast.Call) and call_attr(c) in ("pop", "popleft")]
    dels = [t for d in ast.walk(fp) if isinstance(d, ast.Delete) for t in d.targets if isinstance(t, ast.Subscript) and "_pending" in rsrc(t.value, fp)]
    for t in dels:      # `del <queue>[0]` removes the first element like pop(0)
        try:
            v_ = const_eval(t.slice) if not isinstance(t.slice, ast.Slice) else None
        except NotConst:
            v_ = None
        ends.append("first" if v_ == 0 else ("last" if v_ == -1 else None))
    peeks = [src(s.slice) for s in ast.walk(fp) if isinstance(s, ast.Subscript) and "_pending" in rsrc(s.value, fp) and not any(s is t for t in dels)]
    ctx.check(ends == ["first"] and peeks in (["0"], []), "fifo/memory-worker", "twisted._threads._memory.createMemoryWorker.perform",
              "MemoryWorker performs work from the wrong end of its queue (or peeks at another element than it pops)")
    _removed_before_called(ctx, fp, "twisted._threads._memory.createMemoryWorker.perform")
    _removed_before_called(ctx, ctx.func(TW, "ThreadWorker.__init__"), "twisted._threads._threadworker.ThreadWorker.__init__.work")


def _removed_before_called(ctx, func, q):
    """Exactly once on the error path: an item that is called has left its queue before the call, so a call-out that raises cannot leave it at the head to be
    run again.  Read by role in ``func`` (nested worker functions included): the items are the names that are CALLED and whose values come out of a queue -
    by a removing read (<q>.pop(..) / popleft() / get() / the variable of ``for .. in iter(<q>.get, ..)``: removed by construction) or by a peek (<q>[<const>]):
    then a removal from the same queue has to precede the call on every path."""
    judged = 0
    scopes = [func] + [d for d in ast.walk(func) if isinstance(d, (ast.FunctionDef, ast.AsyncFunctionDef)) and d is not func]
    for fn in scopes:
        g = ctx.cfg(fn)
        loopvars = {}
        for lp in walk_local(fn):
            if isinstance(lp, ast.For) and isinstance(lp.target, ast.Name):
                loopvars[lp.target.id] = lp.iter
        for n, c in node_calls(g, lambda c: isinstance(c.func, ast.Call) and isinstance(c.func.func, ast.Attribute) and c.func.func.attr in ("pop", "popleft", "get", "get_nowait")
                               and not c.args and not c.keywords):
            judged += 1         # <queue>.pop(0)(): what is called is the result of the removing read itself
            ctx.ok("task/removed-before-called", ctx.construct(q, f"{src(c.func)}()"), detail="item taken by a removing read")
        for n, c in node_calls(g, lambda c: isinstance(c.func, ast.Name) and not c.args and not c.keywords):
            name = c.func.id
            if name in loopvars:
                it = loopvars[name]
                if isinstance(it, ast.Call) and len(it.args) == 2 and not it.keywords and isinstance(it.args[0], ast.Attribute) and it.args[0].attr in ("get", "get_nowait", "popleft", "pop"):
                    judged += 1
                    ctx.ok("task/removed-before-called", ctx.construct(q, f"{name}()"), detail="item taken by a removing read (iter(<queue>.get, <sentinel>))")
                continue
            leaves = [v for v, _, _ in leaf_values(fn, c.func)]
            if not leaves or any(isinstance(v, ast.Name) for v in leaves):
                continue            # a parameter / closure variable: not an item this function takes out of a queue
            removing = [v for v in leaves if isinstance(v, ast.Call) and isinstance(v.func, ast.Attribute) and v.func.attr in ("pop", "popleft", "get", "get_nowait")]
            peeks = [v for v in leaves if isinstance(v, ast.Subscript) and not isinstance(v.slice, ast.Slice)]
            if len(removing) + len(peeks) != len(leaves):
                continue
            judged += 1
            if not peeks:
                ctx.ok("task/removed-before-called", ctx.construct(q, f"{name}()"), detail="item taken by a removing read")
                continue
            for pk in peeks:
                qexpr = rsrc(pk.value, fn)
                rem = [x for x, rc in node_calls(g, lambda rc: isinstance(rc.func, ast.Attribute) and rc.func.attr in ("pop", "popleft", "remove", "clear") and rsrc(rc.func.value, fn) == qexpr)]
                rem += [x.id for x in g.nodes if x.kind == "stmt" and isinstance(x.ast, ast.Delete) and g.reachable(x.id) and
                        any(isinstance(t, ast.Subscript) and rsrc(t.value, fn) == qexpr for t in x.ast.targets)]
                w = g.must_precede(rem, [n]) if rem else g.path([g.entry], [n])
                ctx.check(bool(rem) and w is None, "task/removed-before-called", ctx.construct(q, f"{name}()"),
                          f"the item {src(pk)} is called while it is still in {qexpr} (the removal does not precede the call on every path): if the call raises, the item "
                          f"stays at the head of the queue - every later step runs the same task again and nothing behind it ever runs", witness=g.describe(w))
    if not judged:
        raise AnalysisError(f"{q}: no call of an item taken out of a queue recognised")


def _s_lockworker(ctx, S):
    # ---------------- (e) LockWorker.do -----------------------------------------------------------------------------
    # Roles, not names: LOCK = self._lock or a local alias; LOCAL = self._local or alias; R = the re-entrant queue (what getattr(LOCAL, "working")
    # yields); F = the fresh queue published as LOCAL.working before the lock is taken (R and F may be one variable or two).
    f = ctx.func(TW, "LockWorker.do")
    g = ctx.cfg(f)
    q = "twisted._threads._threadworker.LockWorker.do"
    defs = local_defs(f, track_mutation=False)
    work_p = params(f)[1]

    def aliases_of(attr):
        return {attr} | {k for k, v in defs.items() if v and all(x is not None and src(x) == attr for x in v)}
    LOCK, LOCAL = aliases_of("self._lock"), aliases_of("self._local")
    marker = {a + ".working" for a in LOCAL}
    acq = [nid for nid, c in node_calls(g, lambda c: call_attr(c) == "acquire" and dotted(c.func.value) in LOCK)]
    rel_ = [nid for nid, c in node_calls(g, lambda c: call_attr(c) == "release" and dotted(c.func.value) in LOCK)]
    clr = g.ids(lambda n: n.kind == "stmt" and isinstance(n.ast, ast.Assign) and any(src(t) in marker for t in n.ast.targets) and src(n.ast.value) == "None")
    if not acq:
        ctx.violation("lockworker/acquires-lock", q, "LockWorker.do never acquires its lock: coordinator work runs without mutual exclusion (two threads update the "
                      "team's counters at once)")
        return
    cleanup = set(acq) | set(rel_) | set(clr)      # acquire/release/clear themselves are assumed not to raise
    ok_e = lambda a, b, l: not (l == "exc" and a in cleanup)
    w = g.path(acq, {g.exit, g.raise_exit}, avoid=rel_, edge_ok=ok_e, strict=True)
    ctx.check(bool(rel_) and w is None, "lockworker/release-on-every-exit", q,
              "after lock.acquire() the function can exit (e.g. when a piece of work raises) without lock.release(): the coordinator dead-locks",
              witness=g.describe(w))
    w = g.path(acq, {g.exit, g.raise_exit}, avoid=clr, edge_ok=ok_e, strict=True)
    ctx.check(bool(clr) and w is None, "lockworker/working-cleared-on-every-exit", q,
              "after the lock was taken the function can exit without resetting local.working: every later do() on this thread only appends "
              "to a dead list and its work never runs", witness=g.describe(w))
    chk = [nid for nid, c in node_calls(g, lambda c: call_name(c) == "self._quit.check")]
    w = g.must_precede(chk, acq, exc=False)
    ctx.check(bool(chk) and w is None, "quit/refused-after-quit", q, "LockWorker.do does not check the quit flag before working")
    # the queues
    R = {k for k, v in defs.items() if any(x is not None and isinstance(x, ast.Call) and call_name(x) == "getattr" and len(x.args) >= 2 and src(x.args[0]) in LOCAL
                                           and src(x.args[1]) == "'working'" for x in v)}
    ctx.need(R, "<queue> = getattr(local, 'working', None) in LockWorker.do")
    shared = g.ids(lambda n: n.kind == "stmt" and isinstance(n.ast, (ast.Assign, ast.AnnAssign)) and src(getattr(n.ast, "value", None)) != "None" and
                   any(src(t) in marker for t in (n.ast.targets if isinstance(n.ast, ast.Assign) else [n.ast.target])))
    F = set()
    for s_ in shared:
        st = g.node(s_).ast
        F |= {t.id for t in (st.targets if isinstance(st, ast.Assign) else [st.target]) if isinstance(t, ast.Name)}
        if isinstance(st.value, ast.Name):
            F.add(st.value.id)
    Q_ = R | F
    apps = [nid for nid, c in node_calls(g, lambda c: call_attr(c) == "append" and dotted(c.func.value) in Q_ and c.args and src(c.args[0]) == work_p)]
    w = g.must_pass([g.entry], apps, exc=False)
    ctx.check(bool(apps) and w is None, "lockworker/work-always-queued", q, "do() can return without queueing (or running) the work", witness=g.describe(w))
    ends = [(_pop_end(c), c) for c in walk_local(f) if isinstance(c, ast.Call) and call_attr(c) in ("pop", "popleft") and dotted(c.func.value) in Q_]
    ctx.check(bool(ends) and all(e == "first" for e, _ in ends), "fifo/lock-worker", q,
              "LockWorker runs re-entrantly queued work from the wrong end: coordinator operations are reordered")
    for e, c in ends:
        p = getattr(c, "_parent", None)
        called = isinstance(p, ast.Call) and p.func is c and not p.args
        if not called and isinstance(p, ast.Assign) and len(p.targets) == 1 and isinstance(p.targets[0], ast.Name):
            nm = p.targets[0].id
            loop_ = next((x for x in _parents_until(c, f) if isinstance(x, ast.While)), f)
            called = sum(1 for x in walk_local(loop_) if isinstance(x, ast.Call) and isinstance(x.func, ast.Name) and x.func.id == nm and not x.args) == 1
        ctx.check(called, "lockworker/work-called", ctx.construct(q, c), "dequeued work is not called (exactly once)")
        loop = next((x for x in _parents_until(c, f) if isinstance(x, ast.While)), None)
        qn = dotted(c.func.value)
        nonempty = False
        if loop is not None:
            lc = lincmp(loop.test)
            nonempty = src(loop.test) == qn or (lc is not None and dict(lc[0]) == {f"len({qn})": 1} and lc[1] == 1) or src(loop.test) == f"len({qn}) != 0"
        ctx.check(nonempty, "lockworker/drained", ctx.construct(q, "while <queue not empty>"),
                  "the work list is not drained completely before the lock is released (re-entrantly queued work is lost)")
        for cn in g.ids_of(c):
            ctx.check(any(g.dominates(a, cn) for a in acq), "lockworker/work-under-lock", ctx.construct(q, c), "work runs without the lock held")
    def through_flag(t):
        """a guard that is a boolean local recorded once (`outermost = working is None`) stands for the recorded test"""
        if isinstance(t, ast.Name):
            ds = [d for d in defs.get(t.id, [])]
            if len(ds) == 1 and ds[0] is not None and isinstance(ds[0], (ast.Compare, ast.UnaryOp, ast.BoolOp)):
                return ds[0]
        return t
    # paths are judged consistently with a boolean flag that is recorded once and tested more than once (`outermost`): a path may not take the flag as true
    # at one test and as false at another
    flags = {}
    for s_ in shared:
        for t, lab in edge_asserts(g, s_):
            if isinstance(t, ast.Name) and through_flag(t) is not t:
                flags[t.id] = lab
    consistent = lambda a, b, l: l != "exc" and not (g.node(a).kind == "test" and isinstance(g.node(a).ast, ast.Name) and g.node(a).ast.id in flags
                                                      and l in ("T", "F") and l != flags[g.node(a).ast.id])
    published_first = g.path([g.entry], acq, avoid=shared, edge_ok=consistent) is None
    ctx.check(bool(shared) and published_first and
              all(any((a := asserted_is(through_flag(t), lab)) is not None and a[2] and src(a[0]) in R and src(a[1]) == "None" for t, lab in edge_asserts(g, s)) for s in shared),
              "lockworker/reentrancy-marker", q, "local.working is not published (under `<re-entrant queue> is None`) before the lock is taken: re-entrant do() would dead-lock")
    # the re-entrant branch only queues: it never touches the lock
    for nid in [n for n, c in node_calls(g, lambda c: call_attr(c) == "append" and dotted(c.func.value) in R and c.args and src(c.args[0]) == work_p)]:
        if any((a := asserted_is(through_flag(t), lab)) is not None and not a[2] and src(a[0]) in R for t, lab in edge_asserts(g, nid)):
            ctx.check(g.path([nid], acq, edge_ok=no_exc) is None, "lockworker/reentrant-call-only-queues", ctx.construct(q, "re-entrant append"),
                      "a re-entrant do() goes on to acquire the (non re-entrant) lock: dead-lock")


def _s_threadpool(ctx, S):
    # ---------------- (f) ThreadPool ---------------------------------------------------------------------------------
    f = ctx.func(TP, "ThreadPool.callInThreadWithCallback")
    g = ctx.cfg(f)
    q = "twisted.python.threadpool.ThreadPool.callInThreadWithCallback"
    inner = [x for x in walk_local(f) if isinstance(x, ast.FunctionDef)]
    sub = [(nid, c) for nid, c in node_calls(g, lambda c: call_name(c) == "self._team.do")]
    if not sub:
        ctx.violation("threadpool/submitted-unless-joined", q, "callInThreadWithCallback never hands the call to self._team.do: it is never run and never reported")
        return
    work = next((x for x in inner if any(c.args and src(c.args[0]) == x.name for _, c in sub)), None)
    ctx.need(work, "the function handed to self._team.do")
    for nid, c in sub:
        w = g.path([g.entry], [g.exit], avoid=[nid], edge_ok=lambda a, b, l: l != "exc" and not (src(g.node(a).ast) == "self.joined" and l == "T"))
        ctx.check(w is None, "threadpool/submitted-unless-joined", q, "a call can be dropped although the pool is not joined", witness=g.describe(w))
    W = work.name
    gw = ctx.cfg(work, exception_is_all=False)
    qw = q + "." + W
    tw = node_calls(gw, lambda c: call_name(c) == W + ".theWork")
    ctx.check(len(tw) == 1, "task/called-once", qw, f"theWork is called at {len(tw)} sites")
    for nid, c in tw:
        h = catching_handler(c, work, "BaseException")
        ctx.check(h is not None, "threadpool/outcome-captured", ctx.construct(qw, "theWork()"),
                  "an exception that is not an Exception subclass (SystemExit, KeyboardInterrupt, GeneratorExit...) raised by the function escapes: "
                  "onResult is never called for that call")
        if h is not None:
            hs = {src(s.targets[0]): src(s.value) for s in h.body if isinstance(s, ast.Assign) and len(s.targets) == 1}
            oknames = [k for k, v in hs.items() if v == "False"]
            resn = [k for k, v in hs.items() if v.startswith("Failure(")]
            ctx.check(bool(oknames) and bool(resn), "threadpool/failure-reported-as-failure", ctx.construct(qw, "except BaseException"),
                      "the failure path does not produce (False, Failure())")
    rs = node_calls(gw, lambda c: call_name(c) == W + ".onResult")
    ctx.check(len(rs) == 1, "threadpool/reported-once", qw, f"onResult is called at {len(rs)} sites (exactly one expected)")
    for nid, c in rs:
        guards = edge_asserts(gw, nid)
        only = all((a := asserted_is(t, lab)) is not None and not a[2] and src(a[0]) == W + ".onResult" and src(a[1]) == "None" for t, lab in guards)
        ctx.check(only and len(guards) == 1, "threadpool/reported-on-both-outcomes", ctx.construct(qw, "onResult(...)"),
                  f"onResult is reported only under extra conditions {[src(t) + '=' + lab for t, lab in guards]}: some outcomes are never reported")
        resets = gw.ids(lambda n: n.kind == "stmt" and isinstance(n.ast, ast.Assign) and any(src(t) == W + ".onResult" for t in n.ast.targets) and src(n.ast.value) == "None")
        w = gw.must_pass([nid], resets, exc=False)
        ctx.check(bool(resets) and w is None, "threadpool/reported-once", ctx.construct(qw, "onResult reset"),
                  "onResult is not cleared after being called")
        okargs = len(c.args) == 2 and isinstance(c.args[0], ast.Name) and isinstance(c.args[1], ast.Name)
        if okargs:
            d_ = local_defs(work)
            okv = sorted(src(v) for v in d_.get(c.args[0].id, []) if v is not None)
            rv = [src(v) for v in d_.get(c.args[1].id, []) if v is not None]
            okargs = okv == ["False", "True"] and any("theWork()" in v for v in rv) and any(v.startswith("Failure(") for v in rv)
        ctx.check(okargs, "threadpool/outcome-pairing", ctx.construct(qw, "onResult(ok, result)"), "onResult is not called with (success flag, result-or-Failure)")
        ts = [nid2 for nid2, c2 in tw]
        setok = gw.ids(lambda n: n.kind == "stmt" and isinstance(n.ast, ast.Assign) and src(n.ast.value) == "True" and okargs and src(n.ast.targets[0]) == src(c.args[0]))
        w = gw.must_precede(ts, setok, exc=False)
        ctx.check(bool(setok) and w is None, "threadpool/outcome-pairing", ctx.construct(qw, "ok = True"), "success is recorded before the function has returned")


def _s_threadpool_stop(ctx, S):
    f = ctx.func(TP, "ThreadPool.stop")
    g = ctx.cfg(f)
    q = "twisted.python.threadpool.ThreadPool.stop"
    quits = [nid for nid, c in node_calls(g, lambda c: call_name(c) == "self._team.quit")]
    loops = g.ids(lambda n: n.kind == "for" and src(n.ast.iter) == "self.threads")
    joins = [nid for nid, c in node_calls(g, lambda c: call_attr(c) == "join" and not c.args)]
    ctx.check(bool(quits) and bool(loops) and bool(joins), "threadpool/stop-quits-and-joins", q, "stop() does not quit the team and join self.threads")
    w = g.must_precede(quits, loops + joins, exc=False)
    ctx.check(w is None and bool(quits), "threadpool/quit-before-join", q,
              "stop() joins pool threads before telling the team to quit: the threads never receive their stop sentinel and stop() blocks forever",
              witness=g.describe(w))
    for j in joins:
        lp = next((x for x in _parents_until(next(c for nid, c in node_calls(g, lambda c: call_attr(c) == "join") if nid == j), f) if isinstance(x, ast.For)), None)
        ctx.check(lp is not None and src(lp.iter) == "self.threads" and src(lp.target) == src(g.node(j).ast.value.func.value), "threadpool/joins-every-thread",
                  ctx.construct(q, "thread.join()"), "stop() does not join every thread in self.threads")
    w = g.must_pass([g.entry], joins, to={g.exit}, exc=False) if loops else None
    w2 = g.path([g.entry], [g.exit], avoid=loops, edge_ok=no_exc)
    ctx.check(w2 is None, "threadpool/joins-every-thread", q, "stop() can return without joining the threads", witness=g.describe(w2))
    jn = g.ids(lambda n: n.kind == "stmt" and isinstance(n.ast, ast.Assign) and any(is_self_attr(t, "joined") for t in n.ast.targets) and src(n.ast.value) == "True")
    ctx.check(bool(jn) and g.must_precede(jn, quits, exc=False) is None, "threadpool/joined-before-quit", q, "stop() does not mark the pool joined before quitting the team")


def _s_threadpool_init(ctx, S):
    fi = ctx.func(TP, "ThreadPool.__init__")
    tf = [x for x in walk_local(fi) if isinstance(x, ast.FunctionDef) and x is not fi and any(isinstance(c, ast.Call) and call_name(c) == "self.threadFactory" for c in ast.walk(x))]
    if not tf:
        ctx.violation("threadpool/threads-tracked", "twisted.python.threadpool.ThreadPool.__init__", "no thread factory that records created threads in self.threads: "
                      "stop() cannot wait for them")
        return
    gt = ctx.cfg(tf[0])
    apps = [(nid, c) for nid, c in node_calls(gt, lambda c: call_name(c) == "self.threads.append")]
    rets = [x for x in normal_exits(gt) if isinstance(gt.node(x).ast, ast.Return)]
    ok = bool(apps) and all(isinstance(gt.node(r).ast.value, ast.Name) and any(src(c.args[0]) == gt.node(r).ast.value.id and gt.dominates(nid, r) for nid, c in apps) for r in rets) \
        and "self.threadFactory" in rsrc(apps[0][1].args[0], tf[0])
    ctx.check(ok, "threadpool/threads-tracked", "twisted.python.threadpool.ThreadPool.__init__." + tf[0].name,
              "a created thread is not recorded in self.threads: stop() returns while it is still running")
    pc = [c for c in walk_local(fi) if isinstance(c, ast.Call) and call_name(c) == "self._pool"]
    ctx.check(bool(pc) and len(pc[0].args) == 2 and src(pc[0].args[1]) == tf[0].name, "threadpool/threads-tracked",
              "twisted.python.threadpool.ThreadPool.__init__ | self._pool(currentLimit, trackingThreadFactory)", "the pool is not built with the tracking thread factory")
    lim = [x for x in walk_local(fi) if isinstance(x, ast.FunctionDef) and x is not fi and pc and src(pc[0].args[0]) == x.name]
    if not lim:
        ctx.violation("limit/current-limit", "twisted.python.threadpool.ThreadPool.__init__", "the pool is not given a local limit function (0 when not started, else self.max)")
        return
    gl = ctx.cfg(lim[0])
    okl = True
    seen_vals = set()
    for r in normal_exits(gl):
        st = gl.node(r).ast
        if not (isinstance(st, ast.Return) and st.value is not None):
            okl = False
            continue
        cfg_started = [lab == "T" for t, lab in edge_asserts(gl, r) if src(t) == "self.started"]
        for v, conds, _ in leaf_values(lim[0], st.value):
            started = cfg_started + [arm for t, arm in conds if src(t) == "self.started"] + [not arm for t, arm in conds if src(t) == "not self.started"]
            seen_vals.add(src(v))
            okl = okl and len(set(started)) == 1 and ((src(v) == "0" and started[0] is False) or (src(v) == "self.max" and started[0] is True))
    okl = okl and seen_vals == {"0", "self.max"}
    ctx.check(okl, "limit/current-limit", "twisted.python.threadpool.ThreadPool.__init__.currentLimit", "the limit is not (0 when not started, else self.max)")


def _s_limit(ctx, S):
    f = ctx.func(POOL, "pool.limitedWorkerCreator")
    g = ctx.cfg(f)
    q = "twisted._threads._pool.pool.limitedWorkerCreator"
    creates = [x for x in normal_exits(g) if isinstance(g.node(x).ast, ast.Return) and g.node(x).ast.value is not None and "ThreadWorker(" in src(g.node(x).ast.value)]
    if not creates:
        ctx.violation("limit/create-only-below-limit", q, "limitedWorkerCreator never returns a new ThreadWorker: no task can ever run")
        return
    lim_name = params(ctx.func(POOL, "pool"))[0]
    for x in creates:
        forms = [lincmp(resolve(t, f), negate=(lab == "T")) for t, lab in edge_asserts(g, x)]   # reject condition
        ok = False
        for lf in forms:
            if lf is None:
                continue
            terms, c = dict(lf[0]), lf[1]
            busy = [k for k, v in terms.items() if k.endswith(".busyWorkerCount") and v == 1 and "statistics()" in k]
            idle = [k for k, v in terms.items() if k.endswith(".idleWorkerCount") and v == 1 and "statistics()" in k]
            limt = [k for k, v in terms.items() if k == lim_name + "()" and v == -1]
            if busy and idle and limt and len(terms) == 3:
                ok = c == 0
        ctx.check(ok, "limit/create-only-below-limit", ctx.construct(q, "return ThreadWorker(...)"),
                  "a worker is created unless busy + idle >= currentLimit() does not hold exactly: the pool exceeds its limit by one (or stays one below)")
        tw_ = g.node(x).ast.value
        qarg = tw_.args[1] if isinstance(tw_, ast.Call) and len(tw_.args) == 2 else None
        ctx.check(qarg is not None and src(qarg) == "Queue()", "fifo/thread-worker-queue", ctx.construct(q, "ThreadWorker(startThread, Queue())"),
                  "the per-thread queue is not a fresh FIFO queue.Queue (shared or LIFO queue: tasks reordered or run by the wrong worker)")
    pm = ctx.mod(POOL)
    imp = [a.name for n in pm.tree.body if isinstance(n, ast.ImportFrom) and n.module == "queue" for a in n.names if (a.asname or a.name) == "Queue"]
    ctx.check(imp == ["Queue"], "fifo/thread-worker-queue", "twisted._threads._pool | from queue import Queue", f"Queue is bound to queue.{imp}")
    tc = [c for c in ast.walk(ctx.func(POOL, "pool")) if isinstance(c, ast.Call) and call_name(c) == "Team"]
    ctx.need(tc, "Team(...) in pool()")
    fpool = ctx.func(POOL, "pool")
    kw = {k.arg: rsrc(k.value, local_defs(fpool, track_mutation=False)) for k in tc[0].keywords}
    ctx.check(kw.get("coordinator", "").startswith("LockWorker(Lock()") and kw.get("createWorker") == "limitedWorkerCreator", "limit/team-wiring", "twisted._threads._pool.pool | Team(...)",
              "the team is not built with a fresh LockWorker coordinator and the limited worker creator")


def check(ctx):
    normalise(ctx, {TEAM: ["_quitIdlers", "_coordinateThisTask", "_recycleWorker"], TW: [], MEM: [], POOL: [], TP: ["_generateName"], CONV: []})
    run_sections(ctx, [("confinement", _s_confinement), ("dispatch", _s_dispatch), ("recycle", _s_recycle), ("quitIdlers", _s_quit_idlers),
                       ("entry-points", _s_entry_points), ("Team.quit", _s_team_quit), ("statistics", _s_statistics), ("quit-flag", _s_quit_flag),
                       ("workers", _s_workers), ("LockWorker", _s_lockworker), ("ThreadPool.call", _s_threadpool), ("ThreadPool.stop", _s_threadpool_stop),
                       ("ThreadPool.init", _s_threadpool_init), ("worker-limit", _s_limit), ("body-entered", _s_body)])


def _s_body(ctx, S):
    why = "the ownership / ordering rules above reason about this body; a memoising or wrapping decorator lets a call bypass it"
    body_always_entered(ctx, TEAM, ["Team." + m for m in ("do", "grow", "shrink", "quit", "statistics", "_quitIdlers", "_coordinateThisTask", "_recycleWorker")],
                        "anchor/body-entered-on-every-call", "twisted._threads._team", why)
    body_always_entered(ctx, TW, ["ThreadWorker.do", "ThreadWorker.quit", "LockWorker.do", "LockWorker.quit"], "anchor/body-entered-on-every-call", "twisted._threads._threadworker", why)
    body_always_entered(ctx, CONV, ["Quit.set", "Quit.check"], "anchor/body-entered-on-every-call", "twisted._threads._convenience", why)
    body_always_entered(ctx, TP, ["ThreadPool.callInThreadWithCallback", "ThreadPool.stop"], "anchor/body-entered-on-every-call", "twisted.python.threadpool", why)
    body_always_entered(ctx, POOL, ["pool", "pool.limitedWorkerCreator"], "anchor/body-entered-on-every-call", "twisted._threads._pool", why)


def _parents_until(node, stop):
    p = getattr(node, "_parent", None)
    while p is not None and p is not stop:
        yield p
        p = getattr(p, "_parent", None)


MUTANTS = [
    Mutant("busy-count-in-do", TEAM, "        self._quit.check()\n        self._coordinator.do(lambda: self._coordinateThisTask(task))",
           "        self._quit.check()\n        self._busyCount += 1\n        self._coordinator.do(lambda: self._coordinateThisTask(task))",
           more=[(TEAM, "        not_none_worker = worker\n        self._busyCount += 1\n", "        not_none_worker = worker\n")], expect_rule="confinement/owned-state"),
    Mutant("task-exceptions-escape", TEAM, "            try:\n                task()\n            except BaseException:\n                self._logException()\n", "            task()\n",
           expect_rule="handback/"),
    Mutant("task-handler-narrowed", TEAM, "            except BaseException:\n                self._logException()", "            except Exception:\n                self._logException()",
           expect_rule="handback/"),
    Mutant("pending-lifo", TEAM, "self._coordinateThisTask(self._pending.popleft())", "self._coordinateThisTask(self._pending.pop())", expect_rule="fifo/team-pending"),
    Mutant("join-before-quit", TP, "        self._team.quit()\n        for thread in self.threads:\n            thread.join()\n",
           "        for thread in self.threads:\n            thread.join()\n        self._team.quit()\n", expect_rule="threadpool/quit-before-join"),
    Mutant("coordinator-quits-while-busy", TEAM, "        if self._shouldQuitCoordinator and self._busyCount == 0:", "        if self._shouldQuitCoordinator:",
           expect_rule="quit/coordinator-after-busy-drained"),
    Mutant("quit-outranks-pending", TEAM,
           "        if self._pending:\n            # Re-try the first enqueued thing.\n            # (Explicitly do _not_ honor _quit.)\n            self._coordinateThisTask(self._pending.popleft())\n        elif self._shouldQuitCoordinator:\n            self._quitIdlers()\n",
           "        if self._shouldQuitCoordinator:\n            self._quitIdlers()\n        elif self._pending:\n            self._coordinateThisTask(self._pending.popleft())\n",
           expect_rule="recycle/pending-outranks-quit"),
    Mutant("lockworker-lifo", TW, "                    working.pop(0)()", "                    working.pop()()", expect_rule="fifo/lock-worker"),
    Mutant("lockworker-release-not-finally", TW,
           "            try:\n                while working:\n                    working.pop(0)()\n            finally:\n                lock.release()\n                local.working = None\n",
           "            while working:\n                working.pop(0)()\n            lock.release()\n            local.working = None\n", expect_rule="lockworker/"),
    Mutant("sentinel-before-flag", TW, "        self._hasQuit.set()\n        self._q.put(StopThread)", "        self._q.put(StopThread)\n        self._hasQuit.set()",
           expect_rule="quit/flag-before-sentinel"),
    Mutant("limit-off-by-one", POOL, "        if stats.busyWorkerCount + stats.idleWorkerCount >= currentLimit():", "        if stats.busyWorkerCount + stats.idleWorkerCount > currentLimit():",
           expect_rule="limit/create-only-below-limit"),
    Mutant("outcome-handler-narrowed", TP, "            except BaseException:\n                result = Failure()", "            except Exception:\n                result = Failure()",
           expect_rule="threadpool/outcome-captured"),
    Mutant("grow-without-quit-check", TEAM, "        self._quit.check()\n\n        @self._coordinator.do\n        def createOneWorker", "        @self._coordinator.do\n        def createOneWorker",
           expect_rule="quit/refused-after-quit"),
    Mutant("shrink-off-coordinator", TEAM, "        self._coordinator.do(lambda: self._quitIdlers(n))", "        self._quitIdlers(n)", expect_rule="confinement/owned-state"),
    Mutant("decrement-after-recycle", TEAM, "                self._busyCount -= 1\n                self._recycleWorker(not_none_worker)", "                self._recycleWorker(not_none_worker)\n                self._busyCount -= 1",
           expect_rule="busy-count/decremented-before-recycle"),
    Mutant("shrunk-worker-stays-idle", TEAM, "            self._toShrink -= 1\n            self._idle.remove(worker)\n            worker.quit()", "            self._toShrink -= 1\n            worker.quit()",
           expect_rule="shrink/worker-removed-and-quit"),
    Mutant("onresult-only-on-success", TP, "            if inContext.onResult is not None:  # type: ignore[attr-defined]", "            if inContext.onResult is not None and ok:", expect_rule="threadpool/reported-on-both-outcomes"),
    # ---- round-3 shapes: the idle pop written EAFP; the task closure and its completion closure built by a private factory as siblings
    Mutant("eafp-pop-forgets-the-deferred-shrink", TEAM, '            if self._idle:\n                self._idle.pop().quit()\n            else:\n                self._toShrink += 1\n', '            try:\n                spare = self._idle.pop()\n            except KeyError:\n                pass\n            else:\n                spare.quit()\n'),
    Mutant("factory-built-job-recycles-on-the-worker-thread", TEAM, '        not_none_worker = worker\n        self._busyCount += 1\n\n        @worker.do\n        def doWork() -> None:\n            try:\n                task()\n            except BaseException:\n                self._logException()\n\n            @self._coordinator.do\n            def idleAndPending() -> None:\n                self._busyCount -= 1\n                self._recycleWorker(not_none_worker)\n', '        self._busyCount += 1\n        worker.do(self._jobFor(worker, task))\n\n    def _jobFor(self, worker, task):\n        def backToThePool() -> None:\n            self._busyCount -= 1\n            self._recycleWorker(worker)\n\n        def job() -> None:\n            try:\n                task()\n            except BaseException:\n                self._logException()\n            backToThePool()\n        return job\n'),
    # ---- round-4: the item leaves the queue before it is called
    Mutant("memory-worker-dequeues-in-a-finally-after-the-call", MEM, '        worker._pending.pop(0)\n        peek()\n', "        try:\n            peek()\n        finally:\n            worker._pending.pop(0)\n",
           expect_rule="task/removed-before-called"),
    Mutant("memory-worker-dequeues-only-when-the-task-returned-normally", MEM, '        worker._pending.pop(0)\n        peek()\n',
           "        try:\n            peek()\n        except BaseException:\n            raise\n        else:\n            del worker._pending[0]\n", expect_rule="task/removed-before-called"),
    # ---- refactor round 4 shapes: the task / completion closures as private callable classes, dispatch through functools.partial
    Mutant("callable-object-job-recycles-on-the-worker-thread", TEAM, '        not_none_worker = worker\n        self._busyCount += 1\n\n        @worker.do\n        def doWork() -> None:\n            try:\n                task()\n            except BaseException:\n                self._logException()\n\n            @self._coordinator.do\n            def idleAndPending() -> None:\n                self._busyCount -= 1\n                self._recycleWorker(not_none_worker)\n', '        self._busyCount += 1\n        worker.do(_Job(self, worker, task))\n', more=[(TEAM, "@implementer(IWorker)\nclass Team:\n", 'class _Done:\n    def __init__(self, pool, worker):\n        self.pool = pool\n        self.worker = worker\n\n    def __call__(self):\n        self.pool._busyCount -= 1\n        self.pool._recycleWorker(self.worker)\n\n\nclass _Job:\n    def __init__(self, pool, worker, task):\n        self.pool = pool\n        self.worker = worker\n        self.task = task\n\n    def __call__(self):\n        try:\n            self.task()\n        except BaseException:\n            self.pool._logException()\n        _Done(self.pool, self.worker)()\n\n\n@implementer(IWorker)\nclass Team:\n')]),
    Mutant("partial-dispatches-shrink-on-the-caller-thread", TEAM, "        self._coordinator.do(lambda: self._quitIdlers(n))\n", "        partial(self._quitIdlers, n)()\n",
           more=[(TEAM, "from collections import deque\n", "from collections import deque\nfrom functools import partial\n")]),
]
SILENT = [
    Silent("lambda-instead-of-decorator", TEAM,
           "        @self._coordinator.do\n        def startFinishing() -> None:\n            self._shouldQuitCoordinator = True\n            self._quitIdlers()",
           "        def startFinishing() -> None:\n            self._shouldQuitCoordinator = True\n            self._quitIdlers()\n\n        self._coordinator.do(startFinishing)"),
    Silent("pending-as-list-pop0", TEAM, "self._coordinateThisTask(self._pending.popleft())", "self._coordinateThisTask(self._pending.pop(0))"),
    Silent("rename-handback", TEAM, "            def idleAndPending() -> None:", "            def handBack() -> None:"),
    Silent("busy-test-rewritten", TEAM, "        if self._shouldQuitCoordinator and self._busyCount == 0:", "        if not self._busyCount and self._shouldQuitCoordinator:"),
    Silent("limit-rewritten", POOL, "        if stats.busyWorkerCount + stats.idleWorkerCount >= currentLimit():", "        if not (stats.idleWorkerCount + stats.busyWorkerCount < currentLimit()):"),
    Silent("stop-flags-reordered", TP, "        self.joined = True\n        self.started = False\n        self._team.quit()", "        self.started = False\n        self.joined = True\n        self._team.quit()"),
    Silent("worker-closures-as-private-methods", TEAM,
           "        @worker.do\n        def doWork() -> None:\n            try:\n                task()\n            except BaseException:\n                self._logException()\n\n            @self._coordinator.do\n            def idleAndPending() -> None:\n                self._busyCount -= 1\n                self._recycleWorker(not_none_worker)\n",
           "        worker.do(lambda: self._runOn(not_none_worker, task))\n\n    def _runOn(self, w: IWorker, job: Callable[..., object]) -> None:\n        try:\n            job()\n        except BaseException:\n            self._logException()\n        self._coordinator.do(lambda: self._giveBack(w))\n\n"
           "    def _giveBack(self, w: IWorker) -> None:\n        self._busyCount -= 1\n        self._recycleWorker(w)\n"),
    Silent("worker-chosen-by-if-else", TEAM, "        worker = self._idle.pop() if self._idle else self._createWorker()\n        if worker is None:\n            # The createWorker method may return None if we're out of resources\n            # to create workers.\n            self._pending.append(task)\n            return\n        not_none_worker = worker\n",
           "        if not self._idle:\n            picked = self._createWorker()\n        else:\n            picked = self._idle.pop()\n        if picked is None:\n            self._pending.append(task)\n            return\n        worker = picked\n        not_none_worker = worker\n"),
    Silent("lockworker-early-return-and-static-drain", TW,
           "        working = getattr(local, \"working\", None)\n        if working is None:\n            assert lock is not None, \"LockWorker used after quit()\"\n            working = local.working = []\n            working.append(work)\n            lock.acquire()\n            try:\n                while working:\n                    working.pop(0)()\n            finally:\n                lock.release()\n                local.working = None\n        else:\n            working.append(work)\n",
           "        outer = getattr(local, \"working\", None)\n        if outer is not None:\n            outer.append(work)\n            return\n        assert lock is not None, \"LockWorker used after quit()\"\n        mine: list = []\n        local.working = mine\n        mine.append(work)\n        self._drain(lock, local, mine)\n\n"
           "    @staticmethod\n    def _drain(lock, local, items):\n        lock.acquire()\n        try:\n            while len(items) > 0:\n                first = items.pop(0)\n                first()\n        finally:\n            lock.release()\n            local.working = None\n"),
    Silent("thread-loop-as-while", TW, "            for task in smartiter(queue.get, StopThread):\n                task()\n", "            while True:\n                job = queue.get()\n                if job is StopThread:\n                    return\n                job()\n"),
    Silent("current-limit-as-conditional-expression", TP, "            if not self.started:\n                return 0\n            return self.max\n", "            return self.max if self.started else 0\n"),
    Silent("coordinator-in-a-temporary", POOL, "    team = Team(\n        coordinator=LockWorker(Lock(), LocalStorage()),\n", "    serialiser = LockWorker(Lock(), LocalStorage())\n    team = Team(\n        coordinator=serialiser,\n"),
    Silent("finishing-step-as-bound-private-method", TEAM, "        @self._coordinator.do\n        def startFinishing() -> None:\n            self._shouldQuitCoordinator = True\n            self._quitIdlers()",
           "        self._coordinator.do(self._beginFinishing)\n\n    def _beginFinishing(self) -> None:\n        self._shouldQuitCoordinator = True\n        self._quitIdlers()"),
    Silent("lockworker-outermost-flag", TW,
           "        working = getattr(local, \"working\", None)\n        if working is None:\n            assert lock is not None, \"LockWorker used after quit()\"\n            working = local.working = []\n            working.append(work)\n            lock.acquire()\n            try:\n                while working:\n                    working.pop(0)()\n            finally:\n                lock.release()\n                local.working = None\n        else:\n            working.append(work)\n",
           "        working = getattr(local, \"working\", None)\n        first = working is None\n        if first:\n            assert lock is not None, \"LockWorker used after quit()\"\n            working = local.working = []\n        working.append(work)\n        if not first:\n            return\n        lock.acquire()\n        try:\n            while working:\n                working.pop(0)()\n        finally:\n            lock.release()\n            local.working = None\n"),
    Silent("thread-loop-reflected-sentinel-test", TW, "            for task in smartiter(queue.get, StopThread):\n                task()\n", "            while True:\n                job = queue.get()\n                if StopThread == job:\n                    break\n                job()\n"),
    Silent("idle-pop-written-eafp", TEAM, '            if self._idle:\n                self._idle.pop().quit()\n            else:\n                self._toShrink += 1\n', '            try:\n                spare = self._idle.pop()\n            except KeyError:\n                self._toShrink += 1\n            else:\n                spare.quit()\n'),
    Silent("job-and-completion-closures-built-by-a-private-factory", TEAM, '        not_none_worker = worker\n        self._busyCount += 1\n\n        @worker.do\n        def doWork() -> None:\n            try:\n                task()\n            except BaseException:\n                self._logException()\n\n            @self._coordinator.do\n            def idleAndPending() -> None:\n                self._busyCount -= 1\n                self._recycleWorker(not_none_worker)\n', '        self._busyCount += 1\n        worker.do(self._jobFor(worker, task))\n\n    def _jobFor(self, worker, task):\n        def backToThePool() -> None:\n            self._busyCount -= 1\n            self._recycleWorker(worker)\n\n        def job() -> None:\n            try:\n                task()\n            except BaseException:\n                self._logException()\n            self._coordinator.do(backToThePool)\n        return job\n'),
    Silent("memory-worker-calls-the-popped-item", MEM, '        worker._pending.pop(0)\n        peek()\n', "        job = worker._pending.pop(0)\n        job()\n"),
    Silent("memory-worker-deletes-the-head-then-calls", MEM, '        worker._pending.pop(0)\n        peek()\n', "        del worker._pending[0]\n        peek()\n"),
    Silent("task-and-completion-closures-as-private-callable-classes", TEAM, '        not_none_worker = worker\n        self._busyCount += 1\n\n        @worker.do\n        def doWork() -> None:\n            try:\n                task()\n            except BaseException:\n                self._logException()\n\n            @self._coordinator.do\n            def idleAndPending() -> None:\n                self._busyCount -= 1\n                self._recycleWorker(not_none_worker)\n', '        self._busyCount += 1\n        worker.do(_Job(self, worker, task))\n', more=[(TEAM, "@implementer(IWorker)\nclass Team:\n", 'class _Done:\n    def __init__(self, pool, worker):\n        self.pool = pool\n        self.worker = worker\n\n    def __call__(self):\n        self.pool._busyCount -= 1\n        self.pool._recycleWorker(self.worker)\n\n\nclass _Job:\n    def __init__(self, pool, worker, task):\n        self.pool = pool\n        self.worker = worker\n        self.task = task\n\n    def __call__(self):\n        try:\n            self.task()\n        except BaseException:\n            self.pool._logException()\n        self.pool._coordinator.do(_Done(self.pool, self.worker))\n\n\n@implementer(IWorker)\nclass Team:\n')]),
    Silent("dispatch-through-functools-partial", TEAM, "        self._coordinator.do(lambda: self._quitIdlers(n))\n", "        self._coordinator.do(partial(self._quitIdlers, n))\n",
           more=[(TEAM, "        self._coordinator.do(lambda: self._coordinateThisTask(task))\n", "        self._coordinator.do(partial(self._coordinateThisTask, task))\n"),
                 (TEAM, "from collections import deque\n", "from collections import deque\nfrom functools import partial\n")]),
]
