"""Helpers shared by the checkers c30..c34 (AMP / DNS / RFC 1982 batch).  Stdlib only; nothing here imports twisted."""
from __future__ import annotations

import ast
import decimal
import io
import struct
from typing import Callable, Dict, Iterable, List, Optional, Sequence, Set, Tuple

from sa.astx import NotConst, body_walk, const_eval, dotted, lincmp, src, walk_local
from sa.source import AnalysisError, class_assigns, methods, mro_lookup


# ---- single-assignment locals and linear normal forms -------------------------------------------------------------

def single_defs(func: ast.AST) -> Dict[str, ast.expr]:
    """Locals bound exactly once in ``func`` by a plain ``name = expr`` (parameters, loop targets, tuple
    unpacking, augmented assignment or a second binding disqualify the name)."""
    counts: Dict[str, int] = {}
    defs: Dict[str, ast.expr] = {}
    a = getattr(func, "args", None)
    if a is not None:
        for p in list(a.args) + list(a.kwonlyargs) + list(a.posonlyargs) + ([a.vararg] if a.vararg else []) + ([a.kwarg] if a.kwarg else []):
            counts[p.arg] = 2
    for n in body_walk(func):
        if isinstance(n, ast.Name) and isinstance(n.ctx, (ast.Store, ast.Del)):
            counts[n.id] = counts.get(n.id, 0) + 1
        if isinstance(n, ast.AugAssign) and isinstance(n.target, ast.Name):
            counts[n.target.id] = counts.get(n.target.id, 0) + 1
        if isinstance(n, ast.Assign) and len(n.targets) == 1 and isinstance(n.targets[0], ast.Name):
            defs[n.targets[0].id] = n.value
        if isinstance(n, ast.AnnAssign) and isinstance(n.target, ast.Name) and n.value is not None:
            defs[n.target.id] = n.value
    return {k: v for k, v in defs.items() if counts.get(k) == 1}


def fresh(expr: ast.AST) -> ast.AST:
    """A parent-free copy of an expression (module nodes carry ``_parent`` links, so ``copy.deepcopy`` would
    drag the whole module along)."""
    return ast.parse(ast.unparse(expr), mode="eval").body


def expand(expr: ast.AST, defs: Dict[str, ast.expr], depth: int = 8) -> ast.AST:
    """Copy of ``expr`` with single-assignment locals replaced by their defining expressions."""
    class T(ast.NodeTransformer):
        def __init__(self, d):
            self.d = d

        def visit_Name(self, node):
            if isinstance(node.ctx, ast.Load) and node.id in defs and self.d > 0:
                return T(self.d - 1).visit(fresh(defs[node.id]))
            return node

    return T(depth).visit(fresh(expr))


def attrs_to_names(expr: ast.AST, recv: str = "self") -> ast.AST:
    """Parent-free copy of ``expr`` in which ``<recv>.<attr>`` is replaced by the plain name ``<recv>__<attr>`` (so that the
    whitelisted evaluators can bind it through their environment)."""
    class T(ast.NodeTransformer):
        def visit_Attribute(self, node):
            if isinstance(node.value, ast.Name) and node.value.id == recv:
                return ast.Name(id=f"{recv}__{node.attr}", ctx=ast.Load())
            return self.generic_visit(node)

    return ast.fix_missing_locations(T().visit(fresh(expr)))


def norm_cmp(test: ast.AST, defs: Dict[str, ast.expr], env: Optional[Dict[str, object]] = None, negate: bool = False):
    """``lincmp`` of the test after substituting single-assignment locals; None if not a linear comparison."""
    return lincmp(expand(test, defs), env or {}, negate)


def lin_equal(e1: ast.AST, e2: ast.AST, defs: Dict[str, ast.expr], env: Optional[Dict[str, object]] = None) -> bool:
    """e1 and e2 are the same linear integer expression (after substitution of single-assignment locals)."""
    cmp = ast.Compare(left=expand(e1, defs), ops=[ast.GtE()], comparators=[expand(e2, defs)])
    r = lincmp(cmp, env or {})
    return r is not None and not r[0] and r[1] == 0


def lin_expect(terms: Dict[str, int], c: int):
    return frozenset((k, v) for k, v in terms.items() if v), c


def fmt_lin(r) -> str:
    if r is None:
        return "<not a linear comparison>"
    terms, c = r
    parts = []
    for k, v in sorted(terms):
        parts.append(("" if v == 1 else ("-" if v == -1 else f"{v}*")) + k)
    return (" + ".join(parts) or "0").replace("+ -", "- ") + f" >= {c}"


def must_pass(g, srcs: Iterable[int], via: Iterable[int], to: Optional[Iterable[int]] = None, exc: bool = False):
    """Like CFG.must_pass, but a start node that is itself a ``via`` node counts as passing it.  Returns a witness
    path avoiding ``via`` or None."""
    via = set(via)
    starts = [s for s in srcs if s not in via]
    if not starts:
        return None
    return g.must_pass(starts, via, to=to, exc=exc, strict=False)


def is_self_attr(node: ast.AST, name: Optional[str] = None, recv: str = "self") -> bool:
    return (isinstance(node, ast.Attribute) and isinstance(node.value, ast.Name) and node.value.id == recv
            and (name is None or node.attr == name))


def const_of(node: ast.AST, env: Dict[str, object]):
    try:
        return const_eval(node, env)
    except NotConst:
        return None


def class_const(mod, cls: ast.ClassDef, name: str, env: Dict[str, object]):
    """Value of a class-level constant (following bases in the module); other class constants of the same
    class may be referenced.  Returns None when absent / not constant."""
    r = mro_lookup(mod, cls, name)
    if r is None or isinstance(r[1], (ast.FunctionDef, ast.AsyncFunctionDef)):
        return None
    owner, expr = r
    local = dict(env)
    for k, v in class_assigns(owner).items():
        if k == name:
            continue
        try:
            local[k] = const_eval(v, local)
        except NotConst:
            pass
    try:
        return const_eval(expr, local)
    except NotConst:
        return None


def struct_field_count(fmt: str) -> int:
    """Number of values produced by struct.unpack(fmt, ...)."""
    return len(struct.unpack(fmt, b"\x00" * struct.calcsize(fmt)))


def struct_codes(fmt: str) -> List[str]:
    """Expanded per-value format codes ("!H2B" -> ["H","B","B"])."""
    out: List[str] = []
    num = ""
    for ch in fmt:
        if ch in "@=<>!":
            continue
        if ch.isdigit():
            num += ch
            continue
        if ch.isspace():
            continue
        n = int(num) if num else 1
        num = ""
        if ch in "sp":
            out.append(f"{n}{ch}")
        elif ch == "x":
            continue
        else:
            out.extend([ch] * n)
    return out


# ---- a whitelisted interpreter for small pure methods --------------------------------------------------------------
# Repository code is never imported or run by CPython: its AST is interpreted here over concrete finite inputs, and only
# the constructs / builtins / methods enumerated below are understood (anything else is ``Unsupported`` -> analysis error).

class Unsupported(Exception):
    pass


class Raised(Exception):
    def __init__(self, name: str):
        super().__init__(name)
        self.name = name


class Inst:
    """An instance of a class of the analysed module."""

    def __init__(self, cls: ast.ClassDef, **fields):
        self.cls = cls
        self.fields: Dict[str, object] = dict(fields)

    def __repr__(self):
        return f"<{self.cls.name} {self.fields!r}>"


class _Bound:
    def __init__(self, inst: Inst, name: str):
        self.inst, self.name = inst, name


class _ClassRef:
    def __init__(self, cls: ast.ClassDef):
        self.cls = cls


_TYPES = {"int": int, "float": float, "str": str, "bytes": bytes, "bool": bool, "list": list, "tuple": tuple, "dict": dict,
          "bytearray": bytearray, "set": set, "decimal.Decimal": decimal.Decimal}
_PURE = {"int": int, "float": float, "str": str, "repr": repr, "len": len, "bytes": bytes, "bool": bool, "abs": abs, "ord": ord, "chr": chr,
         "sorted": sorted, "range": range, "list": list, "tuple": tuple, "set": set, "min": min, "max": max, "sum": sum, "bytearray": bytearray,
         "type": type, "dict": dict, "divmod": divmod, "enumerate": enumerate, "zip": zip, "reversed": reversed}
_STRUCT = {"struct.pack": struct.pack, "pack": struct.pack, "struct.unpack": struct.unpack, "unpack": struct.unpack,
           "struct.calcsize": struct.calcsize, "calcsize": struct.calcsize}
_NOOPS = {"log.msg", "log.err", "warnings.warn"}
_OBJ_METHODS = {  # methods that may be called on plain Python values, by receiver type
    (str, bytes, bytearray): {"encode", "decode", "lower", "upper", "strip", "lstrip", "rstrip", "join", "startswith", "endswith", "find", "split",
                              "replace", "title", "count", "index", "isdigit", "hex"},
    (list,): {"append", "extend", "pop", "insert", "index", "count", "copy", "reverse", "sort"},
    (dict,): {"items", "keys", "values", "get", "pop", "copy", "setdefault", "update"},
    (set,): {"add", "discard", "copy"},
    (io.BytesIO,): {"write", "read", "tell", "seek", "getvalue"},
}
_PY_ERRORS = (ValueError, TypeError, ArithmeticError, LookupError, struct.error, EOFError, AttributeError)


def _err_name(e: BaseException) -> str:
    return "struct.error" if isinstance(e, struct.error) else type(e).__name__


class MiniEval:
    """Interprets small methods/functions of one module over concrete values: literals, arithmetic, %-formatting, comparisons,
    subscripts and slices, if/for/while/try/return/raise/assignments, attribute reads and writes on modelled instances,
    isinstance/type on builtin types, a table of pure builtins, struct.pack/unpack/calcsize, whitelisted methods of
    str/bytes/list/dict/set/BytesIO values, calls of module functions, of methods of module classes (``self.m(x)``,
    ``Base.m(self, x)``), constructors of module classes and class-level aliases such as ``fromString = int``."""

    FUEL = 200000

    def __init__(self, mod, helpers: Optional[Dict[str, Callable]] = None, consts: Optional[Dict[str, object]] = None, extra_mods: Sequence[object] = ()):
        self.mod = mod
        self.mods = [mod] + list(extra_mods)      # names imported from these modules resolve to their definitions
        self.helpers = dict(helpers or {})
        self.consts = dict(consts or {})
        self.depth = 0
        self.fuel = self.FUEL
        self._home: Dict[int, object] = {}

    def find(self, name: str):
        for m in self.mods:
            d = m.find(name)
            if d is not None:
                return d
        return None

    def home(self, cls: ast.ClassDef):
        """The module a class is defined in (its bases are resolved there)."""
        k = id(cls)
        if k not in self._home:
            self._home[k] = next((m for m in self.mods if any(c is cls for c in m.tree.body) or any(c is cls for c in ast.walk(m.tree) if isinstance(c, ast.ClassDef))), self.mod)
        return self._home[k]

    # ---- calls -------------------------------------------------------------------------------------------------
    def method(self, inst: Inst, name: str, args: Sequence[object], kw: Optional[Dict[str, object]] = None):
        r = mro_lookup(self.home(inst.cls), inst.cls, name)
        if r is None:
            raise Unsupported(f"{inst.cls.name}.{name} not found")
        owner, target = r
        if isinstance(target, (ast.FunctionDef, ast.AsyncFunctionDef)):
            if any(dotted(d) in ("property", "classmethod", "staticmethod") for d in target.decorator_list):
                raise Unsupported(f"decorated method {inst.cls.name}.{name}")
            return self.func(target, [inst] + list(args), kw)
        d = dotted(target)   # class-level alias: fromString = int
        if d in _PURE:
            return self._pure(d, list(args))
        raise Unsupported(f"{inst.cls.name}.{name} = {src(target)}")

    def construct(self, cls: ast.ClassDef, args: Sequence[object], kw: Optional[Dict[str, object]] = None) -> Inst:
        o = Inst(cls)
        if mro_lookup(self.home(cls), cls, "__init__") is not None:
            self.method(o, "__init__", args, kw)
        elif args or kw:
            raise Raised("TypeError")
        return o

    def func(self, f: ast.FunctionDef, args: Sequence[object], kw: Optional[Dict[str, object]] = None):
        self.depth += 1
        if self.depth > 60:
            raise Unsupported("call depth")
        try:
            a = f.args
            if a.vararg or a.kwarg or a.posonlyargs:
                raise Unsupported("signature of " + f.name)
            params = [p.arg for p in a.args]
            if len(args) > len(params):
                raise Raised("TypeError")
            env: Dict[str, object] = dict(zip(params, args))
            for k, v in (kw or {}).items():
                if k in env or k not in params + [p.arg for p in a.kwonlyargs]:
                    raise Raised("TypeError")
                env[k] = v
            defaults = dict(zip(params[len(params) - len(a.defaults):], a.defaults))
            for p in params:
                if p not in env:
                    if p not in defaults:
                        raise Raised("TypeError")
                    env[p] = self.expr(defaults[p], {})
            for p, d in zip(a.kwonlyargs, a.kw_defaults):
                if p.arg not in env:
                    if d is None:
                        raise Raised("TypeError")
                    env[p.arg] = self.expr(d, {})
            r = self.block(f.body, env)
            return r[1] if r and r[0] == "return" else None
        finally:
            self.depth -= 1

    def _pure(self, name: str, args: List[object]):
        try:
            return _PURE[name](*args)
        except _PY_ERRORS as e:
            raise Raised(_err_name(e))

    # ---- statements --------------------------------------------------------------------------------------------
    def block(self, stmts, env):
        for st in stmts:
            r = self.stmt(st, env)
            if r is not None:
                return r
        return None

    def _tick(self):
        self.fuel -= 1
        if self.fuel <= 0:
            raise Unsupported("evaluation budget exhausted (possible non-termination)")

    def store(self, t, v, env):
        if isinstance(t, ast.Name):
            env[t.id] = v
        elif isinstance(t, ast.Attribute):
            o = self.expr(t.value, env)
            if not isinstance(o, Inst):
                raise Unsupported("attribute store on " + src(t.value))
            o.fields[t.attr] = v
        elif isinstance(t, (ast.Tuple, ast.List)):
            try:
                vs = list(v)
            except TypeError:
                raise Raised("TypeError")
            if len(vs) != len(t.elts):
                raise Raised("ValueError")
            for e, x in zip(t.elts, vs):
                self.store(e, x, env)
        elif isinstance(t, ast.Subscript) and not isinstance(t.slice, ast.Slice):
            o = self.expr(t.value, env)
            k = self.expr(t.slice, env)
            if not isinstance(o, (list, dict)):
                raise Unsupported("subscript store on " + src(t.value))
            try:
                o[k] = v
            except _PY_ERRORS as e:
                raise Raised(_err_name(e))
        else:
            raise Unsupported("assignment target " + src(t))

    def stmt(self, st, env):
        self._tick()
        if isinstance(st, ast.Expr):
            if not isinstance(st.value, ast.Constant):
                self.expr(st.value, env)
            return None
        if isinstance(st, ast.Pass):
            return None
        if isinstance(st, ast.Assign):
            v = self.expr(st.value, env)
            for t in st.targets:
                self.store(t, v, env)
            return None
        if isinstance(st, ast.AnnAssign):
            if st.value is not None:
                self.store(st.target, self.expr(st.value, env), env)
            return None
        if isinstance(st, ast.AugAssign):
            cur = self.expr(ast.copy_location(_load(st.target), st.target), env)
            v = self._binop(st.op, cur, self.expr(st.value, env))
            self.store(st.target, v, env)
            return None
        if isinstance(st, ast.Return):
            return ("return", None if st.value is None else self.expr(st.value, env))
        if isinstance(st, ast.Break):
            return ("break", None)
        if isinstance(st, ast.Continue):
            return ("continue", None)
        if isinstance(st, ast.If):
            return self.block(st.body if self.truth(self.expr(st.test, env)) else st.orelse, env)
        if isinstance(st, ast.For):
            it = self.expr(st.iter, env)
            if not isinstance(it, (list, tuple, range, bytes, str, dict, set, bytearray)) and type(it).__name__ not in ("dict_items", "dict_keys", "dict_values", "enumerate", "zip", "reversed"):
                raise Raised("TypeError") if isinstance(it, (int, float, type(None))) else Unsupported("iteration over " + type(it).__name__)
            broke = False
            for x in list(it):
                self._tick()
                self.store(st.target, x, env)
                r = self.block(st.body, env)
                if r is not None:
                    if r[0] == "break":
                        broke = True
                        break
                    if r[0] == "return":
                        return r
            if not broke and st.orelse:
                return self.block(st.orelse, env)
            return None
        if isinstance(st, ast.While):
            while self.truth(self.expr(st.test, env)):
                self._tick()
                r = self.block(st.body, env)
                if r is not None:
                    if r[0] == "break":
                        return None
                    if r[0] == "return":
                        return r
            return self.block(st.orelse, env) if st.orelse else None
        if isinstance(st, ast.Raise):
            if st.exc is None:
                cur = env.get("<exc>")
                if cur is None:
                    raise Unsupported("bare raise outside handler")
                raise Raised(str(cur))
            e = st.exc.func if isinstance(st.exc, ast.Call) else st.exc
            raise Raised((dotted(e) or "?").split(".")[-1] if dotted(e) != "struct.error" else "struct.error")
        if isinstance(st, ast.Try):
            try:
                try:
                    r = self.block(st.body, env)
                    if r is None and st.orelse:
                        r = self.block(st.orelse, env)
                except Raised as ex:
                    for h in st.handlers:
                        if _handler_matches(h, ex.name):
                            if h.name:
                                env[h.name] = ex
                            env["<exc>"] = ex.name
                            r = self.block(h.body, env)
                            break
                    else:
                        raise
            finally:
                if st.finalbody:
                    fr = self.block(st.finalbody, env)
                    if fr is not None:
                        return fr
            return r
        if isinstance(st, (ast.FunctionDef, ast.Import, ast.ImportFrom)):
            raise Unsupported("statement " + type(st).__name__)
        raise Unsupported("statement " + type(st).__name__)

    # ---- expressions -------------------------------------------------------------------------------------------
    @staticmethod
    def truth(v) -> bool:
        return True if isinstance(v, (Inst, _Bound, _ClassRef)) else bool(v)

    def _binop(self, op, a, b):
        if isinstance(a, (Inst, _Bound, _ClassRef)) or isinstance(b, (Inst, _Bound, _ClassRef)):
            raise Unsupported("operator on instance")
        try:
            if isinstance(op, ast.Add):
                return a + b
            if isinstance(op, ast.Sub):
                return a - b
            if isinstance(op, ast.Mult):
                if isinstance(a, int) and isinstance(b, int) or not (isinstance(a, int) or isinstance(b, int)) or max(abs(a) if isinstance(a, int) else 0, abs(b) if isinstance(b, int) else 0) < 1 << 20:
                    return a * b
                raise Unsupported("huge repetition")
            if isinstance(op, ast.Mod):
                return a % b
            if isinstance(op, ast.FloorDiv):
                return a // b
            if isinstance(op, ast.Div):
                return a / b
            if isinstance(op, ast.LShift) and isinstance(b, int) and b < 4096:
                return a << b
            if isinstance(op, ast.RShift):
                return a >> b
            if isinstance(op, ast.BitAnd):
                return a & b
            if isinstance(op, ast.BitOr):
                return a | b
            if isinstance(op, ast.BitXor):
                return a ^ b
            if isinstance(op, ast.Pow) and isinstance(b, int) and abs(b) < 4096:
                return a ** b
        except _PY_ERRORS as e:
            raise Raised(_err_name(e))
        raise Unsupported("operator " + type(op).__name__)

    def expr(self, n, env):
        if isinstance(n, ast.Constant):
            return n.value
        if isinstance(n, ast.Name):
            if n.id in env:
                return env[n.id]
            if n.id in self.consts:
                return self.consts[n.id]
            if n.id in _TYPES:
                return _TYPES[n.id]
            c = self.find(n.id)
            if isinstance(c, ast.ClassDef):
                return _ClassRef(c)
            if n.id == "NotImplemented":
                return NotImplemented
            raise Unsupported("name " + n.id)
        if isinstance(n, ast.Tuple):
            return tuple(self.expr(e, env) for e in n.elts)
        if isinstance(n, ast.List):
            return [self.expr(e, env) for e in n.elts]
        if isinstance(n, ast.Dict):
            return {self.expr(k, env): self.expr(v, env) for k, v in zip(n.keys, n.values)}
        if isinstance(n, ast.JoinedStr):
            raise Unsupported("f-string value")
        if isinstance(n, ast.Attribute):
            o = self.expr(n.value, env)
            if isinstance(o, Inst):
                if n.attr in o.fields:
                    return o.fields[n.attr]
                if n.attr == "__dict__":
                    return o.fields
                r = mro_lookup(self.home(o.cls), o.cls, n.attr)
                if r is None:
                    raise Raised("AttributeError")
                if isinstance(r[1], (ast.FunctionDef, ast.AsyncFunctionDef)):
                    return _Bound(o, n.attr)
                if isinstance(r[1], ast.Name) and r[1].id in _TYPES:      # class-level alias such as  fromString = int
                    return _TYPES[r[1].id]
                v = class_const(self.home(o.cls), o.cls, n.attr, self.consts)
                if v is None and not (isinstance(r[1], ast.Constant) and r[1].value is None):
                    raise Unsupported(f"class attribute {o.cls.name}.{n.attr}")
                return v
            if isinstance(o, _ClassRef):
                v = class_const(self.home(o.cls), o.cls, n.attr, self.consts)
                if v is None:
                    raise Unsupported(f"class attribute {o.cls.name}.{n.attr}")
                return v
            for types, names in _OBJ_METHODS.items():
                if isinstance(o, types) and n.attr in names:
                    return getattr(o, n.attr)
            raise Raised("AttributeError") if isinstance(o, (int, float, type(None), bool)) else Unsupported("attribute " + src(n))
        if isinstance(n, ast.Subscript):
            o = self.expr(n.value, env)
            if isinstance(o, (Inst, _Bound, _ClassRef)):
                raise Unsupported("subscript on instance")
            try:
                if isinstance(n.slice, ast.Slice):
                    lo = self.expr(n.slice.lower, env) if n.slice.lower else None
                    hi = self.expr(n.slice.upper, env) if n.slice.upper else None
                    stp = self.expr(n.slice.step, env) if n.slice.step else None
                    return o[lo:hi:stp]
                return o[self.expr(n.slice, env)]
            except _PY_ERRORS as e:
                raise Raised(_err_name(e))
        if isinstance(n, ast.UnaryOp):
            v = self.expr(n.operand, env)
            if isinstance(n.op, ast.Not):
                return not self.truth(v)
            try:
                if isinstance(n.op, ast.USub):
                    return -v
                if isinstance(n.op, ast.UAdd):
                    return +v
                if isinstance(n.op, ast.Invert):
                    return ~v
            except TypeError:
                raise Raised("TypeError")
            raise Unsupported("unary")
        if isinstance(n, ast.BoolOp):
            v = None
            for e in n.values:
                v = self.expr(e, env)
                if isinstance(n.op, ast.And) and not self.truth(v):
                    return v
                if isinstance(n.op, ast.Or) and self.truth(v):
                    return v
            return v
        if isinstance(n, ast.IfExp):
            return self.expr(n.body if self.truth(self.expr(n.test, env)) else n.orelse, env)
        if isinstance(n, ast.BinOp):
            return self._binop(n.op, self.expr(n.left, env), self.expr(n.right, env))
        if isinstance(n, ast.Compare):
            left = self.expr(n.left, env)
            for op, rn in zip(n.ops, n.comparators):
                right = self.expr(rn, env)
                try:
                    ok = {ast.Eq: lambda: left == right, ast.NotEq: lambda: left != right, ast.Lt: lambda: left < right,
                          ast.LtE: lambda: left <= right, ast.Gt: lambda: left > right, ast.GtE: lambda: left >= right,
                          ast.Is: lambda: left is right, ast.IsNot: lambda: left is not right, ast.In: lambda: left in right,
                          ast.NotIn: lambda: left not in right}[type(op)]()
                except TypeError:
                    raise Raised("TypeError")
                if not ok:
                    return False
                left = right
            return True
        if isinstance(n, ast.ListComp) and len(n.generators) == 1 and not n.generators[0].is_async:
            gen = n.generators[0]
            out = []
            env2 = dict(env)
            for x in list(self.expr(gen.iter, env)):
                self._tick()
                self.store(gen.target, x, env2)
                if all(self.truth(self.expr(c, env2)) for c in gen.ifs):
                    out.append(self.expr(n.elt, env2))
            return out
        if isinstance(n, ast.Call):
            return self.call(n, env)
        raise Unsupported("expression " + type(n).__name__)

    def call(self, n: ast.Call, env):
        if any(isinstance(a, ast.Starred) for a in n.args) or any(k.arg is None for k in n.keywords):
            raise Unsupported("star args")
        fname = dotted(n.func)
        if fname == "isinstance" and len(n.args) == 2:
            v = self.expr(n.args[0], env)
            ts = n.args[1].elts if isinstance(n.args[1], ast.Tuple) else [n.args[1]]
            pys = []
            for t in ts:
                d = dotted(t)
                if d in _TYPES:
                    pys.append(_TYPES[d])
                else:
                    c = self.find(d or "")
                    if isinstance(c, ast.ClassDef):
                        if isinstance(v, Inst) and _derives(self.home(v.cls), v.cls, c.name):
                            return True
                        continue
                    raise Unsupported("isinstance against " + src(t))
            return isinstance(v, tuple(pys)) if pys else False
        if fname in _NOOPS:
            for a in n.args:
                self.expr(a, env)       # operands are evaluated eagerly (a bad %-format raises here)
            return None
        args = [self.expr(a, env) for a in n.args]
        kw = {k.arg: self.expr(k.value, env) for k in n.keywords}
        if fname in self.helpers and fname not in env:
            try:
                return self.helpers[fname](*args, **kw)
            except _PY_ERRORS as e:
                raise Raised(_err_name(e))
        if fname in _STRUCT and fname not in env:
            try:
                return _STRUCT[fname](*args)
            except _PY_ERRORS as e:
                raise Raised(_err_name(e))
        if fname == "BytesIO" or fname == "io.BytesIO":
            return io.BytesIO(*args)
        if isinstance(n.func, ast.Name):
            if n.func.id in env:
                callee = env[n.func.id]
                return self._call_value(callee, args, kw, src(n.func))
            if n.func.id in _PURE and not kw:
                return self._pure(n.func.id, args)
            d = self.find(n.func.id)
            if isinstance(d, ast.FunctionDef):
                return self.func(d, args, kw)
            if isinstance(d, ast.ClassDef):
                return self.construct(d, args, kw)
            raise Unsupported("call " + n.func.id)
        if isinstance(n.func, ast.Attribute):
            f = n.func
            # Base.method(self, x)
            if isinstance(f.value, ast.Name) and f.value.id not in env:
                c = self.find(f.value.id)
                if isinstance(c, ast.ClassDef) and args and isinstance(args[0], Inst):
                    r = mro_lookup(self.home(c), c, f.attr)
                    if r and isinstance(r[1], ast.FunctionDef):
                        return self.func(r[1], args, kw)
                raise Unsupported("call " + src(f))
            recv = self.expr(f.value, env)
            if isinstance(recv, Inst):
                if f.attr in recv.fields:
                    return self._call_value(recv.fields[f.attr], args, kw, src(f))
                return self.method(recv, f.attr, args, kw)
            for types, names in _OBJ_METHODS.items():
                if isinstance(recv, types) and f.attr in names:
                    try:
                        return getattr(recv, f.attr)(*args, **kw)
                    except _PY_ERRORS as e:
                        raise Raised(_err_name(e))
            if isinstance(recv, (int, float, type(None), bool, tuple)):
                raise Raised("AttributeError")
            raise Unsupported("call " + src(f))
        raise Unsupported("call " + src(n.func))

    def _call_value(self, callee, args, kw, what):
        if isinstance(callee, _Bound):
            return self.method(callee.inst, callee.name, args, kw)
        if isinstance(callee, _ClassRef):
            return self.construct(callee.cls, args, kw)
        if callable(callee) and type(callee).__name__ == "builtin_function_or_method" and getattr(callee, "__self__", None) is not None \
                and any(isinstance(callee.__self__, t) and callee.__name__ in names for t, names in _OBJ_METHODS.items()):
            try:
                return callee(*args, **kw)
            except _PY_ERRORS as e:
                raise Raised(_err_name(e))
        if isinstance(callee, type) and callee in _TYPES.values():
            try:
                return callee(*args, **kw)
            except _PY_ERRORS as e:
                raise Raised(_err_name(e))
        raise Unsupported("call of value " + what)


def _load(t: ast.AST) -> ast.AST:
    e = fresh(t)
    for x in ast.walk(e):
        if hasattr(x, "ctx"):
            x.ctx = ast.Load()
    return e


_EXC_PARENT = {"struct.error": "Exception", "UnicodeDecodeError": "UnicodeError", "UnicodeEncodeError": "UnicodeError", "UnicodeError": "ValueError",
               "KeyError": "LookupError", "IndexError": "LookupError", "ZeroDivisionError": "ArithmeticError", "OverflowError": "ArithmeticError",
               "Exception": "BaseException", "BaseException": None}


def _handler_matches(h: ast.ExceptHandler, name: str) -> bool:
    if h.type is None:
        return True
    ts = h.type.elts if isinstance(h.type, ast.Tuple) else [h.type]
    wanted = {(dotted(t) or "?") if dotted(t) == "struct.error" else (dotted(t) or "?").split(".")[-1] for t in ts}
    cur: Optional[str] = name
    for _ in range(8):
        if cur is None:
            return False
        if cur in wanted or (cur == "struct.error" and "error" in wanted):
            return True
        cur = _EXC_PARENT.get(cur, "Exception")
    return False


def _derives(mod, cls: ast.ClassDef, name: str, seen=()) -> bool:
    if cls.name == name:
        return True
    from sa.source import base_names
    for b in base_names(cls):
        c = mod.find(b)
        if isinstance(c, ast.ClassDef) and b not in seen and _derives(mod, c, name, seen + (b,)):
            return True
    return False


def run_eval(fn):
    """-> ("value", v) | ("raised", name) | ("unsupported", why)."""
    try:
        return "value", fn()
    except Raised as ex:
        return "raised", ex.name
    except Unsupported as ex:
        return "unsupported", str(ex)
    except RecursionError:
        return "unsupported", "recursion limit of the analyser"


# ---- DNS: the encode/decode family ----------------------------------------------------------------------------------

def codec_classes(mod) -> List[ast.ClassDef]:
    """Module-level classes that define (themselves) ``encode`` or ``decode``."""
    out = []
    for n in mod.tree.body:
        if isinstance(n, ast.ClassDef):
            ms = methods(n)
            if "encode" in ms or "decode" in ms:
                out.append(n)
    return out


def module_classes(mod) -> Dict[str, ast.ClassDef]:
    return {n.name: n for n in mod.tree.body if isinstance(n, ast.ClassDef)}
