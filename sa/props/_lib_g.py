"""Helpers shared by the checkers c30..c34 (AMP / DNS / RFC 1982 batch).  Stdlib only; nothing here imports twisted."""
from __future__ import annotations

import ast
import decimal
import struct
from typing import Callable, Dict, Iterable, List, Optional, Sequence, Set, Tuple

from sa.astx import NotConst, body_walk, const_eval, dotted, lincmp, src, walk_local
from sa.source import AnalysisError, class_assigns, methods, mro_lookup


# ---- single-assignment locals and linear normal forms -------------------------------------------------------------

def single_defs(func: ast.AST) -> Dict[str, ast.expr]:
    """Locals bound exactly once in ``func`` by a plain ``name = expr`` (parameters, loop targets, tuple
    unpacking, augmented assignment or a second binding disqualify the name)."""
    counts: Dict[str, int] = {}
    defs: Dict[str, ast.expr] = {}
    a = getattr(func, "args", None)
    if a is not None:
        for p in list(a.args) + list(a.kwonlyargs) + list(a.posonlyargs) + ([a.vararg] if a.vararg else []) + ([a.kwarg] if a.kwarg else []):
            counts[p.arg] = 2
    for n in body_walk(func):
        if isinstance(n, ast.Name) and isinstance(n.ctx, (ast.Store, ast.Del)):
            counts[n.id] = counts.get(n.id, 0) + 1
        if isinstance(n, ast.AugAssign) and isinstance(n.target, ast.Name):
            counts[n.target.id] = counts.get(n.target.id, 0) + 1
        if isinstance(n, ast.Assign) and len(n.targets) == 1 and isinstance(n.targets[0], ast.Name):
            defs[n.targets[0].id] = n.value
        if isinstance(n, ast.AnnAssign) and isinstance(n.target, ast.Name) and n.value is not None:
            defs[n.target.id] = n.value
    return {k: v for k, v in defs.items() if counts.get(k) == 1}


def fresh(expr: ast.AST) -> ast.AST:
    """A parent-free copy of an expression (module nodes carry ``_parent`` links, so ``copy.deepcopy`` would
    drag the whole module along)."""
    return ast.parse(ast.unparse(expr), mode="eval").body


def expand(expr: ast.AST, defs: Dict[str, ast.expr], depth: int = 8) -> ast.AST:
    """Copy of ``expr`` with single-assignment locals replaced by their defining expressions."""
    class T(ast.NodeTransformer):
        def __init__(self, d):
            self.d = d

        def visit_Name(self, node):
            if isinstance(node.ctx, ast.Load) and node.id in defs and self.d > 0:
                return T(self.d - 1).visit(fresh(defs[node.id]))
            return node

    return T(depth).visit(fresh(expr))


def attrs_to_names(expr: ast.AST, recv: str = "self") -> ast.AST:
    """Parent-free copy of ``expr`` in which ``<recv>.<attr>`` is replaced by the plain name ``<recv>__<attr>`` (so that the
    whitelisted evaluators can bind it through their environment)."""
    class T(ast.NodeTransformer):
        def visit_Attribute(self, node):
            if isinstance(node.value, ast.Name) and node.value.id == recv:
                return ast.Name(id=f"{recv}__{node.attr}", ctx=ast.Load())
            return self.generic_visit(node)

    return ast.fix_missing_locations(T().visit(fresh(expr)))


def norm_cmp(test: ast.AST, defs: Dict[str, ast.expr], env: Optional[Dict[str, object]] = None, negate: bool = False):
    """``lincmp`` of the test after substituting single-assignment locals; None if not a linear comparison."""
    return lincmp(expand(test, defs), env or {}, negate)


def lin_equal(e1: ast.AST, e2: ast.AST, defs: Dict[str, ast.expr], env: Optional[Dict[str, object]] = None) -> bool:
    """e1 and e2 are the same linear integer expression (after substitution of single-assignment locals)."""
    cmp = ast.Compare(left=expand(e1, defs), ops=[ast.GtE()], comparators=[expand(e2, defs)])
    r = lincmp(cmp, env or {})
    return r is not None and not r[0] and r[1] == 0


def lin_expect(terms: Dict[str, int], c: int):
    return frozenset((k, v) for k, v in terms.items() if v), c


def fmt_lin(r) -> str:
    if r is None:
        return "<not a linear comparison>"
    terms, c = r
    parts = []
    for k, v in sorted(terms):
        parts.append(("" if v == 1 else ("-" if v == -1 else f"{v}*")) + k)
    return (" + ".join(parts) or "0").replace("+ -", "- ") + f" >= {c}"


def must_pass(g, srcs: Iterable[int], via: Iterable[int], to: Optional[Iterable[int]] = None, exc: bool = False):
    """Like CFG.must_pass, but a start node that is itself a ``via`` node counts as passing it.  Returns a witness
    path avoiding ``via`` or None."""
    via = set(via)
    starts = [s for s in srcs if s not in via]
    if not starts:
        return None
    return g.must_pass(starts, via, to=to, exc=exc, strict=False)


def is_self_attr(node: ast.AST, name: Optional[str] = None, recv: str = "self") -> bool:
    return (isinstance(node, ast.Attribute) and isinstance(node.value, ast.Name) and node.value.id == recv
            and (name is None or node.attr == name))


def const_of(node: ast.AST, env: Dict[str, object]):
    try:
        return const_eval(node, env)
    except NotConst:
        return None


def class_const(mod, cls: ast.ClassDef, name: str, env: Dict[str, object]):
    """Value of a class-level constant (following bases in the module); other class constants of the same
    class may be referenced.  Returns None when absent / not constant."""
    r = mro_lookup(mod, cls, name)
    if r is None or isinstance(r[1], (ast.FunctionDef, ast.AsyncFunctionDef)):
        return None
    owner, expr = r
    local = dict(env)
    for k, v in class_assigns(owner).items():
        if k == name:
            continue
        try:
            local[k] = const_eval(v, local)
        except NotConst:
            pass
    try:
        return const_eval(expr, local)
    except NotConst:
        return None


def struct_field_count(fmt: str) -> int:
    """Number of values produced by struct.unpack(fmt, ...)."""
    return len(struct.unpack(fmt, b"\x00" * struct.calcsize(fmt)))


def struct_codes(fmt: str) -> List[str]:
    """Expanded per-value format codes ("!H2B" -> ["H","B","B"])."""
    out: List[str] = []
    num = ""
    for ch in fmt:
        if ch in "@=<>!":
            continue
        if ch.isdigit():
            num += ch
            continue
        if ch.isspace():
            continue
        n = int(num) if num else 1
        num = ""
        if ch in "sp":
            out.append(f"{n}{ch}")
        elif ch == "x":
            continue
        else:
            out.extend([ch] * n)
    return out


# ---- a whitelisted evaluator for tiny pure conversion functions ---------------------------------------------------

class Unsupported(Exception):
    pass


class Raised(Exception):
    def __init__(self, name: str):
        super().__init__(name)
        self.name = name


class Inst:
    """An instance of a class of the analysed module (only its class name matters)."""

    def __init__(self, cls: ast.ClassDef):
        self.cls = cls


_TYPES = {"int": int, "float": float, "str": str, "bytes": bytes, "bool": bool, "list": list, "tuple": tuple, "dict": dict,
          "decimal.Decimal": decimal.Decimal}
_PURE = {"int": int, "float": float, "str": str, "repr": repr, "len": len, "bytes": bytes, "bool": bool, "abs": abs, "ord": ord, "chr": chr}
_METHODS = {"encode", "decode", "lower", "upper", "strip", "join", "startswith", "endswith"}


class MiniEval:
    """Evaluates small pure methods of classes of one module: literals, arithmetic, %-formatting, comparisons,
    if/return/raise, isinstance on builtin types, a few pure builtins and str/bytes methods, calls of methods of
    module classes (``self.m(x)``, ``Base.m(self, x)``) and class-level aliases such as ``fromString = int``."""

    def __init__(self, mod, helpers: Optional[Dict[str, Callable]] = None):
        self.mod = mod
        self.helpers = dict(helpers or {})
        self.depth = 0

    def method(self, inst: Inst, name: str, args: Sequence[object]):
        r = mro_lookup(self.mod, inst.cls, name)
        if r is None:
            raise Unsupported(f"{inst.cls.name}.{name} not found")
        owner, target = r
        if isinstance(target, (ast.FunctionDef, ast.AsyncFunctionDef)):
            return self.func(target, [inst] + list(args))
        # class-level alias: fromString = int
        d = dotted(target)
        if d in _PURE:
            return self._builtin(d, list(args))
        raise Unsupported(f"{inst.cls.name}.{name} = {src(target)}")

    def func(self, f: ast.FunctionDef, args: Sequence[object]):
        self.depth += 1
        if self.depth > 40:
            raise Unsupported("call depth")
        try:
            params = [p.arg for p in f.args.args]
            if len(args) > len(params) or f.args.vararg or f.args.kwarg:
                raise Unsupported("signature of " + f.name)
            env: Dict[str, object] = dict(zip(params, args))
            defaults = dict(zip(params[len(params) - len(f.args.defaults):], f.args.defaults))
            for p in params[len(args):]:
                if p not in defaults:
                    raise Raised("TypeError")
                env[p] = self.expr(defaults[p], {})
            r = self.block(f.body, env)
            return r[1] if r else None
        finally:
            self.depth -= 1

    def block(self, stmts, env):
        for st in stmts:
            r = self.stmt(st, env)
            if r is not None:
                return r
        return None

    def stmt(self, st, env):
        if isinstance(st, ast.Expr):
            if not isinstance(st.value, ast.Constant):
                self.expr(st.value, env)
            return None
        if isinstance(st, ast.Pass):
            return None
        if isinstance(st, ast.Assign):
            v = self.expr(st.value, env)
            for t in st.targets:
                if not isinstance(t, ast.Name):
                    raise Unsupported("assignment target " + src(t))
                env[t.id] = v
            return None
        if isinstance(st, ast.Return):
            return ("return", None if st.value is None else self.expr(st.value, env))
        if isinstance(st, ast.If):
            return self.block(st.body if self.expr(st.test, env) else st.orelse, env)
        if isinstance(st, ast.Raise):
            e = st.exc.func if isinstance(st.exc, ast.Call) else st.exc
            raise Raised((dotted(e) or "?").split(".")[-1])
        raise Unsupported("statement " + type(st).__name__)

    def _builtin(self, name: str, args: List[object]):
        try:
            return _PURE[name](*args)
        except (ValueError, TypeError, OverflowError, UnicodeError) as e:
            raise Raised(type(e).__name__)

    def expr(self, n, env):
        if isinstance(n, ast.Constant):
            return n.value
        if isinstance(n, ast.Name):
            if n.id in env:
                return env[n.id]
            raise Unsupported("name " + n.id)
        if isinstance(n, ast.Tuple):
            return tuple(self.expr(e, env) for e in n.elts)
        if isinstance(n, ast.List):
            return [self.expr(e, env) for e in n.elts]
        if isinstance(n, ast.JoinedStr):
            raise Unsupported("f-string value")
        if isinstance(n, ast.UnaryOp):
            v = self.expr(n.operand, env)
            if isinstance(n.op, ast.Not):
                return not v
            if isinstance(n.op, ast.USub) and isinstance(v, (int, float)):
                return -v
            raise Unsupported("unary")
        if isinstance(n, ast.BoolOp):
            v = None
            for e in n.values:
                v = self.expr(e, env)
                if isinstance(n.op, ast.And) and not v:
                    return v
                if isinstance(n.op, ast.Or) and v:
                    return v
            return v
        if isinstance(n, ast.IfExp):
            return self.expr(n.body if self.expr(n.test, env) else n.orelse, env)
        if isinstance(n, ast.BinOp):
            a, b = self.expr(n.left, env), self.expr(n.right, env)
            if isinstance(a, Inst) or isinstance(b, Inst):
                raise Unsupported("operator on instance")
            try:
                if isinstance(n.op, ast.Add):
                    return a + b
                if isinstance(n.op, ast.Sub):
                    return a - b
                if isinstance(n.op, ast.Mult):
                    return a * b
                if isinstance(n.op, ast.Mod):
                    return a % b
                if isinstance(n.op, ast.FloorDiv):
                    return a // b
            except (TypeError, ValueError, ZeroDivisionError, OverflowError) as e:
                raise Raised(type(e).__name__)
            raise Unsupported("operator")
        if isinstance(n, ast.Compare):
            left = self.expr(n.left, env)
            for op, rn in zip(n.ops, n.comparators):
                right = self.expr(rn, env)
                try:
                    ok = {ast.Eq: lambda: left == right, ast.NotEq: lambda: left != right, ast.Lt: lambda: left < right,
                          ast.LtE: lambda: left <= right, ast.Gt: lambda: left > right, ast.GtE: lambda: left >= right,
                          ast.Is: lambda: left is right, ast.IsNot: lambda: left is not right, ast.In: lambda: left in right,
                          ast.NotIn: lambda: left not in right}[type(op)]()
                except TypeError:
                    raise Raised("TypeError")
                if not ok:
                    return False
                left = right
            return True
        if isinstance(n, ast.Call):
            if any(isinstance(a, ast.Starred) for a in n.args) or any(k.arg is None for k in n.keywords):
                raise Unsupported("star args")
            fname = dotted(n.func)
            if fname == "isinstance" and len(n.args) == 2:
                v = self.expr(n.args[0], env)
                tn = dotted(n.args[1])
                ts = [dotted(e) for e in n.args[1].elts] if isinstance(n.args[1], ast.Tuple) else [tn]
                if not all(t in _TYPES for t in ts):
                    raise Unsupported("isinstance against " + src(n.args[1]))
                return isinstance(v, tuple(_TYPES[t] for t in ts))
            args = [self.expr(a, env) for a in n.args]
            if n.keywords:
                raise Unsupported("keyword arguments")
            if fname in self.helpers:
                try:
                    return self.helpers[fname](*args)
                except (ValueError, TypeError, ArithmeticError, UnicodeError) as e:
                    raise Raised(type(e).__name__)
            if fname in _PURE:
                return self._builtin(fname, args)
            if isinstance(n.func, ast.Attribute):
                f = n.func
                # Base.method(self, x)
                if isinstance(f.value, ast.Name) and f.value.id not in env:
                    c = self.mod.find(f.value.id)
                    if isinstance(c, ast.ClassDef) and args and isinstance(args[0], Inst):
                        r = mro_lookup(self.mod, c, f.attr)
                        if r and isinstance(r[1], ast.FunctionDef):
                            return self.func(r[1], args)
                    raise Unsupported("call " + src(f))
                recv = self.expr(f.value, env)
                if isinstance(recv, Inst):
                    return self.method(recv, f.attr, args)
                if isinstance(recv, (str, bytes)) and f.attr in _METHODS:
                    try:
                        return getattr(recv, f.attr)(*args)
                    except (UnicodeError, TypeError, ValueError, LookupError) as e:
                        raise Raised(type(e).__name__)
                raise Unsupported("call " + src(f))
            raise Unsupported("call " + src(n.func))
        raise Unsupported("expression " + type(n).__name__)


def run_eval(fn):
    """-> ("value", v) | ("raised", name) | ("unsupported", why)."""
    try:
        return "value", fn()
    except Raised as ex:
        return "raised", ex.name
    except Unsupported as ex:
        return "unsupported", str(ex)


# ---- DNS: the encode/decode family ----------------------------------------------------------------------------------

def codec_classes(mod) -> List[ast.ClassDef]:
    """Module-level classes that define (themselves) ``encode`` or ``decode``."""
    out = []
    for n in mod.tree.body:
        if isinstance(n, ast.ClassDef):
            ms = methods(n)
            if "encode" in ms or "decode" in ms:
                out.append(n)
    return out


def module_classes(mod) -> Dict[str, ast.ClassDef]:
    return {n.name: n for n in mod.tree.body if isinstance(n, ast.ClassDef)}
