"""Helpers shared by the checkers c30..c34 (AMP / DNS / RFC 1982 batch).  Stdlib only; nothing here imports twisted."""
from __future__ import annotations

import ast
import datetime
import decimal
import io
import itertools
import struct
import threading
from typing import Callable, Dict, Iterable, List, Optional, Sequence, Set, Tuple

from sa.astx import NotConst, body_walk, const_eval, dotted, lincmp, src, walk_local
from sa.source import AnalysisError, class_assigns, methods, mro_lookup


# ---- single-assignment locals and linear normal forms -------------------------------------------------------------

def single_defs(func: ast.AST) -> Dict[str, ast.expr]:
    """Locals bound exactly once in ``func`` by a plain ``name = expr`` (parameters, loop targets, tuple
    unpacking, augmented assignment or a second binding disqualify the name)."""
    counts: Dict[str, int] = {}
    defs: Dict[str, ast.expr] = {}
    a = getattr(func, "args", None)
    if a is not None:
        for p in list(a.args) + list(a.kwonlyargs) + list(a.posonlyargs) + ([a.vararg] if a.vararg else []) + ([a.kwarg] if a.kwarg else []):
            counts[p.arg] = 2
    for n in body_walk(func):
        if isinstance(n, ast.Name) and isinstance(n.ctx, (ast.Store, ast.Del)):
            counts[n.id] = counts.get(n.id, 0) + 1
        if isinstance(n, ast.AugAssign) and isinstance(n.target, ast.Name):
            counts[n.target.id] = counts.get(n.target.id, 0) + 1
        if isinstance(n, ast.Assign) and len(n.targets) == 1 and isinstance(n.targets[0], ast.Name):
            defs[n.targets[0].id] = n.value
        if isinstance(n, ast.AnnAssign) and isinstance(n.target, ast.Name) and n.value is not None:
            defs[n.target.id] = n.value
        if isinstance(n, ast.NamedExpr) and isinstance(n.target, ast.Name):
            defs[n.target.id] = n.value          # `(name := expr)` in a test or a loop header binds the name just as `name = expr` does
    return {k: v for k, v in defs.items() if counts.get(k) == 1}


def fresh(expr: ast.AST) -> ast.AST:
    """A parent-free copy of an expression (module nodes carry ``_parent`` links, so ``copy.deepcopy`` would
    drag the whole module along)."""
    return ast.parse(ast.unparse(expr), mode="eval").body


def fresh_stmts(stmts: Sequence[ast.stmt]) -> List[ast.stmt]:
    return ast.parse("\n".join(ast.unparse(s) for s in stmts)).body if stmts else []


def link_parents(tree: ast.AST, parent=None) -> ast.AST:
    for n in ast.walk(tree):
        for c in ast.iter_child_nodes(n):
            c._parent = n          # type: ignore[attr-defined]
    tree._parent = parent          # type: ignore[attr-defined]
    return tree


class _NoInline(Exception):
    pass


def _terminates(stmts) -> bool:
    """The block never falls through to what follows it."""
    if not stmts:
        return False
    last = stmts[-1]
    if isinstance(last, (ast.Return, ast.Raise, ast.Continue, ast.Break)):
        return True
    if isinstance(last, ast.If):
        return bool(last.orelse) and _terminates(last.body) and _terminates(last.orelse)
    if isinstance(last, ast.Try) and not last.finalbody:
        return _terminates(last.orelse or last.body) and all(_terminates(h.body) for h in last.handlers) and (bool(last.orelse) or _terminates(last.body))
    return False


def normalise_local_shapes(f: ast.FunctionDef) -> Tuple[ast.FunctionDef, List[str]]:
    """A view of `f` with two local spellings read as what they abbreviate:
    * `for T in iter(G, S): BODY` (no else clause)  ->  `while True: T = G(); if T == S: break; BODY`;
    * a nested `def g(p..): return EXPR` that is only ever called (and never re-bound) -> its calls replaced by EXPR with the arguments substituted
      (a closure reads the enclosing variables when it is called, which is exactly where the expression now stands).
    -> (view, what was done).  The original tree is never modified."""
    if not any(isinstance(x, ast.FunctionDef) and x is not f for x in ast.walk(f)) and not any(
            isinstance(x, ast.For) and isinstance(x.iter, ast.Call) and isinstance(x.iter.func, ast.Name) and x.iter.func.id == "iter" and len(x.iter.args) == 2 for x in ast.walk(f)):
        return f, []
    done: List[str] = []
    view = ast.parse(ast.unparse(f)).body[0]

    class Loops(ast.NodeTransformer):
        def visit_FunctionDef(self, node):
            if node is view:
                return self.generic_visit(node)
            return node

        def visit_For(self, node):
            self.generic_visit(node)
            it = node.iter
            if (isinstance(it, ast.Call) and isinstance(it.func, ast.Name) and it.func.id == "iter" and len(it.args) == 2 and not it.keywords and not node.orelse
                    and isinstance(it.args[0], (ast.Name, ast.Attribute)) and all(isinstance(x, (ast.Name, ast.Attribute, ast.Constant, ast.Load, ast.UnaryOp, ast.USub)) for x in ast.walk(it.args[1]))):
                done.append("sentinel-iterator loop read as a while loop")
                step = ast.Assign(targets=[node.target], value=ast.Call(func=it.args[0], args=[], keywords=[]), lineno=0)
                stop = ast.If(test=ast.Compare(left=fresh(ast.Expression(body=node.target).body) if False else ast.parse(ast.unparse(node.target), mode="eval").body, ops=[ast.Eq()], comparators=[it.args[1]]),
                              body=[ast.Break()], orelse=[])
                return ast.While(test=ast.Constant(value=True), body=[step, stop] + node.body, orelse=[])
            return node
    view = Loops().visit(view)
    view = ast.parse(ast.unparse(view)).body[0]

    # nested single-expression functions
    nested = [st for st in ast.walk(view) if isinstance(st, ast.FunctionDef) and st is not view]
    for g in nested:
        body = [st for st in g.body if not (isinstance(st, ast.Expr) and isinstance(st.value, ast.Constant))]
        a = g.args
        if g.decorator_list or len(body) != 1 or not isinstance(body[0], ast.Return) or body[0].value is None or a.vararg or a.kwarg or a.kwonlyargs or a.defaults or a.posonlyargs:
            continue
        params = [p.arg for p in a.args]
        uses = [x for x in ast.walk(view) if isinstance(x, ast.Name) and x.id == g.name]
        calls = [c for c in ast.walk(view) if isinstance(c, ast.Call) and isinstance(c.func, ast.Name) and c.func.id == g.name]
        if len(uses) != len(calls) or any(isinstance(x.ctx, ast.Store) for x in uses) or any(c.keywords or len(c.args) != len(params) for c in calls):
            continue
        if any(isinstance(x, ast.Name) and x.id == g.name for x in ast.walk(body[0].value)):
            continue        # recursive
        if any(not all(isinstance(x, (ast.Name, ast.Attribute, ast.Constant, ast.Load)) for x in ast.walk(arg)) for c in calls for arg in c.args):
            continue
        expr = body[0].value

        class Calls(ast.NodeTransformer):
            def visit_Call(self, node):
                self.generic_visit(node)
                if isinstance(node.func, ast.Name) and node.func.id == g.name:
                    m = dict(zip(params, node.args))

                    class P(ast.NodeTransformer):
                        def visit_Name(self, nn):
                            return fresh(m[nn.id]) if nn.id in m and isinstance(nn.ctx, ast.Load) else nn
                    return P().visit(fresh(expr))
                return node

        class Drop(ast.NodeTransformer):
            def visit_FunctionDef(self, node):
                if node.name == g.name and node is not view:
                    return None
                return self.generic_visit(node)
        view = Drop().visit(Calls().visit(view))
        view = ast.parse(ast.unparse(view)).body[0]
        done.append(f"local function {g.name}() read as the expression it returns")
    if not done:
        return f, []
    link_parents(view, getattr(f, "_parent", None))
    return view, done


def inline_module_helpers(mod, f: ast.FunctionDef, wanted, depth: int = 3) -> Tuple[ast.FunctionDef, List[str], List[str]]:
    """A view of `f` in which calls of private module-level helpers selected by `wanted(helper def)` are replaced by the helper's body with the
    arguments substituted (a `*args` parameter by the extra arguments of the call), at each call site on its own.  Handled positions of the call:
    an expression statement, the whole right-hand side of an assignment, `return H(..)`, and the test of an `if` (bare or under `not`).  A `return`
    inside the helper becomes, for an if-test, the caller's branch chosen by the returned constant; otherwise it must be in tail position.
    -> (view, names inlined, reasons for the call sites left alone).  The original tree is never modified."""
    inlined: List[str] = []
    refused: List[str] = []
    counter = [0]

    def helper_of(call):
        if not (isinstance(call, ast.Call) and isinstance(call.func, ast.Name) and call.func.id.startswith("_")):
            return None
        h = mod.find(call.func.id)
        if not isinstance(h, ast.FunctionDef) or h.decorator_list or not wanted(h):
            return None
        return h

    def body_for(h, call) -> List[ast.stmt]:
        a = h.args
        if a.kwonlyargs or a.kwarg or a.posonlyargs or call.keywords or any(isinstance(x, ast.Starred) for x in call.args):
            raise _NoInline("signature / call shape")
        if any(isinstance(x, (ast.Yield, ast.YieldFrom, ast.Await, ast.Global, ast.Nonlocal, ast.FunctionDef, ast.Lambda)) for st in h.body for x in ast.walk(st)):
            raise _NoInline("generator / nested function")
        params = [p.arg for p in a.args]
        nreq = len(params) - len(a.defaults)
        if len(call.args) < nreq or (len(call.args) > len(params) and a.vararg is None):
            raise _NoInline("arity")
        mapping: Dict[str, ast.expr] = {}
        for i, p in enumerate(params):
            mapping[p] = call.args[i] if i < len(call.args) else a.defaults[i - nreq]
        extra = list(call.args[len(params):])
        body = [st for st in h.body if not (isinstance(st, ast.Expr) and isinstance(st.value, ast.Constant) and isinstance(st.value.value, str))]
        stores = {x.id for st in body for x in ast.walk(st) if isinstance(x, ast.Name) and isinstance(x.ctx, (ast.Store, ast.Del))}
        if stores & set(params) or (a.vararg and a.vararg.arg in stores):
            raise _NoInline("a parameter is re-bound in the helper")
        # arguments must be simple enough to be evaluated at each use (names, attributes, constants)
        for e in list(mapping.values()) + extra:
            if not all(isinstance(x, (ast.Name, ast.Attribute, ast.Constant, ast.Load)) for x in ast.walk(e)):
                raise _NoInline("argument with effects")
        counter[0] += 1
        rename = {n: f"_{h.name.strip('_')}{counter[0]}_{n}" for n in stores}

        class Sub(ast.NodeTransformer):
            def visit_Name(self, node):
                if node.id in mapping and isinstance(node.ctx, ast.Load):
                    return fresh(mapping[node.id])
                if a.vararg and node.id == a.vararg.arg:
                    raise _NoInline("*args used other than by forwarding it")
                if node.id in rename:
                    return ast.Name(id=rename[node.id], ctx=node.ctx)
                return node

            def visit_Call(self, node):
                if a.vararg and any(isinstance(x, ast.Starred) and isinstance(x.value, ast.Name) and x.value.id == a.vararg.arg for x in node.args):
                    new_args = []
                    for x in node.args:
                        if isinstance(x, ast.Starred) and isinstance(x.value, ast.Name) and x.value.id == a.vararg.arg:
                            new_args.extend(fresh(e) for e in extra)
                        else:
                            new_args.append(self.visit(x))
                    node.func = self.visit(node.func)
                    node.args = new_args
                    node.keywords = [self.visit(k) for k in node.keywords]
                    return node
                return self.generic_visit(node)
        return [Sub().visit(st) for st in fresh_stmts(body)]

    def tail_assign(stmts, target: Optional[str]) -> List[ast.stmt]:
        """Every return is in tail position: replace it by an assignment to `target` (or drop it)."""
        out = list(stmts)
        for st in out[:-1]:
            if any(isinstance(x, ast.Return) for x in ast.walk(st)):
                raise _NoInline("return before the end of the helper")
        if not out:
            return out
        last = out[-1]
        if isinstance(last, ast.Return):
            out.pop()
            if target is not None:
                out.append(ast.Assign(targets=[ast.Name(id=target, ctx=ast.Store())], value=last.value or ast.Constant(value=None), lineno=0))
            return out
        if isinstance(last, ast.If):
            last.body = tail_assign(last.body, target) or [ast.Pass()]
            last.orelse = tail_assign(last.orelse, target)
            return out
        if isinstance(last, ast.Try) and not last.finalbody:
            if last.orelse:
                if any(isinstance(x, ast.Return) for st in last.body for x in ast.walk(st)):
                    raise _NoInline("return in a try body that has an else clause")
                last.orelse = tail_assign(last.orelse, target) or [ast.Pass()]
            else:
                last.body = tail_assign(last.body, target) or [ast.Pass()]
            for hd in last.handlers:
                hd.body = tail_assign(hd.body, target) or [ast.Pass()]
            return out
        if any(isinstance(x, ast.Return) for x in ast.walk(last)):
            raise _NoInline("return inside a loop of the helper")
        if target is not None and not _terminates(out):
            out.append(ast.Assign(targets=[ast.Name(id=target, ctx=ast.Store())], value=ast.Constant(value=None), lineno=0))
        return out

    def branch_returns(stmts, when_true: List[ast.stmt], when_false: List[ast.stmt], tail: bool) -> List[ast.stmt]:
        """`if H(): when_true else: when_false` with H's body in place of the call: each `return <constant>` becomes the branch it selects.  A branch
        that falls through is only allowed where the return was in tail position (what follows the if statement then follows naturally)."""
        out: List[ast.stmt] = []
        for i, st in enumerate(stmts):
            is_last = tail and i == len(stmts) - 1
            if isinstance(st, ast.Return):
                if not (isinstance(st.value, ast.Constant) or st.value is None):
                    raise _NoInline("the helper returns a computed value into a test")
                br = when_true if (st.value is not None and bool(st.value.value)) else when_false
                if not _terminates(br) and not is_last:
                    raise _NoInline("a non-final return selects a branch that falls through")
                out.extend(fresh_stmts(br))
                return out
            if isinstance(st, ast.If):
                st.body = branch_returns(st.body, when_true, when_false, is_last) or [ast.Pass()]
                st.orelse = branch_returns(st.orelse, when_true, when_false, is_last)
            elif isinstance(st, ast.Try) and not st.finalbody:
                st.body = branch_returns(st.body, when_true, when_false, is_last and not st.orelse) or [ast.Pass()]
                for hd in st.handlers:
                    hd.body = branch_returns(hd.body, when_true, when_false, is_last) or [ast.Pass()]
                st.orelse = branch_returns(st.orelse, when_true, when_false, is_last)
            elif any(isinstance(x, ast.Return) for x in ast.walk(st)):
                raise _NoInline("return inside a loop of the helper")
            out.append(st)
        if tail and not _terminates(out):
            # falling off the end of the helper returns None
            out.extend(fresh_stmts(when_false))
        return out

    def rewrite_block(stmts: List[ast.stmt], d: int) -> List[ast.stmt]:
        out: List[ast.stmt] = []
        for idx, st in enumerate(stmts):
            # recurse into compound statements first
            for fld in ("body", "orelse", "finalbody"):
                if isinstance(getattr(st, fld, None), list) and not isinstance(st, (ast.FunctionDef, ast.ClassDef, ast.Lambda)):
                    setattr(st, fld, rewrite_block(getattr(st, fld), d))
            if isinstance(st, ast.Try):
                for hd in st.handlers:
                    hd.body = rewrite_block(hd.body, d)
            call = kind = None
            neg = False
            if isinstance(st, ast.Expr) and helper_of(st.value):
                call, kind = st.value, "expr"
            elif isinstance(st, ast.Assign) and len(st.targets) == 1 and isinstance(st.targets[0], ast.Name) and helper_of(st.value):
                call, kind = st.value, "assign"
            elif isinstance(st, ast.Return) and st.value is not None and helper_of(st.value):
                call, kind = st.value, "return"
            elif isinstance(st, ast.If):
                t = st.test
                while isinstance(t, ast.UnaryOp) and isinstance(t.op, ast.Not):
                    t, neg = t.operand, not neg
                if helper_of(t):
                    call, kind = t, "if"
            if call is None:
                out.append(st)
                continue
            h = helper_of(call)
            try:
                if d <= 0:
                    raise _NoInline("nesting depth")
                body = body_for(h, call)
                if kind == "expr":
                    new = tail_assign(body, None)
                elif kind == "assign":
                    new = tail_assign(body, st.targets[0].id)
                elif kind == "return":
                    tmp = f"_{h.name.strip('_')}{counter[0]}_result"
                    new = tail_assign(body, tmp) + [ast.Return(value=ast.Name(id=tmp, ctx=ast.Load()))]
                else:
                    yes, no = (st.orelse, st.body) if neg else (st.body, st.orelse)
                    new = branch_returns(body, yes, no, True)
                new = fresh_stmts(new)
                out.extend(rewrite_block(new, d - 1))
                inlined.append(h.name)
            except _NoInline as ex:
                refused.append(f"{h.name} at `{ast.unparse(call)}`: {ex}")
                out.append(st)
        return out

    view = ast.parse(ast.unparse(f)).body[0]
    view.body = rewrite_block(view.body, depth)
    if not inlined:
        return f, [], refused
    view = ast.parse(ast.unparse(view)).body[0]
    link_parents(view, getattr(f, "_parent", None))
    return view, inlined, refused


def expand(expr: ast.AST, defs: Dict[str, ast.expr], depth: int = 8) -> ast.AST:
    """Copy of ``expr`` with single-assignment locals replaced by their defining expressions."""
    class T(ast.NodeTransformer):
        def __init__(self, d):
            self.d = d

        def visit_Name(self, node):
            if isinstance(node.ctx, ast.Load) and node.id in defs and self.d > 0:
                return T(self.d - 1).visit(fresh(defs[node.id]))
            return node

        def visit_NamedExpr(self, node):
            return self.visit(node.value)        # as a value, `(name := expr)` is `expr`

    return T(depth).visit(fresh(expr))


def attrs_to_names(expr: ast.AST, recv: str = "self") -> ast.AST:
    """Parent-free copy of ``expr`` in which ``<recv>.<attr>`` is replaced by the plain name ``<recv>__<attr>`` (so that the
    whitelisted evaluators can bind it through their environment)."""
    class T(ast.NodeTransformer):
        def visit_Attribute(self, node):
            if isinstance(node.value, ast.Name) and node.value.id == recv:
                return ast.Name(id=f"{recv}__{node.attr}", ctx=ast.Load())
            return self.generic_visit(node)

    return ast.fix_missing_locations(T().visit(fresh(expr)))


def norm_cmp(test: ast.AST, defs: Dict[str, ast.expr], env: Optional[Dict[str, object]] = None, negate: bool = False):
    """``lincmp`` of the test after substituting single-assignment locals; None if not a linear comparison."""
    return lincmp(expand(test, defs), env or {}, negate)


def lin_equal(e1: ast.AST, e2: ast.AST, defs: Dict[str, ast.expr], env: Optional[Dict[str, object]] = None) -> bool:
    """e1 and e2 are the same linear integer expression (after substitution of single-assignment locals)."""
    cmp = ast.Compare(left=expand(e1, defs), ops=[ast.GtE()], comparators=[expand(e2, defs)])
    r = lincmp(cmp, env or {})
    return r is not None and not r[0] and r[1] == 0


def lin_expect(terms: Dict[str, int], c: int):
    return frozenset((k, v) for k, v in terms.items() if v), c


def fmt_lin(r) -> str:
    if r is None:
        return "<not a linear comparison>"
    terms, c = r
    parts = []
    for k, v in sorted(terms):
        parts.append(("" if v == 1 else ("-" if v == -1 else f"{v}*")) + k)
    return (" + ".join(parts) or "0").replace("+ -", "- ") + f" >= {c}"


def must_pass(g, srcs: Iterable[int], via: Iterable[int], to: Optional[Iterable[int]] = None, exc: bool = False):
    """Like CFG.must_pass, but a start node that is itself a ``via`` node counts as passing it.  Returns a witness
    path avoiding ``via`` or None."""
    via = set(via)
    starts = [s for s in srcs if s not in via]
    if not starts:
        return None
    return g.must_pass(starts, via, to=to, exc=exc, strict=False)


def is_self_attr(node: ast.AST, name: Optional[str] = None, recv: str = "self") -> bool:
    return (isinstance(node, ast.Attribute) and isinstance(node.value, ast.Name) and node.value.id == recv
            and (name is None or node.attr == name))


def const_of(node: ast.AST, env: Dict[str, object]):
    try:
        return const_eval(node, env)
    except NotConst:
        return None


def class_const(mod, cls: ast.ClassDef, name: str, env: Dict[str, object]):
    """Value of a class-level constant (following bases in the module); other class constants of the same
    class may be referenced.  Returns None when absent / not constant."""
    r = mro_lookup(mod, cls, name)
    if r is None or isinstance(r[1], (ast.FunctionDef, ast.AsyncFunctionDef)):
        return None
    owner, expr = r
    local = dict(env)
    for k, v in class_assigns(owner).items():
        if k == name:
            continue
        try:
            local[k] = const_eval(v, local)
        except NotConst:
            pass
    try:
        return const_eval(expr, local)
    except NotConst:
        return None


def struct_field_count(fmt: str) -> int:
    """Number of values produced by struct.unpack(fmt, ...)."""
    return len(struct.unpack(fmt, b"\x00" * struct.calcsize(fmt)))


def struct_codes(fmt: str) -> List[str]:
    """Expanded per-value format codes ("!H2B" -> ["H","B","B"])."""
    out: List[str] = []
    num = ""
    for ch in fmt:
        if ch in "@=<>!":
            continue
        if ch.isdigit():
            num += ch
            continue
        if ch.isspace():
            continue
        n = int(num) if num else 1
        num = ""
        if ch in "sp":
            out.append(f"{n}{ch}")
        elif ch == "x":
            continue
        else:
            out.extend([ch] * n)
    return out


# ---- a whitelisted interpreter for repository methods -----------------------------------------------------------------
# Repository code is never imported or run by CPython: its AST is interpreted here over concrete finite inputs, and only
# the constructs / builtins / methods enumerated below are understood (anything else is ``Unsupported`` -> analysis error).
# Objects of foreign modules are represented by models: ``Stub`` (records calls), ``Opaque`` (an imported name), ``NativeModel``
# subclasses written in the checker (e.g. a Deferred model), and plain standard-library values (bytes, dict, BytesIO, datetime).

class Unsupported(Exception):
    pass


class Raised(Exception):
    """An exception raised by interpreted code: class name + (when it could be built) the exception value."""

    def __init__(self, name: str, value: object = None):
        super().__init__(name)
        self.name = name
        self.value = value


class Inst:
    """An instance of a class of an analysed module."""

    def __init__(self, cls: ast.ClassDef, /, **fields):
        self.cls = cls
        self.fields: Dict[str, object] = dict(fields)

    def __repr__(self):
        return f"<{self.cls.name} {self.fields!r}>"


class DictInst(Inst):
    """An instance of a class deriving from dict (AmpBox ...): ``data`` holds the mapping."""

    def __init__(self, cls: ast.ClassDef, /, data=None, **fields):
        super().__init__(cls, **fields)
        self.data: dict = dict(data or {})

    def __repr__(self):
        return f"<{self.cls.name} {self.data!r}>"

    def __eq__(self, other):
        if isinstance(other, DictInst):
            return self.data == other.data
        if isinstance(other, dict):
            return self.data == other
        return NotImplemented

    __hash__ = None  # type: ignore[assignment]


class _Bound:
    def __init__(self, inst: Inst, name: str):
        self.inst, self.name = inst, name


class _ClassRef:
    def __init__(self, cls: ast.ClassDef):
        self.cls = cls

    def __eq__(self, other):
        return isinstance(other, _ClassRef) and other.cls is self.cls

    def __hash__(self):
        return id(self.cls)


class _Closure:
    def __init__(self, fdef, env, cls=None):
        self.fdef, self.env, self.cls = fdef, env, cls


class Opaque:
    """A name imported from a module that is not analysed (an exception class, a constant ...)."""

    def __init__(self, name: str):
        self.name = name

    def __eq__(self, other):
        return isinstance(other, Opaque) and other.name == self.name

    def __hash__(self):
        return hash(("opaque", self.name))

    def __repr__(self):
        return f"<imported {self.name}>"


class OpaqueInst:
    def __init__(self, of: Opaque, args=(), kw=None):
        self.of, self.args, self.kw = of, tuple(args), dict(kw or {})

    def __repr__(self):
        return f"<{self.of.name}{self.args!r}>"


class Stub:
    """A foreign collaborator (transport, box receiver, locator ...): every method call is recorded; configured methods
    return a value or call a Python function; configured attributes are plain values."""

    def __init__(self, name: str, returns: Optional[Dict[str, object]] = None, attrs: Optional[Dict[str, object]] = None):
        self.name = name
        self.returns = dict(returns or {})
        self.attrs = dict(attrs or {})
        self.calls: List[Tuple[str, tuple, dict]] = []

    def called(self, method: str) -> List[tuple]:
        return [a for m, a, _ in self.calls if m == method]

    def __repr__(self):
        return f"<stub {self.name}>"


class _StubMethod:
    def __init__(self, stub: Stub, name: str):
        self.stub, self.name = stub, name


class NativeModel:
    """Base class of models written in the checker; ``_methods`` lists what interpreted code may call, ``_attrs`` what it may read."""
    _methods: Set[str] = set()
    _attrs: Set[str] = set()


class PyFn:
    """A Python callable handed to interpreted code (a probe, a fake responder)."""

    def __init__(self, fn: Callable, name: str = "probe"):
        self.fn, self.name = fn, name


_TYPES = {"int": int, "float": float, "str": str, "bytes": bytes, "bool": bool, "list": list, "tuple": tuple, "dict": dict,
          "bytearray": bytearray, "set": set, "decimal.Decimal": decimal.Decimal, "object": object}
_PURE = {"int": int, "float": float, "str": str, "repr": repr, "len": len, "bytes": bytes, "bool": bool, "abs": abs, "ord": ord, "chr": chr,
         "sorted": sorted, "range": range, "list": list, "tuple": tuple, "set": set, "min": min, "max": max, "sum": sum, "bytearray": bytearray,
         "type": type, "dict": dict, "divmod": divmod, "enumerate": enumerate, "zip": zip, "reversed": reversed, "slice": slice, "format": format,
         "any": any, "all": all, "round": round, "hex": hex, "iter": iter, "next": next, "frozenset": frozenset}
_STRUCT = {"struct.pack": struct.pack, "pack": struct.pack, "struct.unpack": struct.unpack, "unpack": struct.unpack,
           "struct.calcsize": struct.calcsize, "calcsize": struct.calcsize, "struct.Struct": struct.Struct, "Struct": struct.Struct}
_ITERTOOLS = {"chain": itertools.chain, "itertools.chain": itertools.chain, "chain.from_iterable": itertools.chain.from_iterable,
              "itertools.chain.from_iterable": itertools.chain.from_iterable, "islice": itertools.islice, "itertools.islice": itertools.islice,
              "zip_longest": itertools.zip_longest, "itertools.zip_longest": itertools.zip_longest, "repeat": itertools.repeat, "itertools.repeat": itertools.repeat}
_NOOPS = {"log.msg", "log.err", "warnings.warn", "_log.failure", "_log.info", "_log.debug", "_log.warn", "_log.error", "log.info"}
_OBJ_METHODS = {  # methods that may be called on plain Python values, by receiver type
    (str, bytes, bytearray): {"encode", "decode", "lower", "upper", "strip", "lstrip", "rstrip", "join", "startswith", "endswith", "find", "split",
                              "replace", "title", "count", "index", "isdigit", "hex", "format", "rsplit", "partition", "rpartition", "zfill", "rjust", "ljust", "splitlines",
                              "isalpha", "isalnum", "isspace", "islower", "isupper", "capitalize", "swapcase", "center", "expandtabs", "removeprefix", "removesuffix", "casefold"},
    (list,): {"append", "extend", "pop", "insert", "index", "count", "copy", "reverse", "sort", "remove", "clear"},
    (dict,): {"items", "keys", "values", "get", "pop", "copy", "setdefault", "update", "clear", "popitem"},
    (set,): {"add", "discard", "copy", "remove", "update"},
    (tuple,): {"index", "count"},
    (io.BytesIO,): {"write", "read", "tell", "seek", "getvalue"},
    (struct.Struct,): {"pack", "unpack", "unpack_from", "iter_unpack"},
    (datetime.datetime,): {"utcoffset", "replace", "isoformat", "timetuple", "utctimetuple"},
    (datetime.timedelta,): {"total_seconds"},
}
_OBJ_ATTRS = {
    (struct.Struct,): {"size", "format"},
    (datetime.datetime,): {"year", "month", "day", "hour", "minute", "second", "microsecond", "tzinfo"},
    (datetime.timedelta,): {"days", "seconds", "microseconds"},
}
_DICT_FALLBACK = {"items", "keys", "values", "get", "pop", "update", "setdefault", "clear", "popitem"}
_PY_ERRORS = (ValueError, TypeError, ArithmeticError, LookupError, struct.error, EOFError, AttributeError)


def _err_name(e: BaseException) -> str:
    return "struct.error" if isinstance(e, struct.error) else type(e).__name__


def _plain(v):
    """DictInst -> its dict, for builtins such as len / sorted / list."""
    return v.data if isinstance(v, DictInst) else v


def _has_internal(vals, depth: int = 2) -> bool:
    for v in vals:
        if isinstance(v, (Inst, Stub, Opaque, OpaqueInst, NativeModel, PyFn, Raised)) and not isinstance(v, DictInst):
            return True
        if type(v).__name__ in ("_Closure", "_Bound", "_ClassRef", "_StubMethod", "_SuppressCM", "_GenCM", "_NullCM"):
            return True
        if depth > 0 and isinstance(v, (list, tuple, set, frozenset)) and _has_internal(list(v)[:50], depth - 1):
            return True
        if depth > 0 and isinstance(v, dict) and _has_internal(list(v.values())[:50] + list(v.keys())[:50], depth - 1):
            return True
    return False


def _iterable(v, what: str = "iteration"):
    """A Python value interpreted code may iterate; models, stubs and opaque values are not (-> Unsupported, never a crash of the analyser)."""
    if isinstance(v, DictInst):
        return v.data
    if isinstance(v, (Inst, Stub, Opaque, OpaqueInst, NativeModel, Raised)):
        raise Unsupported(f"{what} over {type(v).__name__}")
    if isinstance(v, (int, float, type(None), bool)):
        raise Raised("TypeError")
    try:
        iter(v)
    except TypeError:
        raise Unsupported(f"{what} over {type(v).__name__}")
    return v


def _mod_find(m, name: str):
    """Module.find with a cache kept ON the module object (a global cache keyed by id() would go stale when an overlay module is
    freed and its id reused)."""
    cache = m.__dict__.setdefault("_g_find", {})
    if name not in cache:
        alld = m.find_all(name) if name and "." not in name else ([m.find(name)] if m.find(name) is not None else [])
        cache[name] = alld[-1] if alld else None       # the last definition wins (overload stubs come first)
    return cache[name]


def _mod_assign(m, name: str):
    cache = m.__dict__.setdefault("_g_assign", {})
    if name not in cache:
        cache[name] = m.module_assign(name)
    return cache[name]


class _GenClosed(BaseException):
    pass


class GenValue:
    """A generator object of interpreted code.  The body runs in a thread of its own that alternates strictly with the consumer (a coroutine
    by hand-over), so validation inside the generator interleaves with the consumer's effects exactly as in Python."""

    def __init__(self, ev, run):
        self.ev, self._run = ev, run
        self._to_gen, self._to_con = threading.Semaphore(0), threading.Semaphore(0)
        self._thread: Optional[threading.Thread] = None
        self._done = self._closed = False
        self._msg: Tuple[str, object] = ("return", None)
        self._seg: List[object] = []
        self._dextra = 0
        self._base = self._depth0 = 0
        self._throw: Optional[BaseException] = None

    def __iter__(self):
        return self

    def _body(self):
        self._to_gen.acquire()
        try:
            if not self._closed:
                self._run(self)
            self._msg = ("return", None)
        except _GenClosed:
            self._msg = ("return", None)
        except BaseException as e:      # Raised / Unsupported / analyser errors: re-raised in the consumer
            self._msg = ("raise", e)
        self._done = True
        self._to_con.release()

    def _yield(self, v):
        ev = self.ev
        self._seg = ev._cls_stack[self._base:]
        del ev._cls_stack[self._base:]
        self._dextra = ev.depth - self._depth0
        ev.depth = self._depth0
        self._msg = ("yield", v)
        self._to_con.release()
        self._to_gen.acquire()
        if self._closed:
            raise _GenClosed()
        if self._throw is not None:
            e, self._throw = self._throw, None
            raise e
        return None

    def throw(self, exc: BaseException):
        """Resume the generator by raising `exc` at the yield it is suspended at (what contextlib.contextmanager does on an exception in the body)."""
        if self._done or self._thread is None:
            self._done = True
            raise exc
        self._throw = exc
        return self.__next__()

    def __next__(self):
        if self._done:
            raise StopIteration
        ev = self.ev
        ev._tick()
        self._base, self._depth0 = len(ev._cls_stack), ev.depth
        ev._cls_stack.extend(self._seg)
        ev.depth += self._dextra
        self._seg, self._dextra = [], 0
        if self._thread is None:
            self._thread = threading.Thread(target=self._body, daemon=True)
            self._thread.start()
        self._to_gen.release()
        self._to_con.acquire()
        kind, v = self._msg
        if kind == "yield":
            return v
        del ev._cls_stack[self._base:]
        ev.depth = self._depth0
        if kind == "return":
            raise StopIteration
        raise v     # type: ignore[misc]

    def close(self):
        if self._done or self._thread is None:
            self._done = True
            return
        self._closed = True
        ev = self.ev
        base, depth = len(ev._cls_stack), ev.depth
        ev._cls_stack.extend(self._seg)          # the suspended frames unwind on their own part of the interpreter stacks
        ev.depth += self._dextra
        self._seg, self._dextra = [], 0
        self._base, self._depth0 = base, depth
        self._to_gen.release()
        self._to_con.acquire()
        del ev._cls_stack[base:]
        ev.depth = depth
        self._done = True


class _SuppressCM:
    """contextlib.suppress(E1, E2, ...): the exception classes are kept as the expressions they were written as (handlers match by name)."""

    def __init__(self, type_exprs: List[ast.expr]):
        self.handler = ast.ExceptHandler(type=ast.Tuple(elts=list(type_exprs), ctx=ast.Load()), name=None, body=[ast.Pass()])


class _NullCM:
    def __init__(self, value=None):
        self.value = value


class _GenCM:
    """The object a @contextlib.contextmanager function returns."""

    def __init__(self, gen: GenValue):
        self.gen = gen


def _is_generator_def(f) -> bool:
    r = getattr(f, "_g_isgen", None)
    if r is None:
        r = False
        if not isinstance(f, ast.Lambda):
            todo = list(f.body)
            while todo and not r:
                x = todo.pop()
                if isinstance(x, (ast.Yield, ast.YieldFrom)):
                    r = True
                elif not isinstance(x, (ast.FunctionDef, ast.AsyncFunctionDef, ast.Lambda, ast.ClassDef)):
                    todo.extend(ast.iter_child_nodes(x))
        try:
            f._g_isgen = r
        except AttributeError:
            pass
    return r


class BudgetExhausted(Unsupported):
    """The step budget ran out: for a rule that sets a small budget on purpose this is the observation 'does not terminate'."""


class MiniEval:
    """Interprets methods/functions of the analysed modules over concrete values: literals, arithmetic, %-formatting and
    f-strings, comparisons, subscripts and slices, if/for/while/try/return/raise/del/assert/assignments, nested functions
    and lambdas (closures), *args/**kw, attribute reads and writes on modelled instances, dict-derived classes,
    ``super().__init__``, getattr/setattr/hasattr, isinstance/type, a table of pure builtins, struct.pack/unpack/calcsize,
    whitelisted methods of str/bytes/list/dict/set/tuple/BytesIO/datetime values, calls of module functions, methods and
    constructors of module classes (bases resolved across the analysed modules), class-level aliases (``fromString = int``),
    stubs, imported opaque names and native models supplied by the rule."""

    FUEL = 400000

    def __init__(self, mod, helpers: Optional[Dict[str, Callable]] = None, consts: Optional[Dict[str, object]] = None, extra_mods: Sequence[object] = (),
                 class_overrides: Optional[Dict[Tuple[str, str], object]] = None):
        self.class_overrides = dict(class_overrides or {})     # (class name, attribute) -> value, for class attributes built by code the interpreter cannot run
        self.mod = mod
        self.mods = [mod] + list(extra_mods)      # names imported from these modules resolve to their definitions
        self.helpers = dict(helpers or {})
        self.consts = dict(consts or {})
        self.depth = 0
        self.fuel = self.FUEL
        self._imports: Optional[Set[str]] = None
        self._cls_stack: List[Optional[ast.ClassDef]] = []
        self._cattr: Dict[Tuple[int, str], object] = {}
        self.foreign_calls: List[str] = []
        # caches live on the primary module object (they die with it: overlays get fresh modules), keyed by the set of modules in use
        shared = mod.__dict__.setdefault("_g_shared", {})
        sh = shared.setdefault(tuple(id(m) for m in self.mods), {"find": {}, "lin": {}, "look": {}, "for": {}, "home": {}, "keep": list(self.mods)})
        self._findc, self._linc, self._lookc, self._forc, self._home = sh["find"], sh["lin"], sh["look"], sh["for"], sh["home"]

    # ---- name / class resolution ------------------------------------------------------------------------------------
    def find(self, name: str):
        if name in self._findc:
            return self._findc[name]
        r = None
        for m in self.mods:
            d = _mod_find(m, name)
            if d is not None:
                r = d
                break
        self._findc[name] = r
        return r

    def home(self, cls: ast.ClassDef):
        k = id(cls)
        if k not in self._home:
            for m in self.mods:
                for c in ast.walk(m.tree):
                    if isinstance(c, ast.ClassDef):
                        self._home.setdefault(id(c), m)
            self._home.setdefault(k, self.mod)
        return self._home[k]

    def imported(self, name: str) -> bool:
        if self._imports is None:
            self._imports = set()
            for m in self.mods:
                names = getattr(m, "_g_imports", None)      # cached on the module object (same lifetime as its tree)
                if names is None:
                    names = set()
                    for st in ast.walk(m.tree):
                        if isinstance(st, (ast.Import, ast.ImportFrom)):
                            for a in st.names:
                                names.add((a.asname or a.name).split(".")[0])
                    try:
                        m._g_imports = names
                    except AttributeError:
                        pass
                self._imports |= names
        return name in self._imports

    def bases(self, cls: ast.ClassDef) -> List[ast.ClassDef]:
        from sa.source import base_names
        out = []
        for b in base_names(cls):
            c = _mod_find(self.home(cls), b) or self.find(b)
            if isinstance(c, ast.ClassDef) and c is not cls:
                out.append(c)
        return out

    def linear(self, cls: ast.ClassDef) -> List[ast.ClassDef]:
        """Depth-first, left-to-right linearisation without duplicates (adequate for the hierarchies analysed)."""
        if id(cls) in self._linc:
            return self._linc[id(cls)]
        out: List[ast.ClassDef] = []

        def rec(c):
            if any(c is x for x in out):
                return
            out.append(c)
            for b in self.bases(c):
                rec(b)
        rec(cls)
        self._linc[id(cls)] = out
        return out

    def is_dict_class(self, cls: ast.ClassDef) -> bool:
        from sa.source import base_names
        return any(b in ("Dict", "dict") for c in self.linear(cls) for b in base_names(c))

    def lookup(self, cls: ast.ClassDef, name: str, after: Optional[ast.ClassDef] = None):
        """(owner class, FunctionDef | class-level expression) following bases across the analysed modules."""
        from sa.source import class_assigns as _ca
        ck = (id(cls), name, id(after))
        if ck in self._lookc:
            return self._lookc[ck]
        self._lookc[ck] = r0 = self._lookup(cls, name, after)
        return r0

    def _lookup(self, cls: ast.ClassDef, name: str, after: Optional[ast.ClassDef] = None):
        from sa.source import class_assigns as _ca
        lin = self.linear(cls)
        if after is not None:
            idx = next((i for i, c in enumerate(lin) if c is after), -1)
            lin = lin[idx + 1:]
        for c in lin:
            ms = methods(c)
            if name in ms:
                return c, ms[name]
            ca = _ca(c)
            if name in ca:
                return c, ca[name]
        return None

    def has_foreign_base(self, cls: ast.ClassDef) -> bool:
        if id(cls) not in self._forc:
            self._forc[id(cls)] = self._has_foreign_base(cls)
        return self._forc[id(cls)]

    def _has_foreign_base(self, cls: ast.ClassDef) -> bool:
        from sa.source import base_names
        for c in self.linear(cls):
            for b in base_names(c):
                if b not in ("object", "Generic", "Dict", "dict") and not isinstance(_mod_find(self.home(c), b) or self.find(b), ast.ClassDef):
                    return True
        return False

    def derives(self, cls: ast.ClassDef, other: ast.ClassDef) -> bool:
        return any(c is other for c in self.linear(cls))

    def class_attr(self, owner: ast.ClassDef, name: str):
        """Value of a class-level assignment, evaluated in the class body's own environment."""
        if (owner.name, name) in self.class_overrides:
            return self.class_overrides[(owner.name, name)]
        k = (id(owner), name)
        if k in self._cattr:
            return self._cattr[k]
        env: Dict[str, object] = {}
        val = Unsupported
        for st in owner.body:
            tgt = None
            if isinstance(st, ast.Assign) and len(st.targets) == 1 and isinstance(st.targets[0], ast.Name):
                tgt, v = st.targets[0].id, st.value
            elif isinstance(st, ast.AnnAssign) and isinstance(st.target, ast.Name) and st.value is not None:
                tgt, v = st.target.id, st.value
            if tgt is None:
                continue
            try:
                env[tgt] = self.expr(v, env)
            except (Unsupported, Raised):
                if tgt == name:
                    raise Unsupported(f"class attribute {owner.name}.{name} = {src(v)[:60]}")
                continue
            if tgt == name:
                val = env[tgt]
        if val is Unsupported:
            raise Unsupported(f"class attribute {owner.name}.{name}")
        self._cattr[k] = val
        return val

    # ---- calls ----------------------------------------------------------------------------------------------------------
    def method(self, inst: Inst, name: str, args: Sequence[object], kw: Optional[Dict[str, object]] = None):
        r = self.lookup(inst.cls, name)
        if r is None:
            if isinstance(inst, DictInst) and name in _DICT_FALLBACK:
                try:
                    return getattr(inst.data, name)(*[_plain(a) for a in args], **(kw or {}))
                except _PY_ERRORS as e:
                    raise Raised(_err_name(e))
            if name == "__class__":
                return self.construct(inst.cls, args, kw)
            if self.has_foreign_base(inst.cls):
                self.foreign_calls.append(f"{inst.cls.name}.{name}")
                return None      # inherited from a class outside the analysed modules (Protocol.connectionMade ...): assumed irrelevant
            raise Raised("AttributeError")
        owner, target = r
        if isinstance(target, (ast.FunctionDef, ast.AsyncFunctionDef)):
            decos = {dotted(d) for d in target.decorator_list}
            if "classmethod" in decos:
                return self.func(target, [_ClassRef(inst.cls)] + list(args), kw, cls=owner)
            if "staticmethod" in decos:
                return self.func(target, list(args), kw, cls=owner)
            if "property" in decos:
                raise Unsupported(f"call of property {inst.cls.name}.{name}")
            return self.func(target, [inst] + list(args), kw, cls=owner)
        d = dotted(target)   # class-level alias: fromString = int
        if d in _PURE:
            return self._pure(d, list(args))
        v = self.class_attr(owner, name)
        return self.call_value(v, list(args), kw or {}, f"{inst.cls.name}.{name}")

    def construct(self, cls: ast.ClassDef, args: Sequence[object], kw: Optional[Dict[str, object]] = None):
        if cls.name in self.helpers:
            try:
                return self.helpers[cls.name](*args, **(kw or {}))
            except _PY_ERRORS as e:
                raise Raised(_err_name(e))
        o = DictInst(cls) if self.is_dict_class(cls) else Inst(cls)
        r = self.lookup(cls, "__init__")
        if r is not None and isinstance(r[1], ast.FunctionDef):
            self.func(r[1], [o] + list(args), kw, cls=r[0])
        elif isinstance(o, DictInst):
            o.data.update(dict(*[_plain(a) for a in args], **(kw or {})))
        elif args or kw:
            if any(self.find(b) is None for c in self.linear(cls) for b in __import__("sa.source", fromlist=["base_names"]).base_names(c) if b not in ("object",)):
                o.fields["args"] = tuple(args)      # constructor inherited from an unanalysed base (an exception class ...)
            else:
                raise Raised("TypeError")
        return o

    def func(self, f, args: Sequence[object], kw: Optional[Dict[str, object]] = None, closure: Optional[Dict[str, object]] = None, cls=None):
        self.depth += 1
        if self.depth > 80:
            raise Unsupported("call depth")
        self._cls_stack.append(cls)
        try:
            a = f.args
            params = [p.arg for p in a.posonlyargs + a.args]
            env: Dict[str, object] = dict(closure or {})
            args = list(args)
            if len(args) > len(params):
                if a.vararg is None:
                    raise Raised("TypeError")
                env[a.vararg.arg] = tuple(args[len(params):])
                args = args[:len(params)]
            elif a.vararg is not None:
                env[a.vararg.arg] = ()
            bound = set()
            for p, v in zip(params, args):
                env[p] = v
                bound.add(p)
            extra = {}
            for k, v in (kw or {}).items():
                if k in bound:
                    raise Raised("TypeError")
                if k in params or k in [p.arg for p in a.kwonlyargs]:
                    env[k] = v
                    bound.add(k)
                elif a.kwarg is not None:
                    extra[k] = v
                else:
                    raise Raised("TypeError")
            if a.kwarg is not None:
                env[a.kwarg.arg] = extra
            defaults = dict(zip(params[len(params) - len(a.defaults):], a.defaults))
            for p in params:
                if p not in bound:
                    if p not in defaults:
                        raise Raised("TypeError")
                    env[p] = self.expr(defaults[p], dict(closure or {}))
            for p, d in zip(a.kwonlyargs, a.kw_defaults):
                if p.arg not in bound:
                    if d is None:
                        raise Raised("TypeError")
                    env[p.arg] = self.expr(d, dict(closure or {}))
            if isinstance(f, ast.Lambda):
                return self.expr(f.body, env)
            if _is_generator_def(f):
                def run(gen, f=f, env=env, cls=cls):
                    env["<generator>"] = gen
                    self.depth += 1
                    self._cls_stack.append(cls)
                    try:
                        self.block(f.body, env)
                    finally:
                        if self._cls_stack:
                            self._cls_stack.pop()
                        self.depth -= 1
                gen = GenValue(self, run)
                if any((dotted(d) or "").split(".")[-1] == "contextmanager" for d in getattr(f, "decorator_list", [])):
                    return _GenCM(gen)
                return gen
            r = self.block(f.body, env)
            return r[1] if r and r[0] == "return" else None
        finally:
            self._cls_stack.pop()
            self.depth -= 1

    def _pure(self, name: str, args: List[object], kw: Optional[Dict[str, object]] = None):
        if name == "iter" and len(args) == 2 and not kw:
            return self._sentinel_iter(args[0], args[1])
        try:
            return _PURE[name](*[_plain(a) for a in args], **(kw or {}))
        except _PY_ERRORS as e:
            if isinstance(e, TypeError) and _has_internal(list(args) + list((kw or {}).values())):
                # the builtin was handed an object of the interpreter (a model instance, a closure ...): Python's verdict about THAT object says nothing
                # about the analysed program
                raise Unsupported(f"{name}() applied to interpreter-level objects ({e})")
            raise Raised(_err_name(e))
        except StopIteration:
            raise Raised("StopIteration")

    def _sentinel_iter(self, fn, sentinel):
        """iter(callable, sentinel): lazily, the callable is called once per step (its effects interleave with the loop body)."""
        def steps():
            while True:
                self._tick()
                v = self.call_value(fn, [], {}, "iter() callable")
                if self._compare(ast.Eq(), v, sentinel):
                    return
                yield v
        return steps()

    def call_value(self, callee, args, kw, what="value"):
        kw = kw or {}
        if isinstance(callee, _Bound):
            if callee.name in callee.inst.fields:
                return self.call_value(callee.inst.fields[callee.name], args, kw, what)
            return self.method(callee.inst, callee.name, args, kw)
        if isinstance(callee, _ClassRef):
            return self.construct(callee.cls, args, kw)
        if isinstance(callee, _Closure):
            return self.func(callee.fdef, args, kw, closure=callee.env, cls=callee.cls)
        if isinstance(callee, PyFn):
            try:
                return callee.fn(*args, **kw)
            except TypeError as e:
                if "argument" in str(e):
                    raise Raised("TypeError")
                raise
        if isinstance(callee, _StubMethod):
            callee.stub.calls.append((callee.name, tuple(args), dict(kw)))
            r = callee.stub.returns.get(callee.name)
            if isinstance(r, PyFn):
                return r.fn(*args, **kw)
            return r
        if isinstance(callee, Opaque):
            return OpaqueInst(callee, args, kw)
        if isinstance(callee, tuple) and len(callee) == 2 and isinstance(callee[0], NativeModel):
            return self._native_call(callee[0], callee[1], args, kw)
        if callable(callee) and type(callee).__name__ in ("builtin_function_or_method", "method_descriptor") and getattr(callee, "__self__", None) is not None \
                and any(isinstance(callee.__self__, t) and callee.__name__ in names for t, names in _OBJ_METHODS.items()):
            try:
                return callee(*[_plain(a) for a in args], **kw)
            except _PY_ERRORS as e:
                raise Raised(_err_name(e))
        if isinstance(callee, type) and callee in _TYPES.values():
            try:
                return callee(*[_plain(a) for a in args], **kw)
            except _PY_ERRORS as e:
                raise Raised(_err_name(e))
        raise Unsupported("call of " + what)

    def _native_call(self, obj: NativeModel, name: str, args, kw):
        if name not in obj._methods:
            raise Raised("AttributeError")
        try:
            return getattr(obj, name)(*args, **kw)
        except TypeError as e:
            if "argument" in str(e):
                raise Raised("TypeError")
            raise

    # ---- statements ---------------------------------------------------------------------------------------------------
    def block(self, stmts, env):
        for st in stmts:
            r = self.stmt(st, env)
            if r is not None:
                return r
        return None

    def _tick(self):
        self.fuel -= 1
        if self.fuel <= 0:
            raise BudgetExhausted("evaluation budget exhausted (possible non-termination)")

    def store(self, t, v, env):
        if isinstance(t, ast.Name):
            env[t.id] = v
        elif isinstance(t, ast.Attribute):
            o = self.expr(t.value, env)
            if isinstance(o, Inst):
                o.fields[t.attr] = v
            elif isinstance(o, Stub):
                o.attrs[t.attr] = v
            else:
                raise Unsupported("attribute store on " + src(t.value))
        elif isinstance(t, (ast.Tuple, ast.List)):
            try:
                vs = list(_plain(v))
            except TypeError:
                raise Raised("TypeError")
            if any(isinstance(e, ast.Starred) for e in t.elts):
                raise Unsupported("starred assignment target")
            if len(vs) != len(t.elts):
                raise Raised("ValueError")
            for e, x in zip(t.elts, vs):
                self.store(e, x, env)
        elif isinstance(t, ast.Subscript):
            o = self.expr(t.value, env)
            tgt = o.data if isinstance(o, DictInst) else o
            if not isinstance(tgt, (list, dict)):
                if isinstance(tgt, (type(None), int, float, bool, str, bytes, tuple)):
                    raise Raised("TypeError")
                raise Unsupported("subscript store on " + src(t.value))
            try:
                if isinstance(t.slice, ast.Slice):
                    lo = self.expr(t.slice.lower, env) if t.slice.lower else None
                    hi = self.expr(t.slice.upper, env) if t.slice.upper else None
                    tgt[lo:hi] = list(_plain(v))
                else:
                    tgt[self.expr(t.slice, env)] = v
            except _PY_ERRORS as e:
                raise Raised(_err_name(e))
        else:
            raise Unsupported("assignment target " + src(t))

    def stmt(self, st, env):
        self._tick()
        if isinstance(st, ast.Expr):
            if not isinstance(st.value, ast.Constant):
                self.expr(st.value, env)
            return None
        if isinstance(st, ast.Pass):
            return None
        if isinstance(st, ast.Assign):
            v = self.expr(st.value, env)
            for t in st.targets:
                self.store(t, v, env)
            return None
        if isinstance(st, ast.AnnAssign):
            if st.value is not None:
                self.store(st.target, self.expr(st.value, env), env)
            return None
        if isinstance(st, ast.AugAssign):
            cur = self.expr(_load(st.target), env)
            val = self.expr(st.value, env)
            # in-place operators of the mutable builtins: the object is updated (aliases see it) and any iterable / set / mapping is accepted
            if isinstance(cur, (list, bytearray)) and isinstance(st.op, ast.Add):
                try:
                    cur += list(_iterable(_plain(val), "+=")) if isinstance(cur, list) else val
                except _PY_ERRORS as e:
                    raise Raised(_err_name(e))
                self.store(st.target, cur, env)
                return None
            if isinstance(cur, list) and isinstance(st.op, ast.Mult) and isinstance(val, int):
                cur *= val
                self.store(st.target, cur, env)
                return None
            if isinstance(cur, (set, dict)) and isinstance(st.op, (ast.BitOr, ast.BitAnd, ast.Sub, ast.BitXor)) and isinstance(_plain(val), (set, frozenset, dict)):
                try:
                    if isinstance(st.op, ast.BitOr):
                        cur |= _plain(val)
                    elif isinstance(st.op, ast.BitAnd):
                        cur &= _plain(val)
                    elif isinstance(st.op, ast.Sub):
                        cur -= _plain(val)
                    else:
                        cur ^= _plain(val)
                except _PY_ERRORS as e:
                    raise Raised(_err_name(e))
                self.store(st.target, cur, env)
                return None
            self.store(st.target, self._binop(st.op, cur, val), env)
            return None
        if isinstance(st, ast.Return):
            return ("return", None if st.value is None else self.expr(st.value, env))
        if isinstance(st, ast.Break):
            return ("break", None)
        if isinstance(st, ast.Continue):
            return ("continue", None)
        if isinstance(st, ast.If):
            return self.block(st.body if self.truth(self.expr(st.test, env)) else st.orelse, env)
        if isinstance(st, ast.For):
            it = _iterable(_plain(self.expr(st.iter, env)))
            broke = False
            lazy = isinstance(it, GenValue)
            # containers are iterated over a snapshot; iterators (generators, iter(f, sentinel), itertools objects, zip ...) step by step, so that what the
            # body does between two steps is seen by the next one
            snapshot = isinstance(it, (list, tuple, dict, set, frozenset, str, bytes, bytearray, range)) or type(it).__name__ in ("dict_items", "dict_keys", "dict_values")
            try:
                for x in (list(it) if snapshot else it):
                    self._tick()
                    self.store(st.target, x, env)
                    r = self.block(st.body, env)
                    if r is not None:
                        if r[0] == "break":
                            broke = True
                            break
                        if r[0] == "return":
                            return r
            finally:
                if lazy:
                    it.close()
            if not broke and st.orelse:
                return self.block(st.orelse, env)
            return None
        if isinstance(st, ast.While):
            while self.truth(self.expr(st.test, env)):
                self._tick()
                r = self.block(st.body, env)
                if r is not None:
                    if r[0] == "break":
                        return None
                    if r[0] == "return":
                        return r
            return self.block(st.orelse, env) if st.orelse else None
        if isinstance(st, ast.Raise):
            if st.exc is None:
                cur = env.get("<exc>")
                if cur is None:
                    raise Unsupported("bare raise outside handler")
                raise cur if isinstance(cur, Raised) else Raised(str(cur))
            e = st.exc.func if isinstance(st.exc, ast.Call) else st.exc
            d = dotted(e) or "?"
            name = d if d == "struct.error" else d.split(".")[-1]
            val = None
            if isinstance(st.exc, ast.Name) and isinstance(env.get(st.exc.id), Raised):
                raise env[st.exc.id]
            try:
                val = self.expr(st.exc, env)       # best effort: the value matters only to code that inspects it
            except (Unsupported, Raised):
                val = None
            if isinstance(val, Raised):
                raise val
            raise Raised(name, val)
        if isinstance(st, ast.Try):
            try:
                try:
                    r = self.block(st.body, env)
                    if r is None and st.orelse:
                        r = self.block(st.orelse, env)
                except Raised as ex:
                    for h in st.handlers:
                        if self._handler_matches(h, ex, env):
                            if h.name:
                                env[h.name] = ex.value if ex.value is not None else ex
                            saved = env.get("<exc>")
                            env["<exc>"] = ex
                            try:
                                r = self.block(h.body, env)
                            finally:
                                env["<exc>"] = saved
                            break
                    else:
                        raise
            finally:
                if st.finalbody:
                    fr = self.block(st.finalbody, env)
                    if fr is not None:
                        return fr
            return r
        if isinstance(st, ast.With):
            return self._with(st.items, st.body, env)
        if isinstance(st, ast.Delete):
            for t in st.targets:
                if isinstance(t, ast.Name):
                    env.pop(t.id, None)
                elif isinstance(t, ast.Subscript):
                    o = _plain(self.expr(t.value, env))
                    try:
                        if isinstance(t.slice, ast.Slice):
                            lo = self.expr(t.slice.lower, env) if t.slice.lower else None
                            hi = self.expr(t.slice.upper, env) if t.slice.upper else None
                            del o[lo:hi]
                        else:
                            del o[self.expr(t.slice, env)]
                    except _PY_ERRORS as e:
                        raise Raised(_err_name(e))
                elif isinstance(t, ast.Attribute):
                    o = self.expr(t.value, env)
                    if isinstance(o, Inst) and t.attr in o.fields:
                        del o.fields[t.attr]
                    else:
                        raise Raised("AttributeError")
                else:
                    raise Unsupported("del target")
            return None
        if isinstance(st, ast.Assert):
            if not self.truth(self.expr(st.test, env)):
                raise Raised("AssertionError")
            return None
        if isinstance(st, (ast.FunctionDef,)):
            env[st.name] = _Closure(st, env, self._cls_stack[-1] if self._cls_stack else None)
            return None
        if isinstance(st, (ast.Import, ast.ImportFrom)):
            for a in st.names:
                env[(a.asname or a.name).split(".")[0]] = Opaque(a.asname or a.name)
            return None
        raise Unsupported("statement " + type(st).__name__)

    # ---- with -----------------------------------------------------------------------------------------------------------
    def _with(self, items, body, env):
        """`with cm [as x]: body`  =  enter; try: body; except: if not exit(exc): raise; else: exit(None)  - for contextlib.suppress / nullcontext,
        generator functions decorated with contextmanager, and instances of analysed classes defining __enter__/__exit__."""
        if not items:
            return self.block(body, env)
        item = items[0]
        ce = item.context_expr
        cm = None
        if isinstance(ce, ast.Call) and (dotted(ce.func) or "") in ("suppress", "contextlib.suppress") and (dotted(ce.func) or "").split(".")[0] not in env \
                and not isinstance(self.find("suppress"), (ast.FunctionDef, ast.ClassDef)):
            if ce.keywords or any(isinstance(a, ast.Starred) for a in ce.args):
                raise Unsupported("suppress() with computed arguments")
            cm = _SuppressCM(ce.args)
        elif isinstance(ce, ast.Call) and (dotted(ce.func) or "") in ("nullcontext", "contextlib.nullcontext") and (dotted(ce.func) or "").split(".")[0] not in env:
            cm = _NullCM(self.expr(ce.args[0], env) if ce.args else None)
        else:
            cm = self.expr(ce, env)
        # enter
        if isinstance(cm, _SuppressCM):
            entered = None
        elif isinstance(cm, _NullCM):
            entered = cm.value
        elif isinstance(cm, _GenCM):
            try:
                entered = next(cm.gen)
            except StopIteration:
                raise Raised("RuntimeError")      # generator didn't yield
        elif isinstance(cm, Inst) and self.lookup(cm.cls, "__enter__") is not None and self.lookup(cm.cls, "__exit__") is not None:
            entered = self.method(cm, "__enter__", [])
        elif isinstance(cm, (Stub, Opaque, OpaqueInst)):
            entered = cm          # an unanalysed manager (a lock, a log context ...): no effect of its own, nothing suppressed
        else:
            raise Unsupported("context manager " + type(cm).__name__)
        if item.optional_vars is not None:
            self.store(item.optional_vars, entered, env)

        def leave(ex: Optional[Raised]) -> bool:
            """-> the exception is suppressed"""
            if isinstance(cm, _SuppressCM):
                return ex is not None and self._handler_matches(cm.handler, ex, env)
            if isinstance(cm, _GenCM):
                if ex is None:
                    try:
                        next(cm.gen)
                    except StopIteration:
                        return False
                    raise Raised("RuntimeError")  # generator didn't stop
                try:
                    cm.gen.throw(ex)
                except StopIteration:
                    return True
                except Raised as ex2:
                    if ex2 is ex:
                        return False
                    raise
                raise Raised("RuntimeError")      # generator didn't stop after throw()
            if isinstance(cm, Inst):
                if ex is None:
                    self.method(cm, "__exit__", [None, None, None])
                    return False
                c = self.find(ex.name)
                etype = _ClassRef(c) if isinstance(c, ast.ClassDef) else Opaque(ex.name)
                return self.truth(self.method(cm, "__exit__", [etype, ex.value if ex.value is not None else ex, None]))
            return False

        try:
            r = self._with(items[1:], body, env)
        except Raised as ex:
            if leave(ex):
                return None
            raise
        leave(None)
        return r

    def _handler_matches(self, h: ast.ExceptHandler, ex: Raised, env) -> bool:
        if h.type is None:
            return True
        ts = h.type.elts if isinstance(h.type, ast.Tuple) else [h.type]
        for t in ts:
            d = dotted(t) or "?"
            want = d if d == "struct.error" else d.split(".")[-1]
            if want in ("BaseException", "Exception"):
                return True
            cur: Optional[str] = ex.name
            for _ in range(8):
                if cur is None:
                    break
                if cur == want or (cur == "struct.error" and want == "error"):
                    return True
                cur = _EXC_PARENT.get(cur, "Exception")
            # exception classes of the analysed modules: follow their bases
            if isinstance(ex.value, Inst):
                c = self.find(want)
                if isinstance(c, ast.ClassDef) and self.derives(ex.value.cls, c):
                    return True
            c0 = self.find(ex.name)
            if isinstance(c0, ast.ClassDef):
                c = self.find(want)
                if isinstance(c, ast.ClassDef) and self.derives(c0, c):
                    return True
        return False

    # ---- expressions --------------------------------------------------------------------------------------------------
    @staticmethod
    def truth(v) -> bool:
        if isinstance(v, DictInst):
            return bool(v.data)
        return True if isinstance(v, (Inst, _Bound, _ClassRef, _Closure, Stub, Opaque, OpaqueInst, NativeModel, PyFn, _StubMethod)) else bool(v)

    def _binop(self, op, a, b):
        a, b = _plain(a), _plain(b)
        if isinstance(a, (Inst, _Bound, _ClassRef, Stub, Opaque, NativeModel)) or isinstance(b, (Inst, _Bound, _ClassRef, Stub, Opaque, NativeModel)):
            raise Raised("TypeError")
        try:
            if isinstance(op, ast.Add):
                return a + b
            if isinstance(op, ast.Sub):
                return a - b
            if isinstance(op, ast.Mult):
                for x, y in ((a, b), (b, a)):
                    if isinstance(x, int) and not isinstance(y, (int, float)) and abs(x) > 1 << 22:
                        raise Unsupported("huge repetition")
                return a * b
            if isinstance(op, ast.Mod):
                return a % b
            if isinstance(op, ast.FloorDiv):
                return a // b
            if isinstance(op, ast.Div):
                return a / b
            if isinstance(op, ast.LShift) and isinstance(b, int) and b < 4096:
                return a << b
            if isinstance(op, ast.RShift):
                return a >> b
            if isinstance(op, ast.BitAnd):
                return a & b
            if isinstance(op, ast.BitOr):
                return a | b
            if isinstance(op, ast.BitXor):
                return a ^ b
            if isinstance(op, ast.Pow) and isinstance(b, int) and abs(b) < 4096:
                return a ** b
        except _PY_ERRORS as e:
            raise Raised(_err_name(e))
        raise Unsupported("operator " + type(op).__name__)

    def getattr_value(self, o, attr: str, what: str = ""):
        if isinstance(o, Inst):
            if attr in o.fields:
                return o.fields[attr]
            if attr == "__dict__":
                return o.fields
            if attr == "__class__":
                return _ClassRef(o.cls)
            r = self.lookup(o.cls, attr)
            if r is None:
                if isinstance(o, DictInst) and attr in _DICT_FALLBACK:
                    return getattr(o.data, attr)
                raise Raised("AttributeError")
            owner, node = r
            if isinstance(node, (ast.FunctionDef, ast.AsyncFunctionDef)):
                if any(dotted(d) == "property" for d in node.decorator_list):
                    return self.func(node, [o], cls=owner)
                return _Bound(o, attr)
            if isinstance(node, ast.Name) and node.id in _TYPES:      # class-level alias such as  fromString = int
                return _TYPES[node.id]
            return self.class_attr(owner, attr)
        if isinstance(o, _ClassRef):
            if attr == "__name__":
                return o.cls.name
            r = self.lookup(o.cls, attr)
            if r is None:
                raise Raised("AttributeError")
            owner, node = r
            if isinstance(node, (ast.FunctionDef, ast.AsyncFunctionDef)):
                decos = {dotted(d) for d in node.decorator_list}
                if "classmethod" in decos:
                    return _Closure(node, {node.args.args[0].arg: o} if False else {}, owner) if False else PyFn(lambda *a, **k: self.func(node, [o] + list(a), k, cls=owner), attr)
                return _Closure(node, {}, owner)
            return self.class_attr(owner, attr)
        if isinstance(o, Stub):
            if attr in o.attrs:
                return o.attrs[attr]
            return _StubMethod(o, attr)
        if isinstance(o, NativeModel):
            if attr in o._attrs:
                return getattr(o, attr)
            if attr in o._methods:
                return (o, attr)
            raise Raised("AttributeError")
        if isinstance(o, Opaque):
            return Opaque(o.name + "." + attr)
        if isinstance(o, OpaqueInst):
            if attr == "args":
                return o.args
            raise Raised("AttributeError")
        if isinstance(o, Raised):
            if attr == "args":
                return ()
            raise Raised("AttributeError")
        for types, names in _OBJ_ATTRS.items():
            if isinstance(o, types) and attr in names:
                return getattr(o, attr)
        for types, names in _OBJ_METHODS.items():
            if isinstance(o, types) and attr in names:
                return getattr(o, attr)
        if isinstance(o, type) and attr == "__name__":
            return o.__name__
        if isinstance(o, (int, float, type(None), bool, str, bytes, list, tuple, dict, set)):
            raise Raised("AttributeError")
        raise Unsupported("attribute " + (what or attr))

    def expr(self, n, env):
        if isinstance(n, ast.Constant):
            return n.value
        if isinstance(n, ast.Name):
            if n.id in env:
                return env[n.id]
            if n.id in self.consts:
                return self.consts[n.id]
            if n.id in self.helpers and not callable(self.helpers[n.id]):
                return self.helpers[n.id]
            if n.id in _TYPES:
                return _TYPES[n.id]
            c = self.find(n.id)
            if isinstance(c, ast.ClassDef):
                return _ClassRef(c)
            if isinstance(c, ast.FunctionDef):
                return _Closure(c, {}, None)
            for m in self.mods:
                v = _mod_assign(m, n.id)
                if v is not None:
                    return self.expr(v, {})
            if n.id == "NotImplemented":
                return NotImplemented
            if n.id in _PURE:
                return PyFn(lambda *a, _n=n.id, **k: self._pure(_n, list(a), k), n.id)
            if self.imported(n.id) or n.id.endswith(("Error", "Exception", "Warning")):
                return Opaque(n.id)
            raise Unsupported("name " + n.id)
        if isinstance(n, ast.Tuple):
            return tuple(self._elts(n.elts, env))
        if isinstance(n, ast.List):
            return self._elts(n.elts, env)
        if isinstance(n, ast.Set):
            return set(self._elts(n.elts, env))
        if isinstance(n, ast.Dict):
            out = {}
            for k, v in zip(n.keys, n.values):
                if k is None:
                    out.update(_plain(self.expr(v, env)))
                else:
                    out[self.expr(k, env)] = self.expr(v, env)
            return out
        if isinstance(n, ast.JoinedStr):
            out = ""
            for part in n.values:
                if isinstance(part, ast.Constant):
                    out += str(part.value)
                else:
                    v = self.expr(part.value, env)
                    if isinstance(v, (Inst, Stub, Opaque, OpaqueInst, NativeModel, _Bound, _ClassRef)):
                        v = repr(v)
                    elif part.conversion == ord("r"):
                        v = repr(v)
                    elif part.conversion == ord("s"):
                        v = str(v)
                    spec = self.expr(part.format_spec, env) if part.format_spec is not None else ""
                    try:
                        out += format(v, spec)
                    except _PY_ERRORS as e:
                        raise Raised(_err_name(e))
            return out
        if isinstance(n, ast.Attribute):
            d = dotted(n)
            if d in self.helpers and not callable(self.helpers[d]):
                return self.helpers[d]
            return self.getattr_value(self.expr(n.value, env), n.attr, src(n))
        if isinstance(n, ast.Subscript):
            o = _plain(self.expr(n.value, env))
            if isinstance(o, (Inst, _Bound, _ClassRef, Stub, Opaque, NativeModel)):
                raise Raised("TypeError")
            try:
                if isinstance(n.slice, ast.Slice):
                    lo = self.expr(n.slice.lower, env) if n.slice.lower else None
                    hi = self.expr(n.slice.upper, env) if n.slice.upper else None
                    stp = self.expr(n.slice.step, env) if n.slice.step else None
                    return o[lo:hi:stp]
                return o[self.expr(n.slice, env)]
            except _PY_ERRORS as e:
                raise Raised(_err_name(e))
        if isinstance(n, ast.UnaryOp):
            v = self.expr(n.operand, env)
            if isinstance(n.op, ast.Not):
                return not self.truth(v)
            try:
                if isinstance(n.op, ast.USub):
                    return -v
                if isinstance(n.op, ast.UAdd):
                    return +v
                if isinstance(n.op, ast.Invert):
                    return ~v
            except TypeError:
                raise Raised("TypeError")
            raise Unsupported("unary")
        if isinstance(n, ast.BoolOp):
            v = None
            for e in n.values:
                v = self.expr(e, env)
                if isinstance(n.op, ast.And) and not self.truth(v):
                    return v
                if isinstance(n.op, ast.Or) and self.truth(v):
                    return v
            return v
        if isinstance(n, ast.IfExp):
            return self.expr(n.body if self.truth(self.expr(n.test, env)) else n.orelse, env)
        if isinstance(n, ast.BinOp):
            return self._binop(n.op, self.expr(n.left, env), self.expr(n.right, env))
        if isinstance(n, ast.Compare):
            left = self.expr(n.left, env)
            for op, rn in zip(n.ops, n.comparators):
                right = self.expr(rn, env)
                if not self._compare(op, left, right):
                    return False
                left = right
            return True
        if isinstance(n, (ast.ListComp, ast.GeneratorExp, ast.SetComp, ast.DictComp)) and not any(g.is_async for g in n.generators):
            # any number of `for` clauses with conditions; the outermost iterable is evaluated at once (as in Python), a generator expression produces
            # its items lazily - when the consumer (join / extend / list / a for loop) asks for them
            env2 = dict(env)
            first = _iterable(_plain(self.expr(n.generators[0].iter, env)), "comprehension")

            def items(level: int):
                g = n.generators[level]
                it = first if level == 0 else _iterable(_plain(self.expr(g.iter, env2)), "comprehension")
                snapshot = isinstance(it, (list, tuple, dict, set, frozenset, str, bytes, bytearray, range)) or type(it).__name__ in ("dict_items", "dict_keys", "dict_values")
                for x in (list(it) if snapshot else it):
                    self._tick()
                    self.store(g.target, x, env2)
                    if all(self.truth(self.expr(c, env2)) for c in g.ifs):
                        if level + 1 < len(n.generators):
                            yield from items(level + 1)
                        elif isinstance(n, ast.DictComp):
                            yield (self.expr(n.key, env2), self.expr(n.value, env2))
                        else:
                            yield self.expr(n.elt, env2)
            if isinstance(n, ast.GeneratorExp):
                return items(0)
            if isinstance(n, ast.DictComp):
                return dict(items(0))
            out = list(items(0))
            return set(out) if isinstance(n, ast.SetComp) else out
        if isinstance(n, ast.Lambda):
            return _Closure(n, env, self._cls_stack[-1] if self._cls_stack else None)
        if isinstance(n, ast.NamedExpr):
            v = self.expr(n.value, env)
            self.store(n.target, v, env)
            return v
        if isinstance(n, ast.Call):
            return self.call(n, env)
        if isinstance(n, ast.Yield):
            gen = env.get("<generator>")
            if not isinstance(gen, GenValue):
                raise Unsupported("yield outside an interpreted generator function")
            return gen._yield(self.expr(n.value, env) if n.value is not None else None)
        if isinstance(n, ast.YieldFrom):
            gen = env.get("<generator>")
            if not isinstance(gen, GenValue):
                raise Unsupported("yield outside an interpreted generator function")
            inner = _plain(self.expr(n.value, env))
            if isinstance(inner, (Inst, Stub, Opaque, NativeModel, int, float, type(None), bool)):
                raise Unsupported("yield from " + type(inner).__name__)
            for v in inner:
                gen._yield(v)
            return None
        if isinstance(n, ast.Starred):
            raise Unsupported("starred expression")
        raise Unsupported("expression " + type(n).__name__)

    def _elts(self, elts, env) -> list:
        out = []
        for e in elts:
            if isinstance(e, ast.Starred):
                out.extend(list(_iterable(_plain(self.expr(e.value, env)), "unpacking")))
            else:
                out.append(self.expr(e, env))
        return out

    def _compare(self, op, left, right) -> bool:
        l, r = _plain(left) if not isinstance(right, DictInst) or isinstance(op, (ast.In, ast.NotIn)) else left, _plain(right) if isinstance(op, (ast.In, ast.NotIn)) else right
        try:
            if isinstance(op, ast.Is):
                return left is right or (isinstance(left, (Opaque, _ClassRef)) and left == right)
            if isinstance(op, ast.IsNot):
                return not (left is right or (isinstance(left, (Opaque, _ClassRef)) and left == right))
            if isinstance(op, ast.In):
                return left in _plain(right)
            if isinstance(op, ast.NotIn):
                return left not in _plain(right)
            if isinstance(op, ast.Eq):
                return bool(left == right)
            if isinstance(op, ast.NotEq):
                return bool(left != right)
            if isinstance(op, ast.Lt):
                return left < right
            if isinstance(op, ast.LtE):
                return left <= right
            if isinstance(op, ast.Gt):
                return left > right
            if isinstance(op, ast.GtE):
                return left >= right
        except TypeError:
            raise Raised("TypeError")
        raise Unsupported("comparison")

    def isinstance_(self, v, tnode, env) -> bool:
        ts = tnode.elts if isinstance(tnode, ast.Tuple) else [tnode]
        for t in ts:
            d = dotted(t)
            if d in _TYPES:
                py = _TYPES[d]
                if isinstance(v, DictInst) and py is dict:
                    return True
                if not isinstance(v, (Inst, Stub, Opaque, OpaqueInst, NativeModel)) and isinstance(v, py):
                    return True
                continue
            tv = self.expr(t, env)
            if isinstance(tv, _ClassRef):
                if isinstance(v, Inst) and self.derives(v.cls, tv.cls):
                    return True
                continue
            if isinstance(tv, Opaque):
                if isinstance(v, OpaqueInst) and v.of == tv:
                    return True
                if isinstance(v, NativeModel) and type(v).__name__.lower().startswith(tv.name.lower()):
                    return True
                continue
            if isinstance(tv, type):
                if isinstance(v, tv):
                    return True
                continue
            if isinstance(tv, tuple):
                for x in tv:
                    if isinstance(x, type) and isinstance(v, x):
                        return True
                continue
            raise Unsupported("isinstance against " + src(t))
        return False

    def call(self, n: ast.Call, env):
        fname = dotted(n.func)
        if fname == "isinstance" and len(n.args) == 2:
            return self.isinstance_(self.expr(n.args[0], env), n.args[1], env)
        args = self._elts(n.args, env)
        kw: Dict[str, object] = {}
        for k in n.keywords:
            if k.arg is None:
                kw.update(_plain(self.expr(k.value, env)))
            else:
                kw[k.arg] = self.expr(k.value, env)
        if fname in _NOOPS:
            return None
        local = isinstance(n.func, ast.Name) and n.func.id in env
        if fname in self.helpers and callable(self.helpers[fname]) and not local:
            try:
                return self.helpers[fname](*args, **kw)
            except _PY_ERRORS as e:
                raise Raised(_err_name(e))
        if fname in _STRUCT and not local:
            try:
                return _STRUCT[fname](*[_plain(a) for a in args])
            except _PY_ERRORS as e:
                raise Raised(_err_name(e))
        if fname in ("BytesIO", "io.BytesIO") and not local:
            return io.BytesIO(*args)
        if fname in _ITERTOOLS and fname.split(".")[0] not in env and not isinstance(self.find(fname.split(".")[0]), (ast.FunctionDef, ast.ClassDef)):
            pargs = [_plain(a) for a in args]
            if fname.endswith("from_iterable") and len(pargs) == 1:
                pargs = [(_iterable(_plain(x), "chain.from_iterable") for x in _iterable(pargs[0], "chain.from_iterable"))]
            elif fname.split(".")[-1] in ("chain", "zip_longest"):
                pargs = [_iterable(a, fname) for a in pargs]
            elif fname.split(".")[-1] == "islice" and pargs:
                pargs[0] = _iterable(pargs[0], fname)
            try:
                return _ITERTOOLS[fname](*pargs, **kw)
            except _PY_ERRORS as e:
                raise Raised(_err_name(e))
        if fname == "getattr" and len(args) in (2, 3) and isinstance(args[1], str):
            try:
                return self.getattr_value(args[0], args[1])
            except Raised as ex:
                if ex.name == "AttributeError" and len(args) == 3:
                    return args[2]
                raise
        if fname == "hasattr" and len(args) == 2:
            try:
                self.getattr_value(args[0], args[1])
                return True
            except Raised:
                return False
        if fname == "setattr" and len(args) == 3 and isinstance(args[0], Inst):
            args[0].fields[args[1]] = args[2]
            return None
        if fname == "id" and len(args) == 1:
            return id(args[0])
        if fname in ("map", "filter") and not local and not kw and len(args) >= 2 and not isinstance(self.find(fname), (ast.FunctionDef, ast.ClassDef)):
            fn, its = args[0], [_iterable(_plain(a), fname + "()") for a in args[1:]]
            if fname == "map":
                def mapped():
                    for xs in zip(*its):
                        self._tick()
                        yield self.call_value(fn, list(xs), {}, "map() function")
                return mapped()
            if len(its) != 1:
                raise Raised("TypeError")

            def kept():
                for x in its[0]:
                    self._tick()
                    if self.truth(x if fn is None else self.call_value(fn, [x], {}, "filter() function")):
                        yield x
            return kept()
        if isinstance(n.func, ast.Name):
            if local:
                return self.call_value(env[n.func.id], args, kw, n.func.id)
            if n.func.id in _PURE:
                return self._pure(n.func.id, args, kw)
            d = self.find(n.func.id)
            if isinstance(d, ast.FunctionDef):
                return self.func(d, args, kw)
            if isinstance(d, ast.ClassDef):
                return self.construct(d, args, kw)
            v = self.expr(n.func, env)      # module-level alias (Box = AmpBox), imported name ...
            return self.call_value(v, args, kw, n.func.id)
        if isinstance(n.func, ast.Attribute):
            f = n.func
            # super().__init__(...) / super().method(...)
            if isinstance(f.value, ast.Call) and dotted(f.value.func) == "super":
                cur = self._cls_stack[-1] if self._cls_stack else None
                me = env.get("self")
                if cur is None or not isinstance(me, Inst):
                    raise Unsupported("super() outside a method")
                r = self.lookup(me.cls, f.attr, after=cur)
                if r is not None and isinstance(r[1], ast.FunctionDef):
                    return self.func(r[1], [me] + args, kw, cls=r[0])
                if f.attr == "__init__":
                    if isinstance(me, DictInst):
                        me.data.update(dict(*[_plain(a) for a in args], **kw))
                    elif args:
                        me.fields["args"] = tuple(args)
                    return None
                if isinstance(me, DictInst) and f.attr in _DICT_FALLBACK | {"__repr__"}:
                    return repr(me.data) if f.attr == "__repr__" else getattr(me.data, f.attr)(*args, **kw)
                raise Raised("AttributeError")
            # Base.method(self, x)  /  dict.__repr__(self)
            if isinstance(f.value, ast.Name) and f.value.id not in env:
                c = self.find(f.value.id)
                if isinstance(c, ast.ClassDef):
                    r = self.lookup(c, f.attr)
                    if r and isinstance(r[1], ast.FunctionDef):
                        decos = {dotted(d) for d in r[1].decorator_list}
                        if "classmethod" in decos:
                            return self.func(r[1], [_ClassRef(c)] + args, kw, cls=r[0])
                        if "staticmethod" in decos:
                            return self.func(r[1], args, kw, cls=r[0])
                        return self.func(r[1], args, kw, cls=r[0])
                    if f.attr == "__init__" and args and isinstance(args[0], Inst):
                        if isinstance(args[0], DictInst):
                            args[0].data.update(dict(*[_plain(a) for a in args[1:]], **kw))
                        return None       # constructor of an unanalysed base (Exception.__init__ ...)
                    if r is not None:
                        return self.call_value(self.class_attr(r[0], f.attr), args, kw, src(f))
                    raise Raised("AttributeError")
                if f.value.id in ("dict", "Exception", "object") and f.attr in ("__init__", "__repr__"):
                    return repr(_plain(args[0])) if f.attr == "__repr__" else None
            recv = self.expr(f.value, env)
            if isinstance(recv, Inst):
                if f.attr in recv.fields:
                    return self.call_value(recv.fields[f.attr], args, kw, src(f))
                return self.method(recv, f.attr, args, kw)
            if isinstance(recv, (Stub, NativeModel, _ClassRef, OpaqueInst)):
                return self.call_value(self.getattr_value(recv, f.attr, src(f)), args, kw, src(f))
            if isinstance(recv, Opaque):
                return OpaqueInst(Opaque(recv.name + "." + f.attr), args, kw)
            for types, names in _OBJ_METHODS.items():
                if isinstance(recv, types) and f.attr in names:
                    try:
                        return getattr(recv, f.attr)(*[_plain(a) for a in args], **kw)
                    except _PY_ERRORS as e:
                        if isinstance(e, TypeError) and not isinstance(recv, (list, dict, set)) and _has_internal(list(args) + list(kw.values())):
                            raise Unsupported(f"{type(recv).__name__}.{f.attr}() applied to interpreter-level objects ({e})")
                        raise Raised(_err_name(e))
            if isinstance(recv, (int, float, type(None), bool, tuple, str, bytes, list, dict, set)):
                raise Raised("AttributeError")
            raise Unsupported("call " + src(f))
        return self.call_value(self.expr(n.func, env), args, kw, src(n.func))


def _load(t: ast.AST) -> ast.AST:
    e = fresh(t)
    for x in ast.walk(e):
        if hasattr(x, "ctx"):
            x.ctx = ast.Load()
    return e


_EXC_PARENT = {"struct.error": "Exception", "UnicodeDecodeError": "UnicodeError", "UnicodeEncodeError": "UnicodeError", "UnicodeError": "ValueError",
               "KeyError": "LookupError", "IndexError": "LookupError", "ZeroDivisionError": "ArithmeticError", "OverflowError": "ArithmeticError",
               "Exception": "BaseException", "BaseException": None}


def _handler_matches(h: ast.ExceptHandler, name: str) -> bool:
    if h.type is None:
        return True
    ts = h.type.elts if isinstance(h.type, ast.Tuple) else [h.type]
    wanted = {(dotted(t) or "?") if dotted(t) == "struct.error" else (dotted(t) or "?").split(".")[-1] for t in ts}
    cur: Optional[str] = name
    for _ in range(8):
        if cur is None:
            return False
        if cur in wanted or (cur == "struct.error" and "error" in wanted):
            return True
        cur = _EXC_PARENT.get(cur, "Exception")
    return False


def run_eval(fn):
    """-> ("value", v) | ("raised", name) | ("unsupported", why)."""
    try:
        return "value", fn()
    except Raised as ex:
        return "raised", ex.name
    except Unsupported as ex:
        return "unsupported", str(ex)
    except RecursionError:
        return "unsupported", "recursion limit of the analyser"
    except AnalysisError:
        raise
    except Exception as e:      # a Python-level error inside the interpreter itself: the construct is not modelled - never a crash of the analyser
        return "unsupported", f"the interpreter cannot evaluate this ({type(e).__name__}: {e})"


# ---- DNS: the encode/decode family ----------------------------------------------------------------------------------

def codec_classes(mod) -> List[ast.ClassDef]:
    """Module-level classes that define (themselves) ``encode`` or ``decode``."""
    out = []
    for n in mod.tree.body:
        if isinstance(n, ast.ClassDef):
            ms = methods(n)
            if "encode" in ms or "decode" in ms:
                out.append(n)
    return out


def module_classes(mod) -> Dict[str, ast.ClassDef]:
    return {n.name: n for n in mod.tree.body if isinstance(n, ast.ClassDef)}
