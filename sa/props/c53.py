"""C53 - Rotating log files lose and reorder nothing."""
from __future__ import annotations

import ast

from sa.astx import NotConst, call_attr, call_name, const_eval, lincmp, src, walk_local
from sa.selftest import Mutant, Silent
from sa.source import AnalysisError, base_names, class_assigns, methods
from sa.props._lib_j import leaf_values, local_defs, rsrc, body_always_entered, normalise, run_sections, all_paths, mini_call, MiniStop, asserted_is, edge_asserts, is_self_attr, no_exc, node_calls, normal_exits, params, resolve

PROPERTY = "C53"
LOG = "python/logfile.py"
QL = "twisted.python.logfile.LogFile"
QB = "twisted.python.logfile.BaseLogFile"
TECHNIQUE = ("order typestate over CFG paths, dominance, symbolic name forms, normalised comparisons; second layer (bounded): rotate() interpreted on every directory "
             "holding a subset of path.1..path.5 under six retention limits (rotate/evaluated-outcome)")
EXPLANATION = (
    "Decides: (a) listLogs() returns integers sorted ascending (numeric, sort after the last append) and rotate() walks them in "
    "descending order (exactly one reversal on every path to the loop), renaming i -> i+1 with one format, so no rename "
    "overwrites a retained file; every iteration either renames or removes file i, and removal is dominated by "
    "`maxRotatedFiles is not None and i >= maxRotatedFiles` exactly; (b) close -> rename(path, path.1) -> _openFile in this "
    "order after the shifting loop, the '.1' name agrees with the loop's format, and every destructive step is dominated by the "
    "writability tests (early return before anything is touched); (c) BaseLogFile.write rotates (flush, rotate) before the "
    "single _file.write(data); shouldRotate implies size >= rotateLength (and a falsy rotateLength disables rotation); size is "
    "re-read from tell() on every open and advanced only by len(data); an existing file is opened without truncation and "
    "positioned at its end. Not decided: the byte-exact suffix property, multi-byte size accounting (size counts characters: "
    "under-estimates only), DailyLogFile. "
    "(d) append-only discipline: in BaseLogFile and every subclass the open handle is only ever positioned by seek(0, 2) - no seek to a computed position "
    "(in particular not to the size counter, which counts characters of text and so falls behind the real end) and no truncate; (e) lock coverage: "
    "LogFile (and every other wrapped subclass) is passed to threadable.synchronize and every public method from which os.rename/os.remove or a write on the "
    "handle is reachable (through self.<m>(), <Base>.<m>(self), super().<m>()) is named in its `synchronized` list. "
    "Every anchor function is also checked to be entered on every call (no memoising/wrapping decorator, duplicate definition or rebinding). "
    "Methods: every clause is decided structurally (rotate() additionally evaluated on small directories, bounded); the i -> i+1 clause is symbolic (same name format, index difference 1 for every i), no value is plugged in. "
)
RULE_KINDS = {"*": "structural",
              "rotate/evaluated-outcome": "bounded"}  # second layer under order/shift/retention/sequence: rotate() interpreted on every subset of P.1..P.5 x 6 limits
# "*":    # sorted/reversed typestate over all CFG paths, dominance, symbolic file-name forms (index difference), normalised comparisons
ASSUMPTIONS = [
    "the rules read a normalised view of the anchored modules (sa/props/_lib_j.Normaliser): private helpers expanded at their call sites, module constants and single-assignment pure temporaries substituted, loops over constant tuples unrolled; evaluation order inside one statement is not modelled",
   "os.rename is atomic; glob returns every rotated file", "threadable.synchronize(cls) wraps exactly the methods named in cls.synchronized with one reentrant per-instance lock (that every mutating public method is named there is checked: lock/mutating-methods-synchronized)",
    "the file position is only changed by the handle's own seek()/truncate()/write() (the descriptor is not shared); the size counter is not judged as a byte count - it may only be used for the rotation decision, never as a file position (write/handle-only-moved-to-the-real-end)"]


def _fmt_pair(e):
    """("%s.%d", [arg exprs]) for ``"fmt" % (a, b)`` / ``"fmt" % a``."""
    if isinstance(e, ast.BinOp) and isinstance(e.op, ast.Mod) and isinstance(e.left, ast.Constant) and isinstance(e.left.value, str):
        args = list(e.right.elts) if isinstance(e.right, ast.Tuple) else [e.right]
        return e.left.value, args
    if isinstance(e, ast.JoinedStr):
        fmt, args = "", []
        for v in e.values:
            if isinstance(v, ast.Constant):
                fmt += str(v.value).replace("%", "%%")
            else:
                fmt += "%s"
                args.append(v.value)
        return fmt, args
    return None


_PATH_TEXTS = ("self.path", "glob.escape(self.path)")


def _render(e, env, func=None):
    """Evaluate a log-file-name expression with self.path = 'P' and the loop variable bound; locals with a single
    definition in ``func`` are looked through (``old = "%s.%d" % (self.path, i)``)."""
    if func is not None:
        e = resolve(e, func, keep=set(env))
    fp = _fmt_pair(e)
    if fp is None:
        if src(e) in _PATH_TEXTS:
            return "P"
        return None
    fmt, args = fp
    vals = []
    for a in args:
        if src(a) in _PATH_TEXTS:
            vals.append("P")
        else:
            try:
                vals.append(const_eval(a, env))
            except NotConst:
                return None
    try:
        return fmt % tuple(vals)
    except (TypeError, ValueError):
        return None


def _name_form(e, func, var=None):
    """Symbolic reading of a log-file-name expression: (format with every placeholder written %s, index expression or None) when the expression is
    ``<fmt> % (self.path, <index>)`` / an f-string of the same shape / ``<fmt> % self.path`` / ``self.path``; locals are looked through.
    The verdict built on it holds for every path and every index (no value is plugged in)."""
    if func is not None:
        e = resolve(e, func, keep={var} if var else ())
    if src(e) in _PATH_TEXTS:
        return "%s", None
    fp = _fmt_pair(e)
    if fp is None:
        return None
    fmt, args = fp
    fmt = fmt.replace("%d", "%s").replace("%i", "%s")
    if not args or src(args[0]) not in _PATH_TEXTS or len(args) > 2 or fmt.count("%s") != len(args):
        return None
    return fmt, (args[1] if len(args) == 2 else None)


def _index_minus(a, b):
    """constant value of  a - b  when the two index expressions differ by a constant for every value of their variables, else None"""
    lc = lincmp(ast.Compare(left=a, ops=[ast.GtE()], comparators=[b]))
    if lc is None or lc[0]:
        return None
    return -lc[1]


def _order_after(call, state):
    """Typestate transfer for list-order operations."""
    a = call_attr(call)
    rev = any(k.arg == "reverse" and src(k.value) == "True" for k in call.keywords)
    if a == "reverse":
        return {"ASC": "DESC", "DESC": "ASC"}.get(state, "?")
    if a == "sort":
        return "?" if any(k.arg == "key" for k in call.keywords) else ("DESC" if rev else "ASC")
    return "?"


def _s_listlogs(ctx, S):
    # ================= listLogs: ascending integers ============================================================
    # Two ways of building the result are read: a list variable filled by append() and sorted in place, or sorted(<comprehension / generator / list>).
    f = ctx.func(LOG, "LogFile.listLogs")
    g = ctx.cfg(f)
    q = QL + ".listLogs"
    mod = ctx.mod(LOG)
    rets = [x for x in normal_exits(g)]
    ctx.need(rets and all(isinstance(g.node(x).ast, ast.Return) and g.node(x).ast.value is not None for x in rets), "listLogs returns a value on every path")

    def sorted_call(v):
        return isinstance(v, ast.Call) and call_name(v) == "sorted" and len(v.args) == 1 and not any(k.arg == "key" for k in v.keywords)

    def elements(e, depth=0):
        """expressions the elements of collection ``e`` are taken from (comprehensions are looked through, a loop variable over another collection stands for that
        collection's elements); None when the shape is not read"""
        if depth > 6:
            return None
        if isinstance(e, (ast.ListComp, ast.GeneratorExp, ast.SetComp)) and len(e.generators) >= 1:
            bind = {}
            for gen_ in e.generators:
                if isinstance(gen_.target, ast.Name):
                    bind[gen_.target.id] = gen_.iter
            elt = e.elt
            if isinstance(elt, ast.Name) and elt.id in bind:
                return elements(bind[elt.id], depth + 1)
            return [elt]
        if isinstance(e, (ast.List, ast.Tuple)):
            return list(e.elts)
        if isinstance(e, ast.Call) and call_name(e) in ("list", "tuple", "sorted", "reversed", "iter", "filter") and e.args:
            return elements(e.args[-1], depth + 1)
        if isinstance(e, ast.Name):
            out = []
            for v, _, _ in leaf_values(f, e):
                if isinstance(v, ast.Name):
                    return None
                if isinstance(v, ast.List) and not v.elts:
                    continue
                sub = elements(v, depth + 1)
                if sub is None:
                    return None
                out += sub
            out += [c.args[0] for n, c in node_calls(g, lambda c: call_name(c) == e.id + ".append" and c.args)]
            out += [c.args[1] for n, c in node_calls(g, lambda c: _is_insort(c) and src(c.args[0]) == e.id)]
            return out
        return None

    def numeric(v, depth=0):
        """v is an int for every input: int(...), an int literal, a local all of whose definitions are, or a private/module helper all of whose returns are"""
        if isinstance(v, ast.Call) and call_name(v) == "int":
            return [v]
        if isinstance(v, ast.Constant) and isinstance(v.value, int) and not isinstance(v.value, bool):
            return []
        if isinstance(v, ast.Name):
            ls = leaf_values(f, v)
            if any(isinstance(x, ast.Name) for x, _, _ in ls):
                return None
            outs = [numeric(x, depth + 1) for x, _, _ in ls]
            return None if any(o is None for o in outs) else [c for o in outs for c in o]
        if isinstance(v, ast.Call) and depth < 3:
            nm = call_name(v) or ""
            h = mod.find(nm) if "." not in nm else (mod.find("LogFile." + nm.split(".", 1)[1]) if nm.startswith("self.") else None)
            if isinstance(h, ast.FunctionDef):
                outs = []
                for r in [x for x in walk_local(h) if isinstance(x, ast.Return)]:
                    if r.value is None:
                        return None
                    for x, _, _ in leaf_values(h, r.value):
                        o = numeric_in(h, x)
                        if o is None:
                            return None
                        outs += o
                return outs
        return None

    def numeric_in(h, v):
        if isinstance(v, ast.Call) and call_name(v) == "int":
            return [(h, v)]
        if isinstance(v, ast.Constant) and isinstance(v.value, int) and not isinstance(v.value, bool):
            return []
        return None
    src_list = None
    asc = True
    for x in rets:
        v = g.node(x).ast.value
        if sorted_call(v):
            if any(k.arg == "reverse" and src(k.value) == "True" for k in v.keywords):
                asc = False
            src_list = v.args[0]
        elif isinstance(v, ast.Name):
            res = v.id
            sorts = [n for n, c in node_calls(g, lambda c: call_name(c) == res + ".sort" and not c.keywords)]
            muts = [n for n, c in node_calls(g, lambda c: isinstance(c.func, ast.Attribute) and src(c.func.value) == res and call_attr(c) in ("append", "extend", "insert", "reverse", "sort", "pop", "remove"))
                    if n not in sorts]
            w = g.must_precede(sorts, [x], exc=False)
            late = [m for m in muts if any(g.path([s_], [m], edge_ok=no_exc, strict=True) for s_ in sorts)]
            by_def = [d for d, _, _ in leaf_values(f, v) if sorted_call(d)]
            # a list that starts empty and only ever grows through bisect.insort() is ascending at every point
            ins = [n for n, c in node_calls(g, lambda c: _is_insort(c) and src(c.args[0]) == res)]
            defs_ = [d for d, _, _ in leaf_values(f, v)]
            by_insort = bool(ins) and not muts and not sorts and bool(defs_) and all(isinstance(d, ast.List) and not d.elts for d in defs_) and \
                not any(isinstance(t, ast.Subscript) and src(t.value) == res for a in walk_local(f) if isinstance(a, (ast.Assign, ast.AugAssign, ast.Delete))
                        for t in (a.targets if not isinstance(a, ast.AugAssign) else [a.target]))
            if not (bool(sorts) and w is None and not late) and not by_def and not by_insort:
                asc = False
            src_list = v
        else:
            raise AnalysisError(f"listLogs returns {src(v)}: neither a list variable nor sorted(<collection>)")
    ctx.check(asc, "order/listLogs-ascending", q,
              "listLogs() can return identifiers that are not sorted ascending (no sort() dominating the return, a descending sort, or the list is modified after "
              "sorting): rotate() then renames in the wrong order and overwrites retained logs")
    elts = elements(src_list)
    ctx.need(elts, "the expressions listLogs collects its identifiers from")
    ints = []
    ok_num = True
    for e in elts:
        o = numeric(e)
        if o is None:
            ok_num = False
        else:
            ints += o
    ctx.check(ok_num, "order/listLogs-numeric", q,
              "identifiers are not collected as integers: the sort is lexicographic ('10' < '2') and logs are rotated out of order")
    last_forms = ("split('.')[-1]", "rpartition('.')[2]", "rpartition('.')[-1]", "rsplit('.', 1)[-1]", "rsplit('.', 1)[1]")
    for c in ints:
        h, call = c if isinstance(c, tuple) else (f, c)
        txt = rsrc(call.args[0], h) if call.args else ""
        ctx.check(any(t in txt for t in last_forms), "order/listLogs-identifier-is-last-component", ctx.construct(q, "int(<last dot-separated component>)"),
                  "the identifier is not the last dot-separated component of the file name")
    ctx.check(bool(ints), "order/listLogs-identifier-is-last-component", q, "no int(<component>) conversion found for the identifiers")
    globs = [c for c in ast.walk(f) if isinstance(c, ast.Call) and call_name(c) == "glob.glob"]
    ctx.check(len(globs) == 1 and _render(globs[0].args[0], {}) == "P.*", "order/listLogs-sees-every-rotated-file", q, "listLogs() does not glob '<path>.*'")


def _is_insort(c):
    return call_name(c) in ("bisect.insort", "bisect.insort_right", "bisect.insort_left", "insort", "insort_right", "insort_left") and len(c.args) == 2 and not c.keywords


class _Disk:
    """what rotate() is run against when it is evaluated: a set of file names plus the journal of what was done to them"""
    _mini_symbolic = True

    def __init__(self, names):
        self.names = set(names)
        self.content = {n: n for n in names}        # every file "contains" its original name
        self.journal = []
        self.problems = []
        self.W_OK = 2
        self.R_OK = 4
        self.F_OK = 0
        self.path = self

    def access(self, *a):
        return True

    def exists(self, p):
        return p in self.names

    def remove(self, p):
        if p not in self.names:
            raise OSError(p)
        self.journal.append(("remove", p))
        self.names.discard(p)
        self.content.pop(p, None)

    unlink = remove

    def rename(self, a, b):
        if a not in self.names:
            raise OSError(a)
        if b in self.names:
            self.problems.append(f"rename {a} -> {b} overwrites the existing {b}")
        self.journal.append(("rename", a, b))
        self.names.discard(a)
        self.names.add(b)
        self.content[b] = self.content.pop(a)

    replace = rename


class _Handle:
    _mini_symbolic = True

    def __init__(self, disk):
        self.disk = disk

    def close(self):
        self.disk.journal.append(("close",))


class _Log:
    _mini_symbolic = True

    def __init__(self, disk, ids, limit):
        self.path = "P"
        self.directory = "D"
        self.name = "P"
        self.maxRotatedFiles = limit
        self._file = _Handle(disk)
        self._ids = ids
        self._disk = disk

    def listLogs(self):
        return sorted(self._ids)

    def _openFile(self):
        self._disk.journal.append(("open",))
        self._disk.names.add("P")
        self._disk.content["P"] = "new"


def _evaluate_rotate(f, ids, limit):
    """run rotate() on a directory holding P and P.<i> for i in ids; returns (problems, MiniStop reason or None)"""
    disk = _Disk(["P"] + [f"P.{i}" for i in ids])
    log = _Log(disk, ids, limit)
    try:
        mini_call(f, {params(f)[0]: log}, budget=4000, builtins={"os": disk, "sorted": sorted, "int": int, "min": min, "max": max, "range": range})
    except MiniStop as e:
        return None, str(e)
    except Exception as e:   # an exception escaping rotate() on a fully writable directory
        return [f"rotate() raises {e}"], None
    problems = list(disk.problems)
    want = {"P": "new", "P.1": "P"}
    for i in ids:
        if limit is None or i < limit:
            want[f"P.{i + 1}"] = f"P.{i}"
    if disk.content != want:
        lost = sorted(v for v in want.values() if v not in disk.content.values())
        extra = sorted(k for k in disk.content if k not in want)
        wrong = sorted(k for k in want if k in disk.content and disk.content[k] != want[k])
        problems.append("afterwards " + "; ".join(x for x in (f"the content of {lost} is gone" if lost else "", f"{extra} should have been removed" if extra else "",
                                                          f"{wrong} hold the wrong generation" if wrong else "") if x))
    j = [x[0] if x[0] != "rename" or x[1] != "P" else "current" for x in disk.journal]
    if "current" in j:
        k = j.index("current")
        if "close" not in j[:k]:
            problems.append("the current file is renamed before it is closed")
        if "open" not in j[k:]:
            problems.append("no new file is opened after the current one was renamed")
        if any(x in ("rename", "remove") for x in j[k:]):
            problems.append("older files are shifted after the current file took path.1")
    else:
        problems.append("the current file is never renamed")
    return problems, None


def _s_rotate_evaluated(ctx, S):
    # second layer, independent of how the loops are written: rotate() is interpreted on every directory holding a subset of P.1 .. P.5 with every limit
    f = ctx.func(LOG, "LogFile.rotate")
    q = QL + ".rotate"
    import itertools
    bad = None
    n = 0
    for k in range(0, 6):
        for ids in itertools.combinations(range(1, 6), k):
            for limit in (None, 1, 2, 3, 4, 6):
                problems, stop = _evaluate_rotate(f, list(ids), limit)
                if stop is not None:
                    raise AnalysisError(f"rotate() cannot be evaluated ({stop})")
                n += 1
                if problems and bad is None:
                    bad = (list(ids), limit, problems)
    ctx.check(bad is None, "rotate/evaluated-outcome", q,
              "evaluating rotate() on a directory with rotated files %s and maxRotatedFiles=%s: %s" % (bad[0], bad[1], "; ".join(bad[2])) if bad else "",
              detail=f"bounded: {n} directories (every subset of P.1..P.5 x maxRotatedFiles in None,1,2,3,4,6); every other method stubbed")


def _s_rotate(ctx, S):
    # ================= rotate ==================================================================================
    f = ctx.func(LOG, "LogFile.rotate")
    g = ctx.cfg(f)
    q = QL + ".rotate"
    # the shifting loop, read by role: head node, loop variable, body entry, and the ORDER in which the identifiers are visited.  Forms read:
    #   for i in <list>            for i in reversed(<list>)         for i in <list>[::-1]        while <list>: i = <list>.pop()   (or .pop(0))
    def initial_order(v):
        if isinstance(v, ast.Call) and call_name(v) == "self.listLogs":
            return "ASC"
        if isinstance(v, ast.Call) and call_name(v) == "sorted" and v.args and src(v.args[0]) == "self.listLogs()" and not any(k.arg == "key" for k in v.keywords):
            return "DESC" if any(k.arg == "reverse" and src(k.value) == "True" for k in v.keywords) else "ASC"
        if isinstance(v, ast.Call) and call_name(v) in ("list", "tuple") and len(v.args) == 1:
            return order_of_expr(v.args[0], None)
        return "?"

    def flipped(st):
        return {"ASC": "DESC", "DESC": "ASC"}.get(st, "?")

    def order_of_name(name, at):
        """set of orders the list variable ``name`` can be in when control reaches node ``at`` (typestate over every path from each of its definitions)"""
        out = set()
        dnodes = [n for n in g.nodes if n.kind == "stmt" and g.reachable(n.id) and isinstance(n.ast, ast.Assign) and any(src(t) == name for t in n.ast.targets)]
        if not dnodes:
            return {"?"}
        for d in dnodes:
            init = order_of_expr(d.ast.value, None)
            for path in all_paths(g, d.id, {at}):
                st = init
                for nid in path[1:-1]:
                    n = g.node(nid)
                    if n.ast is None or n.kind != "stmt":
                        continue
                    for c in walk_local(n.ast):
                        if isinstance(c, ast.Call) and isinstance(c.func, ast.Attribute) and src(c.func.value) == name:
                            st = _order_after(c, st) if call_attr(c) in ("reverse", "sort") else ("?" if call_attr(c) in ("append", "insert", "extend", "remove") else st)
                out.add(st)
        return out or {"?"}

    def order_of_expr(e, at):
        if isinstance(e, ast.Call) and call_name(e) == "reversed" and len(e.args) == 1:
            return flipped(order_of_expr(e.args[0], at))
        if isinstance(e, ast.Subscript) and isinstance(e.slice, ast.Slice) and e.slice.lower is None and e.slice.upper is None:
            step = src(e.slice.step) if e.slice.step is not None else "1"
            inner = order_of_expr(e.value, at)
            return inner if step == "1" else (flipped(inner) if step == "-1" else "?")
        if isinstance(e, ast.Name):
            if at is None:
                return "?"
            sts = order_of_name(e.id, at)
            return next(iter(sts)) if len(sts) == 1 else "?"
        return initial_order(e)

    fors = [n for n in g.nodes if n.kind == "for" and g.reachable(n.id)]
    whiles = [n for n in g.nodes if n.kind == "join" and isinstance(n.ast, ast.While) and g.reachable(n.id)]
    if not fors and not whiles:
        ctx.violation("shift/every-file-moved-or-removed", ctx.construct(q, "loop body"), "rotate() does not shift the older files at all: renaming the current "
                      "file to path.1 overwrites the previous path.1")
        return
    if len(fors) + len(whiles) != 1:
        # the shift is spread over several loops (e.g. one that drops the surplus files, one that renames the rest): the per-iteration clauses are not read
        # from this shape; what does not depend on the loop shape is still decided below, the rest is left to rotate/evaluated-outcome
        ctx.note(f"order/shift/retention clauses: {len(fors) + len(whiles)} loops in rotate(), per-iteration shape not read; left to the bounded rule rotate/evaluated-outcome")
        _rotate_sequence(ctx, f, g, q, {n.id for n in g.nodes if g.reachable(n.id) and g.path([d for d, l in g.succ[n.id] if l not in ("exc", "raise")], [n.id], edge_ok=no_exc) is not None}, None)
        return
    if fors:
        lp = fors[0]
        head, var = lp.id, src(lp.ast.target)
        entry = [d for d, l in g.succ[head] if l == "iter"]
        state_at_loop = {order_of_expr(lp.ast.iter, head)}
    else:
        lp = whiles[0]
        head = lp.id
        pops = [a for a in ast.walk(lp.ast) if isinstance(a, ast.Assign) and len(a.targets) == 1 and isinstance(a.targets[0], ast.Name) and isinstance(a.value, ast.Call)
                and call_attr(a.value) in ("pop", "popleft") and isinstance(a.value.func.value, ast.Name)]
        ctx.need(len(pops) == 1, "`<i> = <list>.pop()` in the while loop of rotate")
        lst = pops[0].value.func.value.id
        var = pops[0].targets[0].id
        tst = lp.ast.test
        lc = lincmp(tst)
        ctx.need(src(tst) == lst or (lc is not None and dict(lc[0]) == {f"len({lst})": 1} and lc[1] == 1), f"`while {lst}:` (runs until the list is exhausted)")
        entry = [n.id for n in g.nodes if n.ast is lp.ast.body[0] and g.reachable(n.id)]
        a0 = pops[0].value.args[0] if pops[0].value.args else None
        from_front = call_attr(pops[0].value) == "popleft" or (a0 is not None and src(a0) == "0")
        from_back = call_attr(pops[0].value) == "pop" and (a0 is None or src(a0) == "-1")
        base_orders = order_of_name(lst, head)
        state_at_loop = {(st_ if from_front else flipped(st_)) if (from_front or from_back) else "?" for st_ in base_orders}
    ctx.check(state_at_loop == {"DESC"}, "order/rotate-highest-first", ctx.construct(q, "for <i> in <logs>"),
              f"the rotated files are walked in order {sorted(state_at_loop)} instead of highest identifier first: renaming i -> i+1 overwrites the "
              f"not-yet-moved file i+1 (its content is lost and the rest is shifted wrongly)")

    body_nodes = g.reach(entry, avoid=[head])
    renames = [(n, c) for n, c in node_calls(g, lambda c: call_name(c) in ("os.rename", "os.replace")) if n in body_nodes]
    removes = [(n, c) for n, c in node_calls(g, lambda c: call_name(c) in ("os.remove", "os.unlink")) if n in body_nodes]
    ctx.check(len(renames) == 1, "shift/rename-i-to-i-plus-1", q, f"{len(renames)} shifting renames in the loop (one expected)")
    for n, c in renames:
        # symbolic: same "<path>.<index>" format on both sides, source index is the loop variable, target index - source index == 1 for every i
        a_, b_ = (_name_form(c.args[0], f, var), _name_form(c.args[1], f, var)) if len(c.args) == 2 else (None, None)
        ok = bool(a_ and b_) and a_[0] == b_[0] == "%s.%s" and a_[1] is not None and b_[1] is not None and src(a_[1]) == var and _index_minus(b_[1], a_[1]) == 1
        ctx.check(ok, "shift/rename-i-to-i-plus-1", ctx.construct(q, "os.rename(<path.i>, <path.i+1>)"),
                  f"the shifting rename is not path.i -> path.(i+1): {src(c)} (a retained log is overwritten or the sequence gets a hole / wrong order)")
    for n, c in removes:
        a_ = _name_form(c.args[0], f, var) if len(c.args) == 1 else None
        ok = bool(a_) and a_[0] == "%s.%s" and a_[1] is not None and src(a_[1]) == var
        ctx.check(ok, "retention/removes-file-i", ctx.construct(q, "os.remove(<path.i>)"), f"the file removed is not path.i: {src(c)}")
        asserts = edge_asserts(g, n)
        notnone = any((a := asserted_is(t, lab)) is not None and not a[2] and src(a[0]) == "self.maxRotatedFiles" and src(a[1]) == "None" for t, lab in asserts)
        bounds = [lincmp(t, negate=(lab == "F")) for t, lab in asserts]
        exact = any(b is not None and dict(b[0]) == {var: 1, "self.maxRotatedFiles": -1} and b[1] == 0 for b in bounds)
        anyb = [b for b in bounds if b is not None and set(dict(b[0])) == {var, "self.maxRotatedFiles"}]
        ctx.check(notnone, "retention/never-removes-without-limit", ctx.construct(q, "os.remove(<path.i>)"),
                  "a rotated log can be removed although maxRotatedFiles is None (without a retention count nothing may be lost)")
        ctx.check(exact, "retention/keeps-exactly-newest", ctx.construct(q, "os.remove(<path.i>)"),
                  f"removal is not guarded by exactly `i >= maxRotatedFiles` (found {[(dict(b[0]), b[1]) for b in anyb]}): one file too many or too few is "
                  f"kept")
    # every iteration handles file i
    acts = [n for n, _ in renames + removes]
    w = g.path(entry, [head], avoid=acts, edge_ok=no_exc)
    ctx.check(w is None, "shift/every-file-moved-or-removed", ctx.construct(q, "loop body"),
              "an iteration can leave file i in place: the next rename (i-1 -> i) overwrites it", witness=g.describe(w))
    for n in acts:
        # a failing rename/remove of file i must abort the rotation: if it is swallowed, the next rename (i-1 -> i) overwrites file i
        starts = [d for d, l in g.succ[n] if l == "exc"]
        w = g.path(starts, [head] + [x for x, _ in node_calls(g, lambda c: call_name(c) in ("os.rename", "os.replace")) if x not in body_nodes], strict=False) if starts else None
        ctx.check(w is None, "shift/failed-shift-aborts-rotation", ctx.construct(q, g.node(n).ast if not isinstance(g.node(n).ast, ast.Try) else "shift"),
                  "an OSError from moving / removing file i is swallowed and the rotation goes on: the next rename (i-1 -> i, finally current -> .1) "
                  "overwrites the file that could not be moved - its content is lost", witness=g.describe(([n] + w) if w else None))
    for n, c in renames:
        # the rename branch is exactly the complement of the remove branch
        for rn, rc in removes:
            ctx.check(g.path([n], [rn], avoid=[head], edge_ok=no_exc) is None and g.path([rn], [n], avoid=[head], edge_ok=no_exc) is None,
                      "shift/every-file-moved-or-removed", ctx.construct(q, "rename xor remove"), "a file is both removed and renamed in one iteration")

    _rotate_sequence(ctx, f, g, q, body_nodes, head)


def _rotate_sequence(ctx, f, g, q, body_nodes, head):
    """close -> rename(current, path.1) -> reopen, after the shift, and nothing destructive without write access; ``head`` is None when the loop shape
    was not read (then the shift-before-current ordering is judged against every loop node)"""
    acts = [n for n, c in node_calls(g, lambda c: call_name(c) in ("os.rename", "os.replace", "os.remove", "os.unlink")) if n in body_nodes]
    closes = [n for n, c in node_calls(g, lambda c: call_name(c) == "self._file.close")]
    finals = [(n, c) for n, c in node_calls(g, lambda c: call_name(c) in ("os.rename", "os.replace")) if n not in body_nodes]
    opens = [n for n, c in node_calls(g, lambda c: call_name(c) == "self._openFile")]
    ctx.check(len(finals) == 1 and bool(closes) and bool(opens), "sequence/close-rename-open", q, "rotate() does not close, rename the current file and reopen")
    for n, c in finals:
        a_, b_ = (_name_form(c.args[0], f), _name_form(c.args[1], f)) if len(c.args) == 2 else (None, None)
        ok = bool(a_ and b_) and a_ == ("%s", None) and ((b_[0] == "%s.1" and b_[1] is None) or (b_[0] == "%s.%s" and b_[1] is not None and src(b_[1]) == "1"))
        ctx.check(ok, "sequence/current-becomes-1", ctx.construct(q, "os.rename(<path>, <path.1>)"),
                  f"the current file is not renamed to path.1 (the slot freed by the shift): {src(c)}")
        ctx.check(g.must_precede(closes, [n], exc=False) is None, "sequence/close-rename-open", ctx.construct(q, "close before rename"),
                  "the current file is renamed before it is closed")
        w = g.must_pass([n], opens, exc=False)
        ctx.check(w is None, "sequence/close-rename-open", ctx.construct(q, "reopen after rename"), "after the rename rotate() can return without opening a new file: later writes are lost",
                  witness=g.describe(w))
        heads = [head] if head is not None else acts
        ctx.check(g.path([n], heads, edge_ok=no_exc) is None and g.path(heads, [n], edge_ok=no_exc) is not None and
                  (head is None or g.must_precede([head], [n], exc=False) is None), "sequence/shift-before-current", ctx.construct(q, "shift loop before final rename"),
                  "the current file is renamed to path.1 before the older files were shifted: path.1 is overwritten")
    # nothing is touched unless directory and file are writable
    access = {"os.access(self.directory, os.W_OK)", "os.access(self.path, os.W_OK)"}
    for n in acts + closes + [x for x, _ in finals]:
        got = {src(t) for t, lab in edge_asserts(g, n) if lab == "T"}
        ctx.check(access <= got, "sequence/untouched-when-not-writable", ctx.construct(q, g.node(n).ast),
                  "files are closed / renamed / removed although the directory or the file is not writable: rotation fails half-way and reorders or "
                  "loses data")



def _s_write(ctx, S):
    # ================= write / shouldRotate / size ==============================================================
    f = ctx.func(LOG, "BaseLogFile.write")
    g = ctx.cfg(f)
    q = QB + ".write"
    data = params(f)[1]
    # what is written is the data itself or its UTF-8 encoding - through whatever local it travels
    def is_data(v):
        return (isinstance(v, ast.Name) and v.id == data) or \
            (isinstance(v, ast.Call) and call_attr(v) == "encode" and isinstance(v.func, ast.Attribute) and src(v.func.value) == data)
    wcalls = [(n, c) for n, c in node_calls(g, lambda c: call_name(c) == "self._file.write" and len(c.args) == 1)
              if all(is_data(v) for v, _, _ in leaf_values(f, c.args[0]))]
    wr = [n for n, c in wcalls]
    ctx.check(len(wr) == 1 and g.must_pass([g.entry], wr, exc=False) is None, "write/data-written-once", q, "write() does not write the data exactly once on every path")
    tests = g.ids(lambda n: n.kind == "test" and src(n.ast) == "self.shouldRotate()")
    rots = [n for n, c in node_calls(g, lambda c: call_name(c) == "self.rotate")]
    fl = [n for n, c in node_calls(g, lambda c: call_name(c) == "self.flush")]
    ctx.check(bool(tests) and bool(rots), "write/rotates-before-writing", q, "write() never rotates")
    for t in tests:
        tsucc = [d for d, l in g.succ[t] if l == "T"]
        w = g.path(tsucc, wr, avoid=rots, edge_ok=no_exc)
        ctx.check(w is None, "write/rotates-before-writing", ctx.construct(q, "if self.shouldRotate()"),
                  "when rotation is due the data can be written before the file is rotated: the rotated file receives data newer than the "
                  "beginning of the current file only by luck - order of retained data changes", witness=g.describe(w))
    for r in rots:
        ctx.check(g.guarded(r, lambda e: src(e) == "self.shouldRotate()", True), "write/rotates-only-when-due", ctx.construct(q, "self.rotate()"),
                  "write() rotates although shouldRotate() is false: rotated files are shorter than rotateLength")
        ctx.check(bool(fl) and g.must_precede(fl, [r], exc=False) is None, "write/flush-before-rotate", ctx.construct(q, "self.flush()"), "the file is not flushed before rotation")
        for w_ in wr:
            ctx.check(g.path([w_], [r], edge_ok=no_exc) is None, "write/rotates-before-writing", ctx.construct(q, "rotate after write"), "rotation happens after the write")
    encs = [(v, chain, conds) for n, c in wcalls for v, conds, chain in leaf_values(f, c.args[0]) if isinstance(v, ast.Call) and call_attr(v) == "encode"]
    ok_enc = bool(encs) and all(v.args and "utf" in src(v.args[0]).lower().replace("-", "") for v, _, _ in encs)
    # the encoding applies exactly to text: the statement (or conditional-expression arm) that encodes is guarded by isinstance(data, str)
    for v, chain, conds_ in encs:
        st_ = next((x for x in [getattr(v, "_parent", None)] + list(chain) if isinstance(x, ast.stmt)), None)
        p_ = v
        while st_ is None and p_ is not None:
            p_ = getattr(p_, "_parent", None)
            st_ = p_ if isinstance(p_, ast.stmt) else None
        nodes_ = [x.id for x in g.nodes if x.ast is st_ and g.reachable(x.id)] if st_ is not None else []
        is_text = (f"isinstance({data}, str)", f"type({data}) is str", f"type({data}) == str")
        by_arm = any(src(t) in is_text and arm for t, arm in conds_)
        ok_enc = ok_enc and (by_arm or (bool(nodes_) and all(g.guarded(x, lambda e: src(e) in is_text, True) for x in nodes_)))
    ctx.check(ok_enc, "write/text-encoded", q, "text is not encoded as UTF-8 (exactly when the data is str) before writing")


def _s_should_rotate(ctx, S):
    f = ctx.func(LOG, "LogFile.shouldRotate")
    q = QL + ".shouldRotate"
    g = ctx.cfg(f)
    want = {"self.size": 1, "self.rotateLength": -1}
    nret = 0
    for x in normal_exits(g):
        st = g.node(x).ast
        v = st.value if isinstance(st, ast.Return) else None
        if v is None or (isinstance(v, ast.Constant) and not v.value):
            continue        # answers "do not rotate"
        if any(src(t) == src(v) and lab == "F" for t, lab in edge_asserts(g, x)):
            continue        # returns a value the dominating guard has just found falsy: "do not rotate"
        nret += 1
        conj = list(v.values) if isinstance(v, ast.BoolOp) and isinstance(v.op, ast.And) else [v]
        forms = [lincmp(c) for c in conj] + [lincmp(t, negate=(lab == "F")) for t, lab in edge_asserts(g, x)]
        implied = any(fm is not None and dict(fm[0]) == want and fm[1] >= 0 for fm in forms)
        ctx.check(implied, "boundary/rotated-file-at-least-rotateLength", ctx.construct(q, st),
                  f"shouldRotate() can be true while size < rotateLength ({src(v)}): a file shorter than the rotation length is rotated")
        truthy_len = any(src(c) in ("self.rotateLength", "bool(self.rotateLength)") for c in conj) or any(src(t) == "self.rotateLength" and lab == "T" for t, lab in edge_asserts(g, x)) or \
            any("self.rotateLength is not None" in src(c) for c in conj) or any(src(t) == "self.rotateLength is not None" and lab == "T" for t, lab in edge_asserts(g, x)) or \
            any(src(t) == "self.rotateLength is None" and lab == "F" for t, lab in edge_asserts(g, x))
        ctx.check(truthy_len, "boundary/rotation-disabled-when-no-length", ctx.construct(q, st),
                  "a rotateLength of None/0 does not disable rotation (comparison with None raises / rotates on every write)")
    ctx.check(nret >= 1, "boundary/rotates-at-all", q, "shouldRotate() never answers true: the log is never rotated")



def _s_size(ctx, S):
    f = ctx.func(LOG, "LogFile.write")
    g = ctx.cfg(f)
    q = QL + ".write"
    data = params(f)[1]
    bw = [n for n, c in node_calls(g, lambda c: call_name(c) == "BaseLogFile.write" and len(c.args) == 2 and src(c.args[1]) == data)]
    ups = g.ids(lambda n: n.kind == "stmt" and isinstance(n.ast, ast.AugAssign) and is_self_attr(n.ast.target, "size"))
    ctx.check(len(bw) == 1 and g.must_pass([g.entry], bw, exc=False) is None, "write/data-written-once", q, "LogFile.write does not delegate the data once to BaseLogFile.write")
    ctx.check(len(ups) == 1 and isinstance(g.node(ups[0]).ast.op, ast.Add) and src(g.node(ups[0]).ast.value) == f"len({data})", "size/advanced-by-written-length", q,
              "size is not advanced by exactly len(data) per write: an over-estimate rotates files shorter than rotateLength")
    if ups and bw:
        ctx.check(g.must_precede(bw, ups, exc=False) is None, "size/advanced-by-written-length", ctx.construct(q, "size += after write"),
                  "size is advanced before the write (and the rotation decision inside it): the file is rotated one write early, shorter than rotateLength")
    # size is resynchronised with the file on EVERY (re)open: either LogFile hooks _openFile itself, or every method that reopens does it
    logcls = ctx.cls(LOG, "LogFile")
    basecls = ctx.cls(LOG, "BaseLogFile")
    own = {m.name: m for m in logcls.body if isinstance(m, ast.FunctionDef)}
    inherited = {m.name: m for m in basecls.body if isinstance(m, ast.FunctionDef)}

    def resync_after(fn, qual, opener_pred):
        g_ = ctx.cfg(fn)
        opens_ = [n for n, c in node_calls(g_, opener_pred)]
        renamed = [n for n, c in node_calls(g_, lambda c: call_name(c) in ("os.rename", "os.replace") and c.args and src(c.args[0]) == "self.path")]
        sets_ = g_.ids(lambda n: n.kind == "stmt" and isinstance(n.ast, ast.Assign) and any(is_self_attr(t, "size") for t in n.ast.targets) and
                       (src(n.ast.value) == "self._file.tell()" or (src(n.ast.value) == "0" and any(g_.dominates(r, n.id) for r in renamed))))
        for o in opens_:
            w = g_.must_pass([o], sets_, exc=False)
            ctx.check(w is None, "size/reread-on-open", ctx.construct(qual, g_.node(o).ast),
                      "the log file is (re)opened and size is not re-read from the file actually opened: size keeps the byte count of the previous file, so the next "
                      "writes rotate a file that is shorter than rotateLength", witness=g_.describe(w))
        return bool(opens_)

    if "_openFile" in own:
        ctx.functions.add(f"{LOG}:LogFile._openFile")
        resync_after(own["_openFile"], QL + "._openFile", lambda c: call_name(c) == "BaseLogFile._openFile")
        g = ctx.cfg(own["_openFile"])
        ctx.check(bool(node_calls(g, lambda c: call_name(c) == "BaseLogFile._openFile")), "size/reread-on-open", QL + "._openFile", "LogFile._openFile does not open the file")
    else:
        openers = {n for n, m in list(inherited.items()) + list(own.items()) if any(isinstance(c, ast.Call) and call_name(c) == "self._openFile" for c in ast.walk(m))}
        ctx.check(bool(openers), "size/reread-on-open", QL, "nothing opens the log file")
        for name in sorted(openers):
            if name in own:
                resync_after(own[name], f"{QL}.{name}", lambda c, name=name: call_name(c) in ("self._openFile", f"BaseLogFile.{name}"))
            else:
                ctx.violation("size/reread-on-open", f"{QL}.{name} (inherited from BaseLogFile)",
                              f"{name}() reopens the log file through BaseLogFile.{name} and LogFile neither hooks _openFile nor overrides {name}: size is not "
                              f"resynchronised with the file actually opened (after an external move + reopen() a file shorter than rotateLength is rotated)")
    # who else writes size
    cls = ctx.cls(LOG, "LogFile")
    for m in [x for x in cls.body if isinstance(x, ast.FunctionDef)]:
        for n in ast.walk(m):
            if isinstance(n, (ast.Assign, ast.AugAssign)) and any(is_self_attr(t, "size") for t in (n.targets if isinstance(n, ast.Assign) else [n.target])):
                if isinstance(n, ast.Assign) and (src(n.value) == "self._file.tell()" or (src(n.value) == "0" and m.name == "rotate")):
                    continue        # a resynchronisation with the file (judged by size/reread-on-open)
                ctx.check(m.name in ("_openFile", "write"), "size/who-may-write", ctx.construct(f"{QL}.{m.name}", n), "size is modified outside _openFile/write")



def _s_open(ctx, S):
    """Each (open call, mode it can be given, condition under which) is judged: a truncating mode only when the file does not exist; a non-truncating one is
    writable and - unless it appends - followed by a seek to the end.  The existence test may be spelled out, or recorded once in a boolean local."""
    f = ctx.func(LOG, "BaseLogFile._openFile")
    g = ctx.cfg(f)
    q = QB + "._openFile"
    defs = local_defs(f, track_mutation=False)
    EXISTS = ("os.path.exists(self.path)", "os.path.isfile(self.path)", "os.path.lexists(self.path)")

    def exists_test(t):
        """+1 / -1 when the (atomic) test t being true means the file exists / does not exist, else 0"""
        neg = 1
        while isinstance(t, ast.UnaryOp) and isinstance(t.op, ast.Not):
            t, neg = t.operand, -neg
        if src(t) in EXISTS:
            return neg
        if isinstance(t, ast.Name):
            ds = defs.get(t.id, [])
            if len(ds) == 1 and ds[0] is not None:
                return neg * exists_test(ds[0])
        return 0

    def polarity(node, conds):
        """True / False / None: the file is known to exist / not to exist / unknown at ``node`` under the conditional-expression arms ``conds``"""
        votes = set()
        for t, lab in edge_asserts(g, node):
            e = exists_test(t)
            if e:
                votes.add((e > 0) == (lab == "T"))
            # a conjunction recorded in a flag (`restrict = not appending and mode is not None`) taken as true makes each conjunct true
            if lab == "T" and isinstance(t, ast.Name) and len(defs.get(t.id, [])) == 1 and isinstance(defs[t.id][0], ast.BoolOp) and isinstance(defs[t.id][0].op, ast.And):
                for c_ in defs[t.id][0].values:
                    e = exists_test(c_)
                    if e:
                        votes.add(e > 0)
        for t, arm in conds:
            e = exists_test(t)
            if e:
                votes.add((e > 0) == arm)
        return next(iter(votes)) if len(votes) == 1 else None
    ops = node_calls(g, lambda c: call_name(c) == "open")
    ctx.floor("open/existing-file-not-truncated", len(ops), 1, "open() calls in BaseLogFile._openFile")

    def existing(a, b, l):
        """edge filter: the paths on which the file exists (an existence test / flag is never taken the other way)"""
        n = g.node(a)
        if l == "exc":
            return False
        if n.kind == "test" and l in ("T", "F"):
            e = exists_test(n.ast)
            if e:
                return (e > 0) == (l == "T")
        return True
    nontrunc = 0
    covered = set()
    for n, c in ops:
        ctx.check(src(c.args[0]) == "self.path", "open/opens-own-path", ctx.construct(q, "open(self.path, <mode>)"), "another file than self.path is opened")
        leaves = leaf_values(f, c.args[1]) if len(c.args) > 1 else [(ast.Constant("r"), (), ())]
        for v, conds, _ in leaves:
            if not (isinstance(v, ast.Constant) and isinstance(v.value, str)):
                raise AnalysisError(f"open mode not readable: {src(v)}")
            mode = v.value
            pol = polarity(n, conds)
            covered.add(pol)
            where = ctx.construct(q, f"open(self.path, {mode!r})")
            if "w" in mode:
                ctx.check(pol is False, "open/existing-file-not-truncated", where,
                          "an existing log file is opened with truncation: everything logged before the reopen / restart is lost")
            else:
                nontrunc += 1
                ctx.check("+" in mode or "a" in mode, "open/existing-file-not-truncated", where, "the existing file is not opened for writing")
                if "a" not in mode:
                    seeks = [s_ for s_, sc in node_calls(g, lambda sc: call_name(sc) == "self._file.seek" and [src(a) for a in sc.args] in (["0", "2"], ["0", "os.SEEK_END"]))]
                    w = g.path([n], [g.exit], avoid=seeks, edge_ok=existing, strict=True)
                    ctx.check(bool(seeks) and w is None, "open/existing-file-positioned-at-end", ctx.construct(q, "seek(0, 2)"),
                              "an existing log file is not positioned at its end: new data overwrites old data and size restarts at 0", witness=g.describe(w))
    ctx.check(nontrunc > 0, "open/existing-file-not-truncated", q, "no non-truncating open for an existing file")
    w = g.must_pass([g.entry], [n for n, _ in ops], exc=False)
    ctx.check(w is None, "open/always-opens", q, "_openFile can return without a file", witness=g.describe(w))


def _family(mod):
    """the log-file classes of the module: BaseLogFile and every class that has it in its (same-module) ancestry, as {name: [class, base, base's base, ...]}"""
    classes = {c.name: c for c in mod.tree.body if isinstance(c, ast.ClassDef)}

    def chain(c, seen=()):
        out = [c]
        for b in base_names(c):
            if b in classes and b not in seen:
                out += chain(classes[b], seen + (c.name,))
        return out
    return {n: chain(c) for n, c in classes.items() if any(x.name == "BaseLogFile" for x in chain(c))}


def _is_handle(e, func):
    """``e`` is the open log file: self._file, or a local that stands for it"""
    if src(e) == "self._file":
        return True
    if isinstance(e, ast.Name):
        ls = leaf_values(func, e)
        return bool(ls) and all(src(v) == "self._file" for v, _, _ in ls)
    return False


def _s_append_only(ctx, S):
    # ================= the handle is only ever positioned at the real end =========================================================================
    # The file is opened without O_APPEND ("rb+" / "wb+"), so where a write lands is decided by the file position.  Clause: nothing in the class family moves the
    # position anywhere but to the real end of the file - seek(0, 2) - and nothing truncates; in particular no seek to a position taken from the in-memory
    # size counter (which counts the characters of text arguments, not the bytes written).
    mod = ctx.mod(LOG)
    fam = _family(mod)
    ctx.need("LogFile" in fam and "BaseLogFile" in fam, "BaseLogFile / LogFile class family")
    seen = 0
    for cname in sorted(fam):
        for mname, m in sorted(methods(fam[cname][0]).items()):
            q = f"twisted.python.logfile.{cname}.{mname}"
            for c in walk_local(m):
                if not (isinstance(c, ast.Call) and isinstance(c.func, ast.Attribute) and c.func.attr in ("seek", "truncate") and _is_handle(c.func.value, m)):
                    continue
                seen += 1
                if c.func.attr == "truncate":
                    ctx.check(False, "write/handle-only-moved-to-the-real-end", ctx.construct(q, c), f"{src(c)}: the log file is truncated - written bytes are removed")
                    continue
                args = [src(resolve(a, m)) if isinstance(a, ast.Name) else src(a) for a in c.args] + [f"{k.arg}={src(k.value)}" for k in c.keywords]
                to_end = len(args) == 2 and args[0] == "0" and args[1] in ("2", "os.SEEK_END", "io.SEEK_END", "SEEK_END", "whence=2", "whence=os.SEEK_END", "whence=io.SEEK_END")
                ctx.check(to_end, "write/handle-only-moved-to-the-real-end", ctx.construct(q, c),
                          f"{src(c)} moves the log file's position to something other than its real end (seek(0, 2)): the next write lands inside data "
                          f"written before and overwrites it" + (" - the size counter is advanced by len() of the argument, i.e. characters, not encoded bytes, so it "
                                                                  "falls behind the real end after any non-ASCII text" if "size" in " ".join(args) else ""))
    ctx.ok("write/handle-only-moved-to-the-real-end", "twisted.python.logfile", detail=f"{len(fam)} classes scanned, {seen} positioning calls on the handle")


_MUTATORS = ("os.rename", "os.replace", "os.remove", "os.unlink")


def _s_lock(ctx, S):
    # ================= every public method that writes the file or renames / removes generations runs under the instance lock ======================
    # threadable.synchronize(<class>) wraps exactly the methods named in <class>.synchronized.  A mutating public method left out of that list (rotate() called
    # directly - twistd does on SIGUSR1) can interleave with a write() that rotates: two shifts run at once and one generation is renamed over another.
    mod = ctx.mod(LOG)
    fam = _family(mod)
    ctx.need("LogFile" in fam, "LogFile class")
    wrapped = {src(c.args[0]) for st in mod.tree.body for c in ast.walk(st) if isinstance(st, ast.Expr) and isinstance(c, ast.Call) and
               (call_name(c) or "").split(".")[-1] == "synchronize" and len(c.args) == 1}
    for cname in sorted(fam):
        chain = fam[cname]
        if cname == "BaseLogFile" or not (cname == "LogFile" or cname in wrapped):
            continue        # the abstract base is never instantiated by itself; other subclasses are judged when they are wrapped at all
        q = f"twisted.python.logfile.{cname}"
        ctx.check(cname in wrapped, "lock/mutating-methods-synchronized", ctx.construct(q, "threadable.synchronize"), f"{cname} is not passed to threadable.synchronize: none of "
                  "its methods takes the instance lock")

        def lookup(name, frm=0):
            for k in chain[frm:]:
                ms = methods(k)
                if name in ms:
                    return k, ms[name]
            return None
        decl = next((class_assigns(k)["synchronized"] for k in chain if "synchronized" in class_assigns(k)), None)
        ok_decl = isinstance(decl, (ast.List, ast.Tuple)) and all(isinstance(e, ast.Constant) and isinstance(e.value, str) for e in decl.elts)
        if not ok_decl:
            raise AnalysisError(f"{cname}.synchronized is not a literal list of method names: {src(decl) if decl is not None else '<missing>'}")
        listed = {e.value for e in decl.elts}

        def mutates(name, frm=0, seen=None):
            """first mutating primitive reachable from method ``name`` (looked up from position ``frm`` of the ancestry), through self.<m>(), <Base>.<m>(self, ..) and super().<m>()"""
            seen = seen if seen is not None else set()
            got = lookup(name, frm)
            if got is None or (name, frm) in seen:
                return None
            seen.add((name, frm))
            owner, m = got
            for c in walk_local(m):
                if not isinstance(c, ast.Call):
                    continue
                cn = call_name(c) or ""
                if cn in _MUTATORS:
                    return f"{owner.name}.{name}: {src(c)}"
                if isinstance(c.func, ast.Attribute) and c.func.attr in ("write", "writelines", "truncate") and _is_handle(c.func.value, m):
                    return f"{owner.name}.{name}: {src(c)}"
                sub = None
                if isinstance(c.func, ast.Attribute) and src(c.func.value) == "self":
                    sub = mutates(c.func.attr, 0, seen)
                elif isinstance(c.func, ast.Attribute) and isinstance(c.func.value, ast.Name) and any(k.name == c.func.value.id for k in chain):
                    sub = mutates(c.func.attr, [k.name for k in chain].index(c.func.value.id), seen)
                elif isinstance(c.func, ast.Attribute) and isinstance(c.func.value, ast.Call) and call_name(c.func.value) == "super":
                    sub = mutates(c.func.attr, chain.index(owner) + 1, seen)
                if sub:
                    return sub
            return None
        public = sorted({n for k in chain for n in methods(k) if not n.startswith("_")})
        for name in public:
            why = mutates(name)
            if why is None:
                continue
            ctx.check(name in listed, "lock/mutating-methods-synchronized", ctx.construct(q, f"{name}()"),
                      f"{cname}.{name}() writes the file or renames / removes generations ({why}) but is not named in synchronized = {sorted(listed)}: called directly it "
                      f"runs without the instance lock and can interleave with a write() that rotates - one generation is renamed over another and lost")


def _s_body(ctx, S):
    present = [q_ for q_ in ["LogFile.listLogs", "LogFile.rotate", "LogFile.shouldRotate", "LogFile.write", "LogFile._openFile", "BaseLogFile.write", "BaseLogFile._openFile",
                             "BaseLogFile.reopen"] if ctx.mod(LOG).find(q_) is not None]
    body_always_entered(ctx, LOG, present,
                        "anchor/body-entered-on-every-call", "twisted.python.logfile",
                        "listLogs()/shouldRotate() must look at the directory / the size on every call: a cached list of rotated files makes rotate() rename over "
                        "files it does not know about")


def check(ctx):
    normalise(ctx, {LOG: ["_openFile"]}, scopes={LOG: ["BaseLogFile", "LogFile"]})
    run_sections(ctx, [("listLogs", _s_listlogs), ("rotate", _s_rotate), ("rotate-evaluated", _s_rotate_evaluated), ("BaseLogFile.write", _s_write), ("shouldRotate", _s_should_rotate), ("size", _s_size),
                       ("open", _s_open), ("append-only", _s_append_only), ("lock-coverage", _s_lock), ("body-entered", _s_body)])


MUTANTS = [
    Mutant("drop-reverse", LOG, "        logs = self.listLogs()\n        logs.reverse()\n", "        logs = self.listLogs()\n", expect_rule="order/rotate-highest-first"),
    Mutant("rename-before-close", LOG, "        self._file.close()\n        os.rename(self.path, \"%s.1\" % self.path)\n", "        os.rename(self.path, \"%s.1\" % self.path)\n        self._file.close()\n",
           expect_rule="sequence/close-rename-open"),
    Mutant("retention-gt", LOG, "            if self.maxRotatedFiles is not None and i >= self.maxRotatedFiles:", "            if self.maxRotatedFiles is not None and i > self.maxRotatedFiles:",
           expect_rule="retention/keeps-exactly-newest"),
    Mutant("rotate-one-byte-early", LOG, "        return self.rotateLength and self.size >= self.rotateLength", "        return self.rotateLength and self.size + 1 >= self.rotateLength",
           expect_rule="boundary/rotated-file-at-least-rotateLength"),
    Mutant("write-before-rotate", LOG, "        if self.shouldRotate():\n            self.flush()\n            self.rotate()\n        if isinstance(data, str):\n            data = data.encode(\"utf8\")\n        self._file.write(data)\n",
           "        if isinstance(data, str):\n            data = data.encode(\"utf8\")\n        self._file.write(data)\n        if self.shouldRotate():\n            self.flush()\n            self.rotate()\n",
           expect_rule="write/rotates-before-writing"),
    Mutant("lexicographic-identifiers", LOG, "                counter = int(name.split(\".\")[-1])\n                if counter:\n                    result.append(counter)",
           "                counter = int(name.split(\".\")[-1])\n                if counter:\n                    result.append(name.split(\".\")[-1])", expect_rule="order/listLogs-numeric"),
    Mutant("existing-file-truncated", LOG, "            self._file = cast(BinaryIO, open(self.path, \"rb+\", 0))\n            self._file.seek(0, 2)", "            self._file = cast(BinaryIO, open(self.path, \"wb+\", 0))\n            self._file.seek(0, 2)",
           expect_rule="open/existing-file-not-truncated"),
    Mutant("no-seek-to-end", LOG, "            self._file = cast(BinaryIO, open(self.path, \"rb+\", 0))\n            self._file.seek(0, 2)\n", "            self._file = cast(BinaryIO, open(self.path, \"rb+\", 0))\n",
           expect_rule="open/existing-file-positioned-at-end"),
    Mutant("size-not-reset", LOG, "        BaseLogFile._openFile(self)\n        self.size = self._file.tell()\n\n    def shouldRotate(self):\n        \"\"\"\n        Rotate when the log file size",
           "        BaseLogFile._openFile(self)\n        if not hasattr(self, \"size\"):\n            self.size = self._file.tell()\n\n    def shouldRotate(self):\n        \"\"\"\n        Rotate when the log file size",
           expect_rule="size/reread-on-open"),
    Mutant("size-synced-only-at-construction-and-rotation", LOG,
           "        self.maxRotatedFiles = maxRotatedFiles\n\n    def _openFile(self):\n        BaseLogFile._openFile(self)\n        self.size = self._file.tell()\n",
           "        self.maxRotatedFiles = maxRotatedFiles\n        self.size = self._file.tell()\n",
           more=[(LOG, "        os.rename(self.path, \"%s.1\" % self.path)\n        self._openFile()\n", "        os.rename(self.path, \"%s.1\" % self.path)\n        self._openFile()\n        self.size = self._file.tell()\n")],
           expect_rule="size/reread-on-open"),
    Mutant("remove-without-limit", LOG, "            if self.maxRotatedFiles is not None and i >= self.maxRotatedFiles:", "            if self.maxRotatedFiles is None or i >= self.maxRotatedFiles:",
           expect_rule="retention/"),
    Mutant("current-to-wrong-slot", LOG, "        os.rename(self.path, \"%s.1\" % self.path)", "        os.rename(self.path, \"%s.0\" % self.path)", expect_rule="sequence/current-becomes-1"),
    Mutant("rotated-file-list-cached", LOG, "    def listLogs(self):\n", "    @functools.lru_cache(maxsize=None)\n    def listLogs(self):\n",
           more=[(LOG, "import glob\n", "import functools\nimport glob\n")], expect_rule="anchor/body-entered-on-every-call"),
    Mutant("failed-shift-ignored", LOG, "            else:\n                os.rename(\"%s.%d\" % (self.path, i), \"%s.%d\" % (self.path, i + 1))\n",
           "            else:\n                try:\n                    os.rename(\"%s.%d\" % (self.path, i), \"%s.%d\" % (self.path, i + 1))\n                except OSError:\n                    pass\n",
           expect_rule="shift/failed-shift-aborts-rotation"),
    Mutant("sort-before-last-append", LOG, "            except ValueError:\n                pass\n        result.sort()\n        return result", "            except ValueError:\n                pass\n        return result",
           expect_rule="order/listLogs-ascending"),
    Mutant("access-test-dropped", LOG, "        if not (os.access(self.directory, os.W_OK) and os.access(self.path, os.W_OK)):\n            return\n        logs = self.listLogs()",
           "        if not os.access(self.path, os.W_OK):\n            return\n        logs = self.listLogs()", expect_rule="sequence/untouched-when-not-writable"),
    # ---- round-3 shapes: the list kept sorted by bisect.insort; the shift split into a removing pass and a renaming pass
    Mutant("insort-kept-list-reversed-at-the-end", LOG, '                if counter:\n                    result.append(counter)\n            except ValueError:\n                pass\n        result.sort()\n        return result\n', '                if counter:\n                    bisect.insort(result, counter)\n            except ValueError:\n                pass\n        result.reverse()\n        return result\n', expect_rule="order/listLogs-ascending"),
    Mutant("two-pass-rotate-renames-lowest-first", LOG, '        logs = self.listLogs()\n        logs.reverse()\n        for i in logs:\n            if self.maxRotatedFiles is not None and i >= self.maxRotatedFiles:\n                os.remove("%s.%d" % (self.path, i))\n            else:\n                os.rename("%s.%d" % (self.path, i), "%s.%d" % (self.path, i + 1))\n', '        logs = self.listLogs()\n        keep = len(logs)\n        if self.maxRotatedFiles is not None:\n            while keep and logs[keep - 1] >= self.maxRotatedFiles:\n                keep -= 1\n                os.remove("%s.%d" % (self.path, logs[keep]))\n        for i in logs[:keep]:\n            os.rename("%s.%d" % (self.path, i), "%s.%d" % (self.path, i + 1))\n', expect_rule="rotate/evaluated-outcome"),
    Mutant("two-pass-rotate-keeps-one-too-many", LOG, '        logs = self.listLogs()\n        logs.reverse()\n        for i in logs:\n            if self.maxRotatedFiles is not None and i >= self.maxRotatedFiles:\n                os.remove("%s.%d" % (self.path, i))\n            else:\n                os.rename("%s.%d" % (self.path, i), "%s.%d" % (self.path, i + 1))\n', '        logs = self.listLogs()\n        keep = len(logs)\n        if self.maxRotatedFiles is not None:\n            while keep and logs[keep - 1] > self.maxRotatedFiles:\n                keep -= 1\n                os.remove("%s.%d" % (self.path, logs[keep]))\n        for i in reversed(logs[:keep]):\n            os.rename("%s.%d" % (self.path, i), "%s.%d" % (self.path, i + 1))\n', expect_rule="rotate/evaluated-outcome"),
    # ---- round-4: append-only discipline of the handle; lock coverage of the mutating public methods
    Mutant("write-repositions-by-the-size-counter-through-an-alias", LOG, '        BaseLogFile.write(self, data)\n        self.size += len(data)\n',
           "        handle = self._file\n        handle.seek(self.size, 0)\n        BaseLogFile.write(self, data)\n        self.size += len(data)\n",
           expect_rule="write/handle-only-moved-to-the-real-end"),
    Mutant("reopen-rewinds-an-existing-file", LOG, "            self._file.seek(0, 2)\n", "            self._file.seek(0, 0)\n", expect_rule="write/handle-only-moved-to-the-real-end"),
    Mutant("lock-list-names-flush-instead-of-rotate", LOG, '    synchronized = ["write", "rotate"]\n', '    synchronized = ["write", "flush"]\n', expect_rule="lock/mutating-methods-synchronized"),
    Mutant("LogFile-never-wrapped-by-synchronize", LOG, "threadable.synchronize(LogFile)\n", "", expect_rule="lock/mutating-methods-synchronized"),
]
SILENT = [
    Silent("reversed-in-loop-header", LOG, "        logs = self.listLogs()\n        logs.reverse()\n        for i in logs:", "        logs = self.listLogs()\n        for i in reversed(logs):"),
    Silent("sort-reverse-true", LOG, "        logs = self.listLogs()\n        logs.reverse()\n", "        logs = self.listLogs()\n        logs.sort(reverse=True)\n"),
    Silent("retention-test-rewritten", LOG, "            if self.maxRotatedFiles is not None and i >= self.maxRotatedFiles:", "            if self.maxRotatedFiles is not None and not i < self.maxRotatedFiles:"),
    Silent("boundary-operands-swapped", LOG, "        return self.rotateLength and self.size >= self.rotateLength", "        return self.rotateLength and self.rotateLength <= self.size"),
    Silent("fstring-names", LOG, "                os.rename(\"%s.%d\" % (self.path, i), \"%s.%d\" % (self.path, i + 1))", "                os.rename(f\"{self.path}.{i}\", f\"{self.path}.{i + 1}\")"),
    Silent("listLogs-returns-sorted-copy", LOG, "        result.sort()\n        return result", "        return sorted(result)"),
    Silent("shouldRotate-as-if-chain", LOG, "        return self.rotateLength and self.size >= self.rotateLength",
           "        if not self.rotateLength:\n            return False\n        return self.size >= self.rotateLength"),
    Silent("shift-names-in-locals", LOG, "                os.rename(\"%s.%d\" % (self.path, i), \"%s.%d\" % (self.path, i + 1))",
           "                old = \"%s.%d\" % (self.path, i)\n                new = \"%s.%d\" % (self.path, i + 1)\n                os.rename(old, new)"),
    Silent("glob-pattern-escaped", LOG, "        for name in glob.glob(\"%s.*\" % self.path):", "        for name in glob.glob(\"%s.*\" % glob.escape(self.path)):"),
    Silent("size-resynced-by-each-reopener", LOG,
           "        self.maxRotatedFiles = maxRotatedFiles\n\n    def _openFile(self):\n        BaseLogFile._openFile(self)\n        self.size = self._file.tell()\n",
           "        self.maxRotatedFiles = maxRotatedFiles\n        self.size = self._file.tell()\n\n    def reopen(self):\n        BaseLogFile.reopen(self)\n        self.size = self._file.tell()\n",
           more=[(LOG, "        os.rename(self.path, \"%s.1\" % self.path)\n        self._openFile()\n", "        os.rename(self.path, \"%s.1\" % self.path)\n        self._openFile()\n        self.size = 0\n")]),
    Silent("shouldRotate-explicit-falsy-guard", LOG, "        return self.rotateLength and self.size >= self.rotateLength",
           "        if not self.rotateLength:\n            return self.rotateLength\n        return self.rotateLength <= self.size"),
    Silent("write-encodes-into-a-second-local", LOG, "        if isinstance(data, str):\n            data = data.encode(\"utf8\")\n        self._file.write(data)",
           "        if not isinstance(data, str):\n            payload = data\n        else:\n            payload = data.encode(\"utf8\")\n        self._file.write(payload)"),
    Silent("rotate-consumes-list-with-pop", LOG, "        logs = self.listLogs()\n        logs.reverse()\n        for i in logs:\n", "        todo = self.listLogs()\n        while todo:\n            i = todo.pop()\n"),
    Silent("rotate-slices-backwards", LOG, "        logs = self.listLogs()\n        logs.reverse()\n        for i in logs:\n", "        for i in self.listLogs()[::-1]:\n"),
    Silent("listLogs-as-sorted-comprehension", LOG,
           "        result = []\n        for name in glob.glob(\"%s.*\" % self.path):\n            try:\n                counter = int(name.split(\".\")[-1])\n                if counter:\n                    result.append(counter)\n            except ValueError:\n                pass\n        result.sort()\n        return result\n",
           "        numbers = [_suffixNumber(name) for name in glob.glob(\"%s.*\" % self.path)]\n        return sorted(n for n in numbers if n)\n",
           more=[(LOG, "class BaseLogFile:\n", "def _suffixNumber(name):\n    tail = name.rpartition(\".\")[2]\n    try:\n        return int(tail)\n    except ValueError:\n        return 0\n\n\nclass BaseLogFile:\n")]),
    Silent("write-conditional-expression", LOG, "        if isinstance(data, str):\n            data = data.encode(\"utf8\")\n        self._file.write(data)", "        self._file.write(data.encode(\"utf8\") if isinstance(data, str) else data)"),
    Silent("open-mode-from-existence-flag", LOG, "        if os.path.exists(self.path):\n            self._file = cast(BinaryIO, open(self.path, \"rb+\", 0))\n            self._file.seek(0, 2)\n        else:\n            if self.defaultMode is not None:\n                # Set the lowest permissions\n                oldUmask = os.umask(0o777)\n                try:\n                    self._file = cast(BinaryIO, open(self.path, \"wb+\", 0))\n                finally:\n                    os.umask(oldUmask)\n            else:\n                self._file = cast(BinaryIO, open(self.path, \"wb+\", 0))\n",
           "        present = os.path.exists(self.path)\n        tighten = not present and self.defaultMode is not None\n        if tighten:\n            oldUmask = os.umask(0o777)\n        try:\n            self._file = cast(BinaryIO, open(self.path, \"rb+\" if present else \"wb+\", 0))\n        finally:\n            if tighten:\n                os.umask(oldUmask)\n        if present:\n            self._file.seek(0, 2)\n"),
    Silent("branches-swapped", LOG, "            if self.maxRotatedFiles is not None and i >= self.maxRotatedFiles:\n                os.remove(\"%s.%d\" % (self.path, i))\n            else:\n                os.rename(\"%s.%d\" % (self.path, i), \"%s.%d\" % (self.path, i + 1))",
           "            if self.maxRotatedFiles is None or i < self.maxRotatedFiles:\n                os.rename(\"%s.%d\" % (self.path, i), \"%s.%d\" % (self.path, i + 1))\n            else:\n                os.remove(\"%s.%d\" % (self.path, i))"),
    Silent("rotation-steps-in-private-helpers", LOG,
           "        logs = self.listLogs()\n        logs.reverse()\n        for i in logs:\n            if self.maxRotatedFiles is not None and i >= self.maxRotatedFiles:\n                os.remove(\"%s.%d\" % (self.path, i))\n            else:\n                os.rename(\"%s.%d\" % (self.path, i), \"%s.%d\" % (self.path, i + 1))\n        self._file.close()\n        os.rename(self.path, \"%s.1\" % self.path)\n        self._openFile()\n",
           "        self._shiftOlderLogs()\n        self._file.close()\n        os.rename(self.path, self._rotatedName(1))\n        self._openFile()\n\n    def _rotatedName(self, identifier):\n        return \"%s.%d\" % (self.path, identifier)\n\n"
           "    def _shiftOlderLogs(self):\n        for i in reversed(self.listLogs()):\n            beyondLimit = self.maxRotatedFiles is not None and i >= self.maxRotatedFiles\n            if beyondLimit:\n                os.remove(self._rotatedName(i))\n                continue\n            os.rename(self._rotatedName(i), self._rotatedName(i + 1))\n"),
    Silent("writability-in-a-temporary", LOG, "        if not (os.access(self.directory, os.W_OK) and os.access(self.path, os.W_OK)):\n            return\n        logs = self.listLogs()",
           "        writable = os.access(self.directory, os.W_OK) and os.access(self.path, os.W_OK)\n        if not writable:\n            return\n        logs = self.listLogs()"),
    Silent("rotate-if-due-helper", LOG, "        if self.shouldRotate():\n            self.flush()\n            self.rotate()\n        if isinstance(data, str):", "        self._rotateIfDue()\n        if isinstance(data, str):",
           more=[(LOG, "    def flush(self):\n        \"\"\"\n        Flush the file.", "    def _rotateIfDue(self):\n        if not self.shouldRotate():\n            return\n        self.flush()\n        self.rotate()\n\n    def flush(self):\n        \"\"\"\n        Flush the file.")]),
    Silent("identifier-parsing-helper", LOG, "            try:\n                counter = int(name.split(\".\")[-1])\n                if counter:\n                    result.append(counter)\n            except ValueError:\n                pass\n",
           "            counter = self._identifierOf(name)\n            if counter:\n                result.append(counter)\n",
           more=[(LOG, "    def __getstate__(self):\n        state = BaseLogFile.__getstate__(self)\n        del state[\"size\"]", "    def _identifierOf(self, name):\n        try:\n            return int(name.split(\".\")[-1])\n        except ValueError:\n            return 0\n\n    def __getstate__(self):\n        state = BaseLogFile.__getstate__(self)\n        del state[\"size\"]")]),
    Silent("rotate-length-in-a-temporary", LOG, "        return self.rotateLength and self.size >= self.rotateLength", "        limit = self.rotateLength\n        return bool(limit) and self.size >= limit"),
    Silent("exists-test-in-a-temporary", LOG, "        if os.path.exists(self.path):\n            self._file = cast(BinaryIO, open(self.path, \"rb+\", 0))\n            self._file.seek(0, 2)\n        else:",
           "        alreadyThere = os.path.exists(self.path)\n        if alreadyThere:\n            self._file = cast(BinaryIO, open(self.path, \"rb+\", 0))\n            self._file.seek(0, os.SEEK_END)\n        else:"),
    Silent("listLogs-kept-sorted-by-insort", LOG, '                if counter:\n                    result.append(counter)\n            except ValueError:\n                pass\n        result.sort()\n        return result\n', '                if counter:\n                    bisect.insort(result, counter)\n            except ValueError:\n                pass\n        return result\n', more=[(LOG, "import glob\n", "import bisect\nimport glob\n")]),
    Silent("rotate-in-a-removing-and-a-renaming-pass", LOG, '        logs = self.listLogs()\n        logs.reverse()\n        for i in logs:\n            if self.maxRotatedFiles is not None and i >= self.maxRotatedFiles:\n                os.remove("%s.%d" % (self.path, i))\n            else:\n                os.rename("%s.%d" % (self.path, i), "%s.%d" % (self.path, i + 1))\n', '        logs = self.listLogs()\n        keep = len(logs)\n        if self.maxRotatedFiles is not None:\n            while keep and logs[keep - 1] >= self.maxRotatedFiles:\n                keep -= 1\n                os.remove("%s.%d" % (self.path, logs[keep]))\n        for i in reversed(logs[:keep]):\n            os.rename("%s.%d" % (self.path, i), "%s.%d" % (self.path, i + 1))\n'),
    Silent("write-first-moves-to-the-real-end", LOG, '        BaseLogFile.write(self, data)\n        self.size += len(data)\n', "        self._file.seek(0, os.SEEK_END)\n        BaseLogFile.write(self, data)\n        self.size += len(data)\n"),
    Silent("lock-list-as-a-longer-tuple", LOG, '    synchronized = ["write", "rotate"]\n', '    synchronized = ("rotate", "reopen", "write", "close")\n'),
]
