"""C53 - Rotating log files lose and reorder nothing."""
from __future__ import annotations

import ast

from sa.astx import NotConst, call_attr, call_name, const_eval, lincmp, src, walk_local
from sa.selftest import Mutant, Silent
from sa.props._lib_j import leaf_values, rsrc, body_always_entered, normalise, run_sections, all_paths, asserted_is, edge_asserts, is_self_attr, no_exc, node_calls, normal_exits, params, resolve

PROPERTY = "C53"
LOG = "python/logfile.py"
QL = "twisted.python.logfile.LogFile"
QB = "twisted.python.logfile.BaseLogFile"
TECHNIQUE = "order typestate over CFG paths, dominance, symbolic name forms, normalised comparisons"
EXPLANATION = (
    "Decides: (a) listLogs() returns integers sorted ascending (numeric, sort after the last append) and rotate() walks them in "
    "descending order (exactly one reversal on every path to the loop), renaming i -> i+1 with one format, so no rename "
    "overwrites a retained file; every iteration either renames or removes file i, and removal is dominated by "
    "`maxRotatedFiles is not None and i >= maxRotatedFiles` exactly; (b) close -> rename(path, path.1) -> _openFile in this "
    "order after the shifting loop, the '.1' name agrees with the loop's format, and every destructive step is dominated by the "
    "writability tests (early return before anything is touched); (c) BaseLogFile.write rotates (flush, rotate) before the "
    "single _file.write(data); shouldRotate implies size >= rotateLength (and a falsy rotateLength disables rotation); size is "
    "re-read from tell() on every open and advanced only by len(data); an existing file is opened without truncation and "
    "positioned at its end. Not decided: the byte-exact suffix property, multi-byte size accounting (size counts characters: "
    "under-estimates only), DailyLogFile. "
    "Every anchor function is also checked to be entered on every call (no memoising/wrapping decorator, duplicate definition or rebinding). "
    "Methods: every clause is decided structurally; the i -> i+1 clause is symbolic (same name format, index difference 1 for every i), no value is plugged in. "
)
RULE_KINDS = {"*": "structural"}     # sorted/reversed typestate over all CFG paths, dominance, symbolic file-name forms (index difference), normalised comparisons
ASSUMPTIONS = [
    "the rules read a normalised view of the anchored modules (sa/props/_lib_j.Normaliser): private helpers expanded at their call sites, module constants and single-assignment pure temporaries substituted, loops over constant tuples unrolled; evaluation order inside one statement is not modelled",
   "os.rename is atomic; glob returns every rotated file", "LogFile is used by one thread at a time (threadable.synchronize)"]


def _fmt_pair(e):
    """("%s.%d", [arg exprs]) for ``"fmt" % (a, b)`` / ``"fmt" % a``."""
    if isinstance(e, ast.BinOp) and isinstance(e.op, ast.Mod) and isinstance(e.left, ast.Constant) and isinstance(e.left.value, str):
        args = list(e.right.elts) if isinstance(e.right, ast.Tuple) else [e.right]
        return e.left.value, args
    if isinstance(e, ast.JoinedStr):
        fmt, args = "", []
        for v in e.values:
            if isinstance(v, ast.Constant):
                fmt += str(v.value).replace("%", "%%")
            else:
                fmt += "%s"
                args.append(v.value)
        return fmt, args
    return None


_PATH_TEXTS = ("self.path", "glob.escape(self.path)")


def _render(e, env, func=None):
    """Evaluate a log-file-name expression with self.path = 'P' and the loop variable bound; locals with a single
    definition in ``func`` are looked through (``old = "%s.%d" % (self.path, i)``)."""
    if func is not None:
        e = resolve(e, func, keep=set(env))
    fp = _fmt_pair(e)
    if fp is None:
        if src(e) in _PATH_TEXTS:
            return "P"
        return None
    fmt, args = fp
    vals = []
    for a in args:
        if src(a) in _PATH_TEXTS:
            vals.append("P")
        else:
            try:
                vals.append(const_eval(a, env))
            except NotConst:
                return None
    try:
        return fmt % tuple(vals)
    except (TypeError, ValueError):
        return None


def _name_form(e, func, var=None):
    """Symbolic reading of a log-file-name expression: (format with every placeholder written %s, index expression or None) when the expression is
    ``<fmt> % (self.path, <index>)`` / an f-string of the same shape / ``<fmt> % self.path`` / ``self.path``; locals are looked through.
    The verdict built on it holds for every path and every index (no value is plugged in)."""
    if func is not None:
        e = resolve(e, func, keep={var} if var else ())
    if src(e) in _PATH_TEXTS:
        return "%s", None
    fp = _fmt_pair(e)
    if fp is None:
        return None
    fmt, args = fp
    fmt = fmt.replace("%d", "%s").replace("%i", "%s")
    if not args or src(args[0]) not in _PATH_TEXTS or len(args) > 2 or fmt.count("%s") != len(args):
        return None
    return fmt, (args[1] if len(args) == 2 else None)


def _index_minus(a, b):
    """constant value of  a - b  when the two index expressions differ by a constant for every value of their variables, else None"""
    lc = lincmp(ast.Compare(left=a, ops=[ast.GtE()], comparators=[b]))
    if lc is None or lc[0]:
        return None
    return -lc[1]


def _order_after(call, state):
    """Typestate transfer for list-order operations."""
    a = call_attr(call)
    rev = any(k.arg == "reverse" and src(k.value) == "True" for k in call.keywords)
    if a == "reverse":
        return {"ASC": "DESC", "DESC": "ASC"}.get(state, "?")
    if a == "sort":
        return "?" if any(k.arg == "key" for k in call.keywords) else ("DESC" if rev else "ASC")
    return "?"


def _s_listlogs(ctx, S):
    # ================= listLogs: ascending integers ============================================================
    f = ctx.func(LOG, "LogFile.listLogs")
    g = ctx.cfg(f)
    q = QL + ".listLogs"
    rets = [x for x in normal_exits(g)]
    def ret_list(x):
        """(list variable, 'name' | 'sorted' | 'sorted-desc') for `return v` / `return sorted(v)`."""
        st = g.node(x).ast
        v = st.value if isinstance(st, ast.Return) else None
        if isinstance(v, ast.Name):
            return v.id, "name"
        if isinstance(v, ast.Call) and call_name(v) == "sorted" and len(v.args) == 1 and isinstance(v.args[0], ast.Name) and not any(k.arg == "key" for k in v.keywords):
            return v.args[0].id, ("sorted-desc" if any(k.arg == "reverse" and src(k.value) == "True" for k in v.keywords) else "sorted")
        return None
    ctx.need(rets and all(ret_list(x) for x in rets) and len({ret_list(x)[0] for x in rets}) == 1, "listLogs returns a list variable (or sorted(<it>))")
    res = ret_list(rets[0])[0]
    sorts = [n for n, c in node_calls(g, lambda c: call_name(c) == res + ".sort" and not c.keywords)]
    muts = [n for n, c in node_calls(g, lambda c: isinstance(c.func, ast.Attribute) and src(c.func.value) == res and call_attr(c) in ("append", "extend", "insert", "reverse", "sort", "pop", "remove"))
            if n not in sorts]
    for x in rets:
        w = g.must_precede(sorts, [x], exc=False)
        late = [m for m in muts if any(g.path([s], [m], edge_ok=no_exc, strict=True) for s in sorts)]
        how = ret_list(x)[1]
        ctx.check(how == "sorted" or (how == "name" and bool(sorts) and w is None and not late), "order/listLogs-ascending", q,
                  "listLogs() can return identifiers that are not sorted ascending (no sort() dominating the return, or the list is modified after "
                  "sorting): rotate() then renames in the wrong order and overwrites retained logs", witness=g.describe(w))
    apps = [c for n, c in node_calls(g, lambda c: call_name(c) == res + ".append")]
    def int_leaves(c):
        return leaf_values(f, c.args[0])
    numeric = lambda v: (isinstance(v, ast.Call) and call_name(v) == "int") or (isinstance(v, ast.Constant) and isinstance(v.value, int) and not isinstance(v.value, bool))
    ctx.check(bool(apps) and all(numeric(v) for c in apps for v, _, _ in int_leaves(c)), "order/listLogs-numeric", q,
              "identifiers are not collected as integers: the sort is lexicographic ('10' < '2') and logs are rotated out of order")
    for c in apps:
        calls_ = [v for v, _, _ in int_leaves(c) if isinstance(v, ast.Call)]
        ok = bool(calls_) and all(v.args and "split('.')[-1]" in rsrc(v.args[0], f) for v in calls_)
        ctx.check(ok, "order/listLogs-identifier-is-last-component", ctx.construct(q, "<list>.append(<identifier>)"), "the identifier is not the last dot-separated component of the file name")
    globs = [c for c in walk_local(f) if isinstance(c, ast.Call) and call_name(c) == "glob.glob"]
    ctx.check(len(globs) == 1 and _render(globs[0].args[0], {}) == "P.*", "order/listLogs-sees-every-rotated-file", q, "listLogs() does not glob '<path>.*'")



def _s_rotate(ctx, S):
    # ================= rotate ==================================================================================
    f = ctx.func(LOG, "LogFile.rotate")
    g = ctx.cfg(f)
    q = QL + ".rotate"
    loops = [n for n in g.nodes if n.kind == "for" and g.reachable(n.id)]
    if not loops:
        ctx.violation("shift/every-file-moved-or-removed", ctx.construct(q, "loop body"), "rotate() does not shift the older files at all: renaming the current "
                      "file to path.1 overwrites the previous path.1")
        return
    ctx.need(len(loops) == 1, "single for loop in LogFile.rotate")
    lp = loops[0]
    it = lp.ast.iter
    var = src(lp.ast.target)
    # typestate of the iterated list on every path from its definition to the loop
    base = it
    flip = False
    if isinstance(it, ast.Call) and call_name(it) == "reversed" and it.args:
        base, flip = it.args[0], True
    state_at_loop = set()
    if isinstance(base, ast.Name):
        defs = [n for n in g.nodes if n.kind == "stmt" and g.reachable(n.id) and isinstance(n.ast, ast.Assign) and any(src(t) == base.id for t in n.ast.targets)]
        ctx.need(defs, f"definition of {base.id} in rotate")
        for d in defs:
            v = d.ast.value
            init = "ASC" if isinstance(v, ast.Call) and call_name(v) == "self.listLogs" else \
                   ("ASC" if isinstance(v, ast.Call) and call_name(v) == "sorted" and v.args and src(v.args[0]) == "self.listLogs()" and not v.keywords else
                    ("DESC" if isinstance(v, ast.Call) and call_name(v) == "sorted" and any(k.arg == "reverse" and src(k.value) == "True" for k in v.keywords) else "?"))
            for path in all_paths(g, d.id, {lp.id}):
                st = init
                for nid in path[1:-1]:
                    n = g.node(nid)
                    if n.ast is None or n.kind != "stmt":
                        continue
                    for c in walk_local(n.ast):
                        if isinstance(c, ast.Call) and isinstance(c.func, ast.Attribute) and src(c.func.value) == base.id:
                            st = _order_after(c, st) if call_attr(c) in ("reverse", "sort") else ("?" if call_attr(c) in ("append", "insert", "extend", "pop", "remove") else st)
                if flip:
                    st = {"ASC": "DESC", "DESC": "ASC"}.get(st, "?")
                state_at_loop.add(st)
    elif isinstance(base, ast.Call) and call_name(base) == "self.listLogs":
        state_at_loop.add("DESC" if flip else "ASC")
    else:
        state_at_loop.add("?")
    ctx.check(state_at_loop == {"DESC"}, "order/rotate-highest-first", ctx.construct(q, "for <i> in <logs>"),
              f"the rotated files are walked in order {sorted(state_at_loop)} instead of highest identifier first: renaming i -> i+1 overwrites the "
              f"not-yet-moved file i+1 (its content is lost and the rest is shifted wrongly)")

    body_nodes = g.reach([d for d, l in g.succ[lp.id] if l == "iter"], avoid=[lp.id])
    renames = [(n, c) for n, c in node_calls(g, lambda c: call_name(c) in ("os.rename", "os.replace")) if n in body_nodes]
    removes = [(n, c) for n, c in node_calls(g, lambda c: call_name(c) in ("os.remove", "os.unlink")) if n in body_nodes]
    ctx.check(len(renames) == 1, "shift/rename-i-to-i-plus-1", q, f"{len(renames)} shifting renames in the loop (one expected)")
    for n, c in renames:
        # symbolic: same "<path>.<index>" format on both sides, source index is the loop variable, target index - source index == 1 for every i
        a_, b_ = (_name_form(c.args[0], f, var), _name_form(c.args[1], f, var)) if len(c.args) == 2 else (None, None)
        ok = bool(a_ and b_) and a_[0] == b_[0] == "%s.%s" and a_[1] is not None and b_[1] is not None and src(a_[1]) == var and _index_minus(b_[1], a_[1]) == 1
        ctx.check(ok, "shift/rename-i-to-i-plus-1", ctx.construct(q, "os.rename(<path.i>, <path.i+1>)"),
                  f"the shifting rename is not path.i -> path.(i+1): {src(c)} (a retained log is overwritten or the sequence gets a hole / wrong order)")
    for n, c in removes:
        a_ = _name_form(c.args[0], f, var) if len(c.args) == 1 else None
        ok = bool(a_) and a_[0] == "%s.%s" and a_[1] is not None and src(a_[1]) == var
        ctx.check(ok, "retention/removes-file-i", ctx.construct(q, "os.remove(<path.i>)"), f"the file removed is not path.i: {src(c)}")
        asserts = edge_asserts(g, n)
        notnone = any((a := asserted_is(t, lab)) is not None and not a[2] and src(a[0]) == "self.maxRotatedFiles" and src(a[1]) == "None" for t, lab in asserts)
        bounds = [lincmp(t, negate=(lab == "F")) for t, lab in asserts]
        exact = any(b is not None and dict(b[0]) == {var: 1, "self.maxRotatedFiles": -1} and b[1] == 0 for b in bounds)
        anyb = [b for b in bounds if b is not None and set(dict(b[0])) == {var, "self.maxRotatedFiles"}]
        ctx.check(notnone, "retention/never-removes-without-limit", ctx.construct(q, "os.remove(<path.i>)"),
                  "a rotated log can be removed although maxRotatedFiles is None (without a retention count nothing may be lost)")
        ctx.check(exact, "retention/keeps-exactly-newest", ctx.construct(q, "os.remove(<path.i>)"),
                  f"removal is not guarded by exactly `i >= maxRotatedFiles` (found {[(dict(b[0]), b[1]) for b in anyb]}): one file too many or too few is "
                  f"kept")
    # every iteration handles file i
    acts = [n for n, _ in renames + removes]
    w = g.path([d for d, l in g.succ[lp.id] if l == "iter"], [lp.id], avoid=acts, edge_ok=no_exc)
    ctx.check(w is None, "shift/every-file-moved-or-removed", ctx.construct(q, "loop body"),
              "an iteration can leave file i in place: the next rename (i-1 -> i) overwrites it", witness=g.describe(w))
    for n in acts:
        # a failing rename/remove of file i must abort the rotation: if it is swallowed, the next rename (i-1 -> i) overwrites file i
        starts = [d for d, l in g.succ[n] if l == "exc"]
        w = g.path(starts, [lp.id] + [x for x, _ in node_calls(g, lambda c: call_name(c) in ("os.rename", "os.replace")) if x not in body_nodes], strict=False) if starts else None
        ctx.check(w is None, "shift/failed-shift-aborts-rotation", ctx.construct(q, g.node(n).ast if not isinstance(g.node(n).ast, ast.Try) else "shift"),
                  "an OSError from moving / removing file i is swallowed and the rotation goes on: the next rename (i-1 -> i, finally current -> .1) "
                  "overwrites the file that could not be moved - its content is lost", witness=g.describe(([n] + w) if w else None))
    for n, c in renames:
        # the rename branch is exactly the complement of the remove branch
        for rn, rc in removes:
            ctx.check(g.path([n], [rn], avoid=[lp.id], edge_ok=no_exc) is None and g.path([rn], [n], avoid=[lp.id], edge_ok=no_exc) is None,
                      "shift/every-file-moved-or-removed", ctx.construct(q, "rename xor remove"), "a file is both removed and renamed in one iteration")

    closes = [n for n, c in node_calls(g, lambda c: call_name(c) == "self._file.close")]
    finals = [(n, c) for n, c in node_calls(g, lambda c: call_name(c) in ("os.rename", "os.replace")) if n not in body_nodes]
    opens = [n for n, c in node_calls(g, lambda c: call_name(c) == "self._openFile")]
    ctx.check(len(finals) == 1 and bool(closes) and bool(opens), "sequence/close-rename-open", q, "rotate() does not close, rename the current file and reopen")
    for n, c in finals:
        a_, b_ = (_name_form(c.args[0], f), _name_form(c.args[1], f)) if len(c.args) == 2 else (None, None)
        ok = bool(a_ and b_) and a_ == ("%s", None) and ((b_[0] == "%s.1" and b_[1] is None) or (b_[0] == "%s.%s" and b_[1] is not None and src(b_[1]) == "1"))
        ctx.check(ok, "sequence/current-becomes-1", ctx.construct(q, "os.rename(<path>, <path.1>)"),
                  f"the current file is not renamed to path.1 (the slot freed by the shift): {src(c)}")
        ctx.check(g.must_precede(closes, [n], exc=False) is None, "sequence/close-rename-open", ctx.construct(q, "close before rename"),
                  "the current file is renamed before it is closed")
        w = g.must_pass([n], opens, exc=False)
        ctx.check(w is None, "sequence/close-rename-open", ctx.construct(q, "reopen after rename"), "after the rename rotate() can return without opening a new file: later writes are lost",
                  witness=g.describe(w))
        ctx.check(g.path([n], [lp.id], edge_ok=no_exc) is None and g.path([lp.id], [n], edge_ok=no_exc) is not None and
                  g.must_precede([lp.id], [n], exc=False) is None, "sequence/shift-before-current", ctx.construct(q, "shift loop before final rename"),
                  "the current file is renamed to path.1 before the older files were shifted: path.1 is overwritten")
    # nothing is touched unless directory and file are writable
    access = {"os.access(self.directory, os.W_OK)", "os.access(self.path, os.W_OK)"}
    for n in acts + closes + [x for x, _ in finals]:
        got = {src(t) for t, lab in edge_asserts(g, n) if lab == "T"}
        ctx.check(access <= got, "sequence/untouched-when-not-writable", ctx.construct(q, g.node(n).ast),
                  "files are closed / renamed / removed although the directory or the file is not writable: rotation fails half-way and reorders or "
                  "loses data")



def _s_write(ctx, S):
    # ================= write / shouldRotate / size ==============================================================
    f = ctx.func(LOG, "BaseLogFile.write")
    g = ctx.cfg(f)
    q = QB + ".write"
    data = params(f)[1]
    # what is written is the data itself or its UTF-8 encoding - through whatever local it travels
    def is_data(v):
        return (isinstance(v, ast.Name) and v.id == data) or \
            (isinstance(v, ast.Call) and call_attr(v) == "encode" and isinstance(v.func, ast.Attribute) and src(v.func.value) == data)
    wcalls = [(n, c) for n, c in node_calls(g, lambda c: call_name(c) == "self._file.write" and len(c.args) == 1)
              if all(is_data(v) for v, _, _ in leaf_values(f, c.args[0]))]
    wr = [n for n, c in wcalls]
    ctx.check(len(wr) == 1 and g.must_pass([g.entry], wr, exc=False) is None, "write/data-written-once", q, "write() does not write the data exactly once on every path")
    tests = g.ids(lambda n: n.kind == "test" and src(n.ast) == "self.shouldRotate()")
    rots = [n for n, c in node_calls(g, lambda c: call_name(c) == "self.rotate")]
    fl = [n for n, c in node_calls(g, lambda c: call_name(c) == "self.flush")]
    ctx.check(bool(tests) and bool(rots), "write/rotates-before-writing", q, "write() never rotates")
    for t in tests:
        tsucc = [d for d, l in g.succ[t] if l == "T"]
        w = g.path(tsucc, wr, avoid=rots, edge_ok=no_exc)
        ctx.check(w is None, "write/rotates-before-writing", ctx.construct(q, "if self.shouldRotate()"),
                  "when rotation is due the data can be written before the file is rotated: the rotated file receives data newer than the "
                  "beginning of the current file only by luck - order of retained data changes", witness=g.describe(w))
    for r in rots:
        ctx.check(g.guarded(r, lambda e: src(e) == "self.shouldRotate()", True), "write/rotates-only-when-due", ctx.construct(q, "self.rotate()"),
                  "write() rotates although shouldRotate() is false: rotated files are shorter than rotateLength")
        ctx.check(bool(fl) and g.must_precede(fl, [r], exc=False) is None, "write/flush-before-rotate", ctx.construct(q, "self.flush()"), "the file is not flushed before rotation")
        for w_ in wr:
            ctx.check(g.path([w_], [r], edge_ok=no_exc) is None, "write/rotates-before-writing", ctx.construct(q, "rotate after write"), "rotation happens after the write")
    encs = [(v, chain) for n, c in wcalls for v, _, chain in leaf_values(f, c.args[0]) if isinstance(v, ast.Call) and call_attr(v) == "encode"]
    ok_enc = bool(encs) and all(v.args and "utf" in src(v.args[0]).lower().replace("-", "") for v, _ in encs)
    # the encoding applies exactly to text: the statement that encodes is guarded by isinstance(data, str)
    for v, chain in encs:
        st_ = next((x for x in [getattr(v, "_parent", None)] + list(chain) if isinstance(x, ast.stmt)), None)
        p_ = v
        while st_ is None and p_ is not None:
            p_ = getattr(p_, "_parent", None)
            st_ = p_ if isinstance(p_, ast.stmt) else None
        nodes_ = [x.id for x in g.nodes if x.ast is st_ and g.reachable(x.id)] if st_ is not None else []
        ok_enc = ok_enc and bool(nodes_) and all(g.guarded(x, lambda e: src(e) in (f"isinstance({data}, str)", f"type({data}) is str", f"type({data}) == str"), True) for x in nodes_)
    ctx.check(ok_enc, "write/text-encoded", q, "text is not encoded as UTF-8 (exactly when the data is str) before writing")


def _s_should_rotate(ctx, S):
    f = ctx.func(LOG, "LogFile.shouldRotate")
    q = QL + ".shouldRotate"
    g = ctx.cfg(f)
    want = {"self.size": 1, "self.rotateLength": -1}
    nret = 0
    for x in normal_exits(g):
        st = g.node(x).ast
        v = st.value if isinstance(st, ast.Return) else None
        if v is None or (isinstance(v, ast.Constant) and not v.value):
            continue        # answers "do not rotate"
        if any(src(t) == src(v) and lab == "F" for t, lab in edge_asserts(g, x)):
            continue        # returns a value the dominating guard has just found falsy: "do not rotate"
        nret += 1
        conj = list(v.values) if isinstance(v, ast.BoolOp) and isinstance(v.op, ast.And) else [v]
        forms = [lincmp(c) for c in conj] + [lincmp(t, negate=(lab == "F")) for t, lab in edge_asserts(g, x)]
        implied = any(fm is not None and dict(fm[0]) == want and fm[1] >= 0 for fm in forms)
        ctx.check(implied, "boundary/rotated-file-at-least-rotateLength", ctx.construct(q, st),
                  f"shouldRotate() can be true while size < rotateLength ({src(v)}): a file shorter than the rotation length is rotated")
        truthy_len = any(src(c) in ("self.rotateLength", "bool(self.rotateLength)") for c in conj) or any(src(t) == "self.rotateLength" and lab == "T" for t, lab in edge_asserts(g, x)) or \
            any("self.rotateLength is not None" in src(c) for c in conj) or any(src(t) == "self.rotateLength is not None" and lab == "T" for t, lab in edge_asserts(g, x)) or \
            any(src(t) == "self.rotateLength is None" and lab == "F" for t, lab in edge_asserts(g, x))
        ctx.check(truthy_len, "boundary/rotation-disabled-when-no-length", ctx.construct(q, st),
                  "a rotateLength of None/0 does not disable rotation (comparison with None raises / rotates on every write)")
    ctx.check(nret >= 1, "boundary/rotates-at-all", q, "shouldRotate() never answers true: the log is never rotated")



def _s_size(ctx, S):
    f = ctx.func(LOG, "LogFile.write")
    g = ctx.cfg(f)
    q = QL + ".write"
    data = params(f)[1]
    bw = [n for n, c in node_calls(g, lambda c: call_name(c) == "BaseLogFile.write" and len(c.args) == 2 and src(c.args[1]) == data)]
    ups = g.ids(lambda n: n.kind == "stmt" and isinstance(n.ast, ast.AugAssign) and is_self_attr(n.ast.target, "size"))
    ctx.check(len(bw) == 1 and g.must_pass([g.entry], bw, exc=False) is None, "write/data-written-once", q, "LogFile.write does not delegate the data once to BaseLogFile.write")
    ctx.check(len(ups) == 1 and isinstance(g.node(ups[0]).ast.op, ast.Add) and src(g.node(ups[0]).ast.value) == f"len({data})", "size/advanced-by-written-length", q,
              "size is not advanced by exactly len(data) per write: an over-estimate rotates files shorter than rotateLength")
    if ups and bw:
        ctx.check(g.must_precede(bw, ups, exc=False) is None, "size/advanced-by-written-length", ctx.construct(q, "size += after write"),
                  "size is advanced before the write (and the rotation decision inside it): the file is rotated one write early, shorter than rotateLength")
    # size is resynchronised with the file on EVERY (re)open: either LogFile hooks _openFile itself, or every method that reopens does it
    logcls = ctx.cls(LOG, "LogFile")
    basecls = ctx.cls(LOG, "BaseLogFile")
    own = {m.name: m for m in logcls.body if isinstance(m, ast.FunctionDef)}
    inherited = {m.name: m for m in basecls.body if isinstance(m, ast.FunctionDef)}

    def resync_after(fn, qual, opener_pred):
        g_ = ctx.cfg(fn)
        opens_ = [n for n, c in node_calls(g_, opener_pred)]
        renamed = [n for n, c in node_calls(g_, lambda c: call_name(c) in ("os.rename", "os.replace") and c.args and src(c.args[0]) == "self.path")]
        sets_ = g_.ids(lambda n: n.kind == "stmt" and isinstance(n.ast, ast.Assign) and any(is_self_attr(t, "size") for t in n.ast.targets) and
                       (src(n.ast.value) == "self._file.tell()" or (src(n.ast.value) == "0" and any(g_.dominates(r, n.id) for r in renamed))))
        for o in opens_:
            w = g_.must_pass([o], sets_, exc=False)
            ctx.check(w is None, "size/reread-on-open", ctx.construct(qual, g_.node(o).ast),
                      "the log file is (re)opened and size is not re-read from the file actually opened: size keeps the byte count of the previous file, so the next "
                      "writes rotate a file that is shorter than rotateLength", witness=g_.describe(w))
        return bool(opens_)

    if "_openFile" in own:
        ctx.functions.add(f"{LOG}:LogFile._openFile")
        resync_after(own["_openFile"], QL + "._openFile", lambda c: call_name(c) == "BaseLogFile._openFile")
        g = ctx.cfg(own["_openFile"])
        ctx.check(bool(node_calls(g, lambda c: call_name(c) == "BaseLogFile._openFile")), "size/reread-on-open", QL + "._openFile", "LogFile._openFile does not open the file")
    else:
        openers = {n for n, m in list(inherited.items()) + list(own.items()) if any(isinstance(c, ast.Call) and call_name(c) == "self._openFile" for c in ast.walk(m))}
        ctx.check(bool(openers), "size/reread-on-open", QL, "nothing opens the log file")
        for name in sorted(openers):
            if name in own:
                resync_after(own[name], f"{QL}.{name}", lambda c, name=name: call_name(c) in ("self._openFile", f"BaseLogFile.{name}"))
            else:
                ctx.violation("size/reread-on-open", f"{QL}.{name} (inherited from BaseLogFile)",
                              f"{name}() reopens the log file through BaseLogFile.{name} and LogFile neither hooks _openFile nor overrides {name}: size is not "
                              f"resynchronised with the file actually opened (after an external move + reopen() a file shorter than rotateLength is rotated)")
    # who else writes size
    cls = ctx.cls(LOG, "LogFile")
    for m in [x for x in cls.body if isinstance(x, ast.FunctionDef)]:
        for n in ast.walk(m):
            if isinstance(n, (ast.Assign, ast.AugAssign)) and any(is_self_attr(t, "size") for t in (n.targets if isinstance(n, ast.Assign) else [n.target])):
                if isinstance(n, ast.Assign) and (src(n.value) == "self._file.tell()" or (src(n.value) == "0" and m.name == "rotate")):
                    continue        # a resynchronisation with the file (judged by size/reread-on-open)
                ctx.check(m.name in ("_openFile", "write"), "size/who-may-write", ctx.construct(f"{QL}.{m.name}", n), "size is modified outside _openFile/write")



def _s_open(ctx, S):
    f = ctx.func(LOG, "BaseLogFile._openFile")
    g = ctx.cfg(f)
    q = QB + "._openFile"
    ops = node_calls(g, lambda c: call_name(c) == "open")
    ctx.floor("open/existing-file-not-truncated", len(ops), 2, "open() calls in BaseLogFile._openFile")
    exists = lambda e: src(e) == "os.path.exists(self.path)"
    nontrunc = []
    for n, c in ops:
        mode = src(c.args[1]).strip("'\"") if len(c.args) > 1 else "r"
        ctx.check(src(c.args[0]) == "self.path", "open/opens-own-path", ctx.construct(q, c), "another file than self.path is opened")
        if "w" in mode:
            ctx.check(g.guarded(n, exists, False), "open/existing-file-not-truncated", ctx.construct(q, c),
                      "an existing log file is opened with truncation: everything logged before the reopen / restart is lost")
        else:
            nontrunc.append(n)
            ctx.check("+" in mode or "a" in mode, "open/existing-file-not-truncated", ctx.construct(q, c), "the existing file is not opened for writing")
            if "a" not in mode:
                seeks = [s for s, sc in node_calls(g, lambda sc: call_name(sc) == "self._file.seek" and [src(a) for a in sc.args] in (["0", "2"], ["0", "os.SEEK_END"]))]
                w = g.must_pass([n], seeks, exc=False)
                ctx.check(bool(seeks) and w is None, "open/existing-file-positioned-at-end", ctx.construct(q, "seek(0, 2)"),
                          "an existing log file is not positioned at its end: new data overwrites old data and size restarts at 0", witness=g.describe(w))
    ctx.check(bool(nontrunc), "open/existing-file-not-truncated", q, "no non-truncating open for an existing file")
    w = g.must_pass([g.entry], [n for n, _ in ops], exc=False)
    ctx.check(w is None, "open/always-opens", q, "_openFile can return without a file", witness=g.describe(w))


def _s_body(ctx, S):
    present = [q_ for q_ in ["LogFile.listLogs", "LogFile.rotate", "LogFile.shouldRotate", "LogFile.write", "LogFile._openFile", "BaseLogFile.write", "BaseLogFile._openFile",
                             "BaseLogFile.reopen"] if ctx.mod(LOG).find(q_) is not None]
    body_always_entered(ctx, LOG, present,
                        "anchor/body-entered-on-every-call", "twisted.python.logfile",
                        "listLogs()/shouldRotate() must look at the directory / the size on every call: a cached list of rotated files makes rotate() rename over "
                        "files it does not know about")


def check(ctx):
    normalise(ctx, {LOG: ["_openFile"]}, scopes={LOG: ["BaseLogFile", "LogFile"]})
    run_sections(ctx, [("listLogs", _s_listlogs), ("rotate", _s_rotate), ("BaseLogFile.write", _s_write), ("shouldRotate", _s_should_rotate), ("size", _s_size),
                       ("open", _s_open), ("body-entered", _s_body)])


MUTANTS = [
    Mutant("drop-reverse", LOG, "        logs = self.listLogs()\n        logs.reverse()\n", "        logs = self.listLogs()\n", expect_rule="order/rotate-highest-first"),
    Mutant("rename-before-close", LOG, "        self._file.close()\n        os.rename(self.path, \"%s.1\" % self.path)\n", "        os.rename(self.path, \"%s.1\" % self.path)\n        self._file.close()\n",
           expect_rule="sequence/close-rename-open"),
    Mutant("retention-gt", LOG, "            if self.maxRotatedFiles is not None and i >= self.maxRotatedFiles:", "            if self.maxRotatedFiles is not None and i > self.maxRotatedFiles:",
           expect_rule="retention/keeps-exactly-newest"),
    Mutant("rotate-one-byte-early", LOG, "        return self.rotateLength and self.size >= self.rotateLength", "        return self.rotateLength and self.size + 1 >= self.rotateLength",
           expect_rule="boundary/rotated-file-at-least-rotateLength"),
    Mutant("write-before-rotate", LOG, "        if self.shouldRotate():\n            self.flush()\n            self.rotate()\n        if isinstance(data, str):\n            data = data.encode(\"utf8\")\n        self._file.write(data)\n",
           "        if isinstance(data, str):\n            data = data.encode(\"utf8\")\n        self._file.write(data)\n        if self.shouldRotate():\n            self.flush()\n            self.rotate()\n",
           expect_rule="write/rotates-before-writing"),
    Mutant("lexicographic-identifiers", LOG, "                counter = int(name.split(\".\")[-1])\n                if counter:\n                    result.append(counter)",
           "                counter = int(name.split(\".\")[-1])\n                if counter:\n                    result.append(name.split(\".\")[-1])", expect_rule="order/listLogs-numeric"),
    Mutant("existing-file-truncated", LOG, "            self._file = cast(BinaryIO, open(self.path, \"rb+\", 0))\n            self._file.seek(0, 2)", "            self._file = cast(BinaryIO, open(self.path, \"wb+\", 0))\n            self._file.seek(0, 2)",
           expect_rule="open/existing-file-not-truncated"),
    Mutant("no-seek-to-end", LOG, "            self._file = cast(BinaryIO, open(self.path, \"rb+\", 0))\n            self._file.seek(0, 2)\n", "            self._file = cast(BinaryIO, open(self.path, \"rb+\", 0))\n",
           expect_rule="open/existing-file-positioned-at-end"),
    Mutant("size-not-reset", LOG, "        BaseLogFile._openFile(self)\n        self.size = self._file.tell()\n\n    def shouldRotate(self):\n        \"\"\"\n        Rotate when the log file size",
           "        BaseLogFile._openFile(self)\n        if not hasattr(self, \"size\"):\n            self.size = self._file.tell()\n\n    def shouldRotate(self):\n        \"\"\"\n        Rotate when the log file size",
           expect_rule="size/reread-on-open"),
    Mutant("size-synced-only-at-construction-and-rotation", LOG,
           "        self.maxRotatedFiles = maxRotatedFiles\n\n    def _openFile(self):\n        BaseLogFile._openFile(self)\n        self.size = self._file.tell()\n",
           "        self.maxRotatedFiles = maxRotatedFiles\n        self.size = self._file.tell()\n",
           more=[(LOG, "        os.rename(self.path, \"%s.1\" % self.path)\n        self._openFile()\n", "        os.rename(self.path, \"%s.1\" % self.path)\n        self._openFile()\n        self.size = self._file.tell()\n")],
           expect_rule="size/reread-on-open"),
    Mutant("remove-without-limit", LOG, "            if self.maxRotatedFiles is not None and i >= self.maxRotatedFiles:", "            if self.maxRotatedFiles is None or i >= self.maxRotatedFiles:",
           expect_rule="retention/"),
    Mutant("current-to-wrong-slot", LOG, "        os.rename(self.path, \"%s.1\" % self.path)", "        os.rename(self.path, \"%s.0\" % self.path)", expect_rule="sequence/current-becomes-1"),
    Mutant("rotated-file-list-cached", LOG, "    def listLogs(self):\n", "    @functools.lru_cache(maxsize=None)\n    def listLogs(self):\n",
           more=[(LOG, "import glob\n", "import functools\nimport glob\n")], expect_rule="anchor/body-entered-on-every-call"),
    Mutant("failed-shift-ignored", LOG, "            else:\n                os.rename(\"%s.%d\" % (self.path, i), \"%s.%d\" % (self.path, i + 1))\n",
           "            else:\n                try:\n                    os.rename(\"%s.%d\" % (self.path, i), \"%s.%d\" % (self.path, i + 1))\n                except OSError:\n                    pass\n",
           expect_rule="shift/failed-shift-aborts-rotation"),
    Mutant("sort-before-last-append", LOG, "            except ValueError:\n                pass\n        result.sort()\n        return result", "            except ValueError:\n                pass\n        return result",
           expect_rule="order/listLogs-ascending"),
    Mutant("access-test-dropped", LOG, "        if not (os.access(self.directory, os.W_OK) and os.access(self.path, os.W_OK)):\n            return\n        logs = self.listLogs()",
           "        if not os.access(self.path, os.W_OK):\n            return\n        logs = self.listLogs()", expect_rule="sequence/untouched-when-not-writable"),
]
SILENT = [
    Silent("reversed-in-loop-header", LOG, "        logs = self.listLogs()\n        logs.reverse()\n        for i in logs:", "        logs = self.listLogs()\n        for i in reversed(logs):"),
    Silent("sort-reverse-true", LOG, "        logs = self.listLogs()\n        logs.reverse()\n", "        logs = self.listLogs()\n        logs.sort(reverse=True)\n"),
    Silent("retention-test-rewritten", LOG, "            if self.maxRotatedFiles is not None and i >= self.maxRotatedFiles:", "            if self.maxRotatedFiles is not None and not i < self.maxRotatedFiles:"),
    Silent("boundary-operands-swapped", LOG, "        return self.rotateLength and self.size >= self.rotateLength", "        return self.rotateLength and self.rotateLength <= self.size"),
    Silent("fstring-names", LOG, "                os.rename(\"%s.%d\" % (self.path, i), \"%s.%d\" % (self.path, i + 1))", "                os.rename(f\"{self.path}.{i}\", f\"{self.path}.{i + 1}\")"),
    Silent("listLogs-returns-sorted-copy", LOG, "        result.sort()\n        return result", "        return sorted(result)"),
    Silent("shouldRotate-as-if-chain", LOG, "        return self.rotateLength and self.size >= self.rotateLength",
           "        if not self.rotateLength:\n            return False\n        return self.size >= self.rotateLength"),
    Silent("shift-names-in-locals", LOG, "                os.rename(\"%s.%d\" % (self.path, i), \"%s.%d\" % (self.path, i + 1))",
           "                old = \"%s.%d\" % (self.path, i)\n                new = \"%s.%d\" % (self.path, i + 1)\n                os.rename(old, new)"),
    Silent("glob-pattern-escaped", LOG, "        for name in glob.glob(\"%s.*\" % self.path):", "        for name in glob.glob(\"%s.*\" % glob.escape(self.path)):"),
    Silent("size-resynced-by-each-reopener", LOG,
           "        self.maxRotatedFiles = maxRotatedFiles\n\n    def _openFile(self):\n        BaseLogFile._openFile(self)\n        self.size = self._file.tell()\n",
           "        self.maxRotatedFiles = maxRotatedFiles\n        self.size = self._file.tell()\n\n    def reopen(self):\n        BaseLogFile.reopen(self)\n        self.size = self._file.tell()\n",
           more=[(LOG, "        os.rename(self.path, \"%s.1\" % self.path)\n        self._openFile()\n", "        os.rename(self.path, \"%s.1\" % self.path)\n        self._openFile()\n        self.size = 0\n")]),
    Silent("shouldRotate-explicit-falsy-guard", LOG, "        return self.rotateLength and self.size >= self.rotateLength",
           "        if not self.rotateLength:\n            return self.rotateLength\n        return self.rotateLength <= self.size"),
    Silent("write-encodes-into-a-second-local", LOG, "        if isinstance(data, str):\n            data = data.encode(\"utf8\")\n        self._file.write(data)",
           "        if not isinstance(data, str):\n            payload = data\n        else:\n            payload = data.encode(\"utf8\")\n        self._file.write(payload)"),
    Silent("branches-swapped", LOG, "            if self.maxRotatedFiles is not None and i >= self.maxRotatedFiles:\n                os.remove(\"%s.%d\" % (self.path, i))\n            else:\n                os.rename(\"%s.%d\" % (self.path, i), \"%s.%d\" % (self.path, i + 1))",
           "            if self.maxRotatedFiles is None or i < self.maxRotatedFiles:\n                os.rename(\"%s.%d\" % (self.path, i), \"%s.%d\" % (self.path, i + 1))\n            else:\n                os.remove(\"%s.%d\" % (self.path, i))"),
    Silent("rotation-steps-in-private-helpers", LOG,
           "        logs = self.listLogs()\n        logs.reverse()\n        for i in logs:\n            if self.maxRotatedFiles is not None and i >= self.maxRotatedFiles:\n                os.remove(\"%s.%d\" % (self.path, i))\n            else:\n                os.rename(\"%s.%d\" % (self.path, i), \"%s.%d\" % (self.path, i + 1))\n        self._file.close()\n        os.rename(self.path, \"%s.1\" % self.path)\n        self._openFile()\n",
           "        self._shiftOlderLogs()\n        self._file.close()\n        os.rename(self.path, self._rotatedName(1))\n        self._openFile()\n\n    def _rotatedName(self, identifier):\n        return \"%s.%d\" % (self.path, identifier)\n\n"
           "    def _shiftOlderLogs(self):\n        for i in reversed(self.listLogs()):\n            beyondLimit = self.maxRotatedFiles is not None and i >= self.maxRotatedFiles\n            if beyondLimit:\n                os.remove(self._rotatedName(i))\n                continue\n            os.rename(self._rotatedName(i), self._rotatedName(i + 1))\n"),
    Silent("writability-in-a-temporary", LOG, "        if not (os.access(self.directory, os.W_OK) and os.access(self.path, os.W_OK)):\n            return\n        logs = self.listLogs()",
           "        writable = os.access(self.directory, os.W_OK) and os.access(self.path, os.W_OK)\n        if not writable:\n            return\n        logs = self.listLogs()"),
    Silent("rotate-if-due-helper", LOG, "        if self.shouldRotate():\n            self.flush()\n            self.rotate()\n        if isinstance(data, str):", "        self._rotateIfDue()\n        if isinstance(data, str):",
           more=[(LOG, "    def flush(self):\n        \"\"\"\n        Flush the file.", "    def _rotateIfDue(self):\n        if not self.shouldRotate():\n            return\n        self.flush()\n        self.rotate()\n\n    def flush(self):\n        \"\"\"\n        Flush the file.")]),
    Silent("identifier-parsing-helper", LOG, "            try:\n                counter = int(name.split(\".\")[-1])\n                if counter:\n                    result.append(counter)\n            except ValueError:\n                pass\n",
           "            counter = self._identifierOf(name)\n            if counter:\n                result.append(counter)\n",
           more=[(LOG, "    def __getstate__(self):\n        state = BaseLogFile.__getstate__(self)\n        del state[\"size\"]", "    def _identifierOf(self, name):\n        try:\n            return int(name.split(\".\")[-1])\n        except ValueError:\n            return 0\n\n    def __getstate__(self):\n        state = BaseLogFile.__getstate__(self)\n        del state[\"size\"]")]),
    Silent("rotate-length-in-a-temporary", LOG, "        return self.rotateLength and self.size >= self.rotateLength", "        limit = self.rotateLength\n        return bool(limit) and self.size >= limit"),
    Silent("exists-test-in-a-temporary", LOG, "        if os.path.exists(self.path):\n            self._file = cast(BinaryIO, open(self.path, \"rb+\", 0))\n            self._file.seek(0, 2)\n        else:",
           "        alreadyThere = os.path.exists(self.path)\n        if alreadyThere:\n            self._file = cast(BinaryIO, open(self.path, \"rb+\", 0))\n            self._file.seek(0, os.SEEK_END)\n        else:"),
]
