"""Helpers shared by the C23..C29 checkers (batch F).  Pure AST/CFG utilities, stdlib only."""
from __future__ import annotations

import ast
from typing import Callable, Dict, Iterable, List, Optional, Sequence, Set, Tuple

from sa.astx import NotConst, call_attr, call_name, const_eval, dotted, src, walk_local
from sa.source import AnalysisError


def is_self_attr(node, name=None, recv="self"):
    return (isinstance(node, ast.Attribute) and isinstance(node.value, ast.Name) and node.value.id == recv
            and (name is None or node.attr == name))


def cmp_polarity(test: ast.AST, a: str, b: str) -> Optional[bool]:
    """``test`` is an (in)equality between expressions whose normalised texts are a and b:
    True when test-true means a == b, False when test-true means a != b, None otherwise."""
    if isinstance(test, ast.Compare) and len(test.ops) == 1:
        l, r = src(test.left), src(test.comparators[0])
        if {l, r} == {a, b} and (l != r):
            if isinstance(test.ops[0], (ast.Eq, ast.Is)):
                return True
            if isinstance(test.ops[0], (ast.NotEq, ast.IsNot)):
                return False
    return None


def guarded_eq(g, n: int, a: str, b: str, equal: bool) -> bool:
    """Every entry->n path establishes a == b (equal=True) or a != b (equal=False)."""
    for t, lab in g.edge_guards(n):
        p = cmp_polarity(g.node(t).ast, a, b)
        if p is not None and ((lab == "T") == p) == equal:
            return True
    return False


def none_guard(g, n: int, x: str, is_none: bool) -> bool:
    """Every entry->n path establishes ``x is None`` (is_none) / ``x is not None``.  A bare truthiness
    test of x taken true also establishes not-None; taken false it is accepted as the None case."""
    for t, lab in g.edge_guards(n):
        e = g.node(t).ast
        p = cmp_polarity(e, x, "None")
        if p is not None and ((lab == "T") == p) == is_none:
            return True
        if src(e) == x and (lab == "T") == (not is_none):
            return True
    return False


def truth_guard(g, n: int, x: str, truthy: bool) -> bool:
    """Every entry->n path passes a bare test of expression x with the given outcome."""
    for t, lab in g.edge_guards(n):
        if src(g.node(t).ast) == x and (lab == "T") == truthy:
            return True
    return False


def guards_src(g, n: int) -> List[Tuple[str, bool]]:
    return [(src(g.node(t).ast), lab == "T") for t, lab in g.edge_guards(n)]


def call_sites(g, pred: Callable[[ast.Call], bool]) -> List[Tuple[int, ast.Call]]:
    """(cfg node id, call) for every call in the function's own statements satisfying pred."""
    out = []
    for n in g.nodes:
        if n.kind not in ("stmt", "test", "for", "with") or n.ast is None or not g.reachable(n.id):
            continue
        if n.kind == "for":
            roots = [n.ast.iter]
        elif n.kind == "with":
            roots = [it.context_expr for it in n.ast.items]
        elif isinstance(n.ast, (ast.FunctionDef, ast.AsyncFunctionDef, ast.ClassDef)):
            roots = list(n.ast.decorator_list)  # a nested def is a different function: its body is not executed here
        else:
            roots = [n.ast]
        for r in roots:
            for x in walk_local(r):
                if isinstance(x, ast.Call) and pred(x):
                    out.append((n.id, x))
    return out


def from_here(g, srcs, via, exc: bool = False, to=None):
    """Every path that starts AT one of ``srcs`` (inclusive) and runs to an exit passes a ``via`` node.
    Returns a witness path or None.  (must_pass(strict=False) does not treat a source that is itself a
    via node as satisfied; this does.)"""
    via = set(via)
    rest = [s for s in srcs if s not in via]
    if not rest:
        return None
    return g.must_pass(rest, via, to=to, exc=exc, strict=False)


def named_calls(g, *names: str) -> List[Tuple[int, ast.Call]]:
    """Calls whose dotted callee equals a name, or whose last component equals ".name"."""
    def pred(c):
        d, a = call_name(c), call_attr(c)
        return any((nm.startswith(".") and a == nm[1:]) or d == nm for nm in names)
    return call_sites(g, pred)


def assign_sites(g, target_pred: Callable[[ast.AST], bool]) -> List[Tuple[int, ast.stmt]]:
    out = []
    for n in g.nodes:
        if n.kind != "stmt" or not g.reachable(n.id):
            continue
        st = n.ast
        tgts = []
        if isinstance(st, ast.Assign):
            for t in st.targets:
                tgts.extend(t.elts if isinstance(t, (ast.Tuple, ast.List)) else [t])
        elif isinstance(st, (ast.AugAssign, ast.AnnAssign)):
            tgts = [st.target]
        if any(target_pred(t) for t in tgts):
            out.append((n.id, st))
    return out


def const_str(node) -> Optional[str]:
    return node.value if isinstance(node, ast.Constant) and isinstance(node.value, str) else None


_SUBST_CACHE: Dict[tuple, tuple] = {}


def _rebuild(node, keys, names):
    """Copy of an expression (``_fields`` only, so parent links are not followed) in which every
    sub-expression whose normalised text is in ``keys`` is replaced by a fresh Name."""
    if isinstance(node, ast.expr):
        s = src(node)
        if s in keys:
            nm = names.setdefault(s, "__v%d" % len(names))
            return ast.Name(id=nm, ctx=ast.Load())
    if isinstance(node, ast.AST):
        new = node.__class__()
        for f in node._fields:
            if hasattr(node, f):
                setattr(new, f, _rebuild(getattr(node, f), keys, names))
        for a in ("lineno", "col_offset", "end_lineno", "end_col_offset"):
            if hasattr(node, a):
                setattr(new, a, getattr(node, a))
        return new
    if isinstance(node, list):
        return [_rebuild(x, keys, names) for x in node]
    return node


class ModelRaised(NotConst):
    """Evaluating a modelled pure call raised a Python exception (the repository expression would raise it too)."""

    def __init__(self, name, text="", value=None):
        NotConst.__init__(self, f"{name}: {text}")
        self.name = name
        self.value = value


STR_METHODS = {"startswith", "endswith", "rstrip", "lstrip", "strip", "count", "find", "rfind", "replace", "isdigit", "splitlines",
               "rsplit", "partition", "rpartition", "index", "capitalize", "title", "isalnum", "isalpha", "translate", "removeprefix",
               "removesuffix", "isspace", "islower", "isupper", "zfill", "ljust", "rjust", "center", "hex", "tobytes", "format", "swapcase", "casefold",
               "expandtabs", "encode", "decode", "join", "lower", "upper", "split"}


import collections as _collections
import re as _re

_CONTAINERS = (list, dict, set, bytearray, _collections.deque, tuple, frozenset)
CONTAINER_METHODS = {"append", "extend", "insert", "pop", "get", "items", "keys", "values", "update", "add", "setdefault", "copy", "index", "count",
                     "popleft", "appendleft", "clear", "remove", "discard", "union", "intersection", "difference", "issubset", "issuperset"}


def _eval_any(node, env, funcs):
    try:
        return const_eval(node, env)
    except NotConst:
        return const_eval(_fold(node, env, funcs), env)


class _Lambda:
    _sa_model = True

    def __init__(self, node, env, funcs):
        self.node, self.env, self.funcs = node, env, funcs

    def __call__(self, *args, **kwargs):
        a = self.node.args
        params = [x.arg for x in list(a.posonlyargs) + list(a.args)]
        defaults = dict(zip(params[len(params) - len(a.defaults):], a.defaults))
        env = dict(self.env)
        for i, pname in enumerate(params):
            if i < len(args):
                env[pname] = args[i]
            elif pname in kwargs:
                env[pname] = kwargs[pname]
            elif pname in defaults:
                env[pname] = _eval_any(defaults[pname], self.env, self.funcs)
        if a.vararg is not None:
            env[a.vararg.arg] = tuple(args[len(params):])
        return _eval_any(self.node.body, env, self.funcs)


def _fstring(node, env, funcs):
    out = ""
    for v in node.values:
        if isinstance(v, ast.Constant):
            out += str(v.value)
        else:
            val = _eval_any(v.value, env, funcs)
            if v.conversion == ord("r"):
                val = repr(val)
            elif v.conversion == ord("s"):
                val = str(val)
            elif v.conversion == ord("a"):
                val = ascii(val)
            spec = _fstring(v.format_spec, env, funcs) if v.format_spec is not None else ""
            try:
                out += format(val, spec)
            except Exception as ex:
                raise ModelRaised(type(ex).__name__, str(ex))
    return out


def _bind_target(t, v, env):
    if isinstance(t, ast.Name):
        env[t.id] = v
    elif isinstance(t, (ast.Tuple, ast.List)):
        vs = list(v)
        if len(vs) != len(t.elts):
            raise ModelRaised("ValueError", "unpack")
        for a, b in zip(t.elts, vs):
            _bind_target(a, b, env)
    else:
        raise NotConst("comprehension target")


def _comprehension(node, env, funcs):
    out = []

    def rec(i, e):
        if i == len(node.generators):
            if isinstance(node, ast.DictComp):
                out.append((_eval_any(node.key, e, funcs), _eval_any(node.value, e, funcs)))
            else:
                out.append(_eval_any(node.elt, e, funcs))
            return
        gen = node.generators[i]
        for item in list(_eval_any(gen.iter, e, funcs)):
            e2 = dict(e)
            _bind_target(gen.target, item, e2)
            if all(_eval_any(c, e2, funcs) for c in gen.ifs):
                rec(i + 1, e2)

    rec(0, dict(env))
    if isinstance(node, ast.DictComp):
        return dict(out)
    if isinstance(node, ast.SetComp):
        return set(out)
    if isinstance(node, ast.GeneratorExp):
        return iter(out)
    return out


_FOLDABLE: Dict[int, tuple] = {}


def _fold(node, env, funcs):
    """Copy of ``node`` in which calls of pure str/bytes methods (STR_METHODS) and of the named pure
    functions in ``funcs`` whose receiver/arguments are evaluable are replaced by their value."""
    if isinstance(node, list):
        return [_fold(x, env, funcs) for x in node]
    if not isinstance(node, ast.AST):
        return node
    if isinstance(node, ast.Name):
        if isinstance(node.ctx, ast.Load) and node.id not in env and node.id in funcs:
            return ast.Constant(value=funcs[node.id])       # a module-level function / class used as a value (e.g. passed as a callback)
        return node
    hit = _FOLDABLE.get(id(node))
    if hit is None or hit[0] is not node:
        hit = (node, any(isinstance(x, (ast.Call, ast.Attribute, ast.JoinedStr, ast.Lambda, ast.NamedExpr, ast.IfExp, ast.ListComp, ast.SetComp, ast.GeneratorExp, ast.DictComp)) for x in ast.walk(node)))
        _FOLDABLE[id(node)] = hit
    if not hit[1]:
        return node          # nothing to fold below: share the (never mutated) node
    if isinstance(node, ast.IfExp):
        # lazily: only the chosen branch is evaluated (the other one may legitimately be ill-typed)
        return ast.Constant(value=_eval_any(node.body if _eval_any(node.test, env, funcs) else node.orelse, env, funcs))
    if isinstance(node, ast.BoolOp):
        v = None
        for operand in node.values:
            v = _eval_any(operand, env, funcs)
            if (not v) if isinstance(node.op, ast.And) else bool(v):
                break
        return ast.Constant(value=v)
    if isinstance(node, ast.Lambda):
        return ast.Constant(value=_Lambda(node, env, funcs))
    if isinstance(node, ast.NamedExpr) and isinstance(node.target, ast.Name):
        v = _eval_any(node.value, env, funcs)
        env[node.target.id] = v
        env.setdefault("__walrus__", set()).add(node.target.id)      # subst_eval copies these back into the caller's namespace
        return ast.Constant(value=v)
    if isinstance(node, ast.JoinedStr):
        try:
            return ast.Constant(value=_fstring(node, env, funcs))
        except NotConst:
            pass
    if isinstance(node, ast.Attribute) and isinstance(node.value, ast.Name) and env.get(node.value.id) in (str, bytes) and node.attr in STR_METHODS | {"join", "encode", "decode", "lower", "upper", "split"}:
        return ast.Constant(value=getattr(env[node.value.id], node.attr))      # unbound pure method, e.g. map(bytes.strip, ...)
    if isinstance(node, (ast.ListComp, ast.SetComp, ast.GeneratorExp, ast.DictComp)):
        try:
            return ast.Constant(value=_comprehension(node, env, funcs))
        except ModelRaised:
            raise
        except NotConst:
            pass
    new = node.__class__()
    for f in node._fields:
        if hasattr(node, f):
            setattr(new, f, _fold(getattr(node, f), env, funcs))
    if isinstance(new, ast.Attribute) and isinstance(getattr(new, "ctx", None), ast.Load) and (not new.attr.startswith("__") or new.attr in ("__doc__", "__name__", "__class__", "__init__")) and new.attr != "_sa_model":
        try:
            recv = const_eval(new.value, env)
        except NotConst:
            recv = None
        if isinstance(recv, RepoClass) and new.attr == "__init__":
            return ast.Constant(value=recv.__getattr__("__init__"))    # Base.__init__(self, ...): the repository's initialiser, unbound
        if getattr(recv, "_sa_model", False) and hasattr(recv, new.attr):
            return ast.Constant(value=getattr(recv, new.attr))   # data attribute / bound method of a model object
        if recv is None and isinstance(new.value, (ast.Name, ast.Constant)) and (not isinstance(new.value, ast.Name) or new.value.id in env):
            raise ModelRaised("AttributeError", f"'NoneType' object has no attribute {new.attr!r}")
    if isinstance(new, ast.Call):
        try:
            callee = dotted(node.func)

            def value_of(e_):
                try:
                    return const_eval(e_, env)
                except NotConst:
                    if isinstance(e_, ast.Name) and e_.id not in env and e_.id in funcs:
                        return funcs[e_.id]            # a module-level function / class passed as a value
                    raise

            def actuals():
                args = []
                for a_ in new.args:
                    if isinstance(a_, ast.Starred):
                        args.extend(list(value_of(a_.value)))
                    else:
                        args.append(value_of(a_))
                kw = {}
                for k_ in new.keywords:
                    if k_.arg is None:
                        kw.update(dict(value_of(k_.value)))
                    else:
                        kw[k_.arg] = value_of(k_.value)
                return args, kw
            if callee is not None and callee in funcs:
                args, kw = actuals()
                return ast.Constant(value=funcs[callee](*args, **kw))
            if isinstance(new.func, ast.Name) and callable(env.get(new.func.id)) and not isinstance(env.get(new.func.id), type):
                args, kw = actuals()
                return ast.Constant(value=env[new.func.id](*args, **kw))
            if isinstance(new.func, ast.Constant) and callable(new.func.value):
                args, kw = actuals()
                return ast.Constant(value=new.func.value(*args, **kw))
            if isinstance(new.func, ast.Attribute):
                try:
                    recv = const_eval(new.func.value, env)
                except NotConst:
                    recv = None
                if isinstance(recv, (str, bytes, bytearray, memoryview)) and new.func.attr in STR_METHODS:
                    args, kw = actuals()
                    return ast.Constant(value=getattr(recv, new.func.attr)(*args, **kw))
                if isinstance(recv, _CONTAINERS) and new.func.attr in CONTAINER_METHODS:
                    # a container created by the interpreted function itself (never a repository object)
                    args, kw = actuals()
                    return ast.Constant(value=getattr(recv, new.func.attr)(*args, **kw))
                if isinstance(recv, _re.Pattern) and new.func.attr in ("sub", "subn", "match", "search", "fullmatch", "split", "findall"):
                    # a module/class-level compiled pattern with a constant source: delegate to CPython's re
                    args, kw = actuals()
                    return ast.Constant(value=getattr(recv, new.func.attr)(*args, **kw))
                if isinstance(recv, _re.Match) and new.func.attr in ("group", "groups", "start", "end", "span", "groupdict"):
                    args, kw = actuals()
                    return ast.Constant(value=getattr(recv, new.func.attr)(*args, **kw))
                if getattr(recv, "_sa_model", False) and not new.func.attr.startswith("__"):
                    # a checker-supplied model object standing for a repository object (e.g. a queue)
                    args, kw = actuals()
                    return ast.Constant(value=getattr(recv, new.func.attr)(*args, **kw))
        except (ModelRaised, InterpError):
            raise
        except NotConst:
            pass
        except Exception as ex:  # e.g. TypeError mixing str/bytes: the repository expression itself would raise
            raise ModelRaised(type(ex).__name__, str(ex))
    return new


def subst_eval(expr: ast.AST, mapping: Dict[str, object], env: Optional[dict] = None, funcs: Optional[dict] = None):
    """Evaluate a pure expression after replacing every sub-expression whose normalised text is
    a key of ``mapping`` by that value (finite-domain evaluation of repository expressions).
    Pure string methods and the callables in ``funcs`` (dotted callee text -> python function, the
    model of that callee) are folded when the plain whitelisted evaluator does not know them."""
    key = (id(expr), frozenset(mapping))
    hit = _SUBST_CACHE.get(key)
    if hit is None or hit[0] is not expr:
        names: Dict[str, str] = {}
        e2 = _rebuild(expr, set(mapping), names)
        hit = (expr, e2, names)
        _SUBST_CACHE[key] = hit
    _, e2, names = hit
    full = dict(env or {})
    for s, nm in names.items():
        full[nm] = mapping[s]
    try:
        return const_eval(e2, full)
    except NotConst:
        try:
            for _attempt in range(8):
                try:
                    return const_eval(_fold(e2, full, funcs or {}), full)
                except ModelRaised:
                    raise
                except NotConst as ex:
                    nm = str(ex)
                    if funcs is not None and nm.isidentifier() and nm not in full and nm in funcs:
                        full[nm] = funcs[nm]          # a module-level function / class used as a plain value
                        continue
                    raise
        finally:
            if env is not None:
                for nm in full.pop("__walrus__", ()):
                    env[nm] = full[nm]


def handler_names(h: ast.ExceptHandler) -> List[str]:
    if h.type is None:
        return ["<bare>"]
    if isinstance(h.type, ast.Tuple):
        return [(dotted(e) or src(e)).split(".")[-1] for e in h.type.elts]
    return [(dotted(h.type) or src(h.type)).split(".")[-1]]


def enclosing_try_handlers(func: ast.AST, node: ast.AST) -> List[ast.ExceptHandler]:
    """Handlers of the innermost ``try`` whose *body* contains ``node`` (within func)."""
    best = None
    for t in walk_local(func):
        if isinstance(t, ast.Try):
            for st in t.body:
                if any(x is node for x in ast.walk(st)):
                    best = t  # walk_local is pre-order: later matches are inner
    return list(best.handlers) if best is not None else []


def catches_everything(handlers: Sequence[ast.ExceptHandler]) -> bool:
    return any(nm in ("<bare>", "BaseException") for h in handlers for nm in handler_names(h))


def param_names(func) -> List[str]:
    a = func.args
    return [x.arg for x in list(a.posonlyargs) + list(a.args) + list(a.kwonlyargs)]


def local_assignments(func, name: str) -> List[ast.stmt]:
    """Statements in func (not nested scopes) that (re)bind the local ``name``."""
    out = []
    for st in walk_local(func):
        if isinstance(st, ast.Assign):
            for t in st.targets:
                flat = t.elts if isinstance(t, (ast.Tuple, ast.List)) else [t]
                if any(isinstance(x, ast.Name) and x.id == name for x in flat):
                    out.append(st)
        elif isinstance(st, (ast.AugAssign, ast.AnnAssign)) and isinstance(st.target, ast.Name) and st.target.id == name:
            out.append(st)
        elif isinstance(st, (ast.For, ast.AsyncFor)):
            if any(isinstance(x, ast.Name) and x.id == name for x in ast.walk(st.target)):
                out.append(st)
        elif isinstance(st, (ast.With, ast.AsyncWith)):
            for it in st.items:
                if it.optional_vars is not None and any(isinstance(x, ast.Name) and x.id == name for x in ast.walk(it.optional_vars)):
                    out.append(st)
    return out


def never_returns_normally(g) -> bool:
    """No path entry -> normal exit (the function always raises)."""
    return g.path([g.entry], [g.exit]) is None


def class_functions(mod, clsname: str):
    """(qualified name, func) for every function of the class, nested ones included."""
    return [(q, f) for q, f in mod.functions() if q.startswith(clsname + ".")]


def resolver(g, mapping: Dict[str, object], env: Optional[dict] = None):
    """edge_ok function for CFG queries: atomic tests that become constant once the expressions in
    ``mapping`` (normalised text -> value) are fixed are followed only along their actual outcome
    (path-sensitive finite evaluation); all other tests keep both edges."""
    cache: Dict[int, Optional[bool]] = {}

    def outcome(a: int) -> Optional[bool]:
        if a not in cache:
            n = g.node(a)
            r = None
            if n.kind == "test":
                try:
                    r = bool(subst_eval(n.ast, mapping, env))
                except NotConst:
                    r = None
                except Exception:
                    r = None
            cache[a] = r
        return cache[a]

    def ok(a, b, lab):
        if lab in ("T", "F"):
            o = outcome(a)
            if o is not None:
                return (lab == "T") == o
        return True

    return ok


class InterpError(Exception):
    pass


import posixpath as _pp

# ---- model of os / os.path on the analysed (POSIX) platform: constants and pure helpers --------------------------
OS_MAPPING: Dict[str, object] = {}
for _pfx in ("os.", "os.path."):
    OS_MAPPING.update({_pfx + "sep": "/", _pfx + "pardir": "..", _pfx + "curdir": ".", _pfx + "altsep": None, _pfx + "extsep": ".", _pfx + "pathsep": ":"})
OS_MAPPING["os.linesep"] = "\n"
OS_MAPPING["os.name"] = "posix"


def _commonpath(xs):
    return _pp.commonpath(list(xs))


_OS_PATH_FUNCS = {"normpath": _pp.normpath, "abspath": _pp.abspath, "join": _pp.join, "basename": _pp.basename, "dirname": _pp.dirname, "split": _pp.split,
                  "splitext": _pp.splitext, "commonpath": _commonpath, "commonprefix": lambda xs: _pp.commonprefix(list(xs)), "isabs": _pp.isabs,
                  "realpath": _pp.normpath, "normcase": _pp.normcase, "relpath": _pp.relpath, "splitdrive": _pp.splitdrive, "expanduser": lambda p: p}
OS_FUNCS: Dict[str, object] = {}
for _k, _v in _OS_PATH_FUNCS.items():
    OS_FUNCS[_k] = _v
    OS_FUNCS["os.path." + _k] = _v
    OS_FUNCS["posixpath." + _k] = _v
OS_FUNCS["joinpath"] = _pp.join          # `from os.path import join as joinpath` (twisted.python.filepath)
OS_FUNCS["os.fspath"] = lambda p: p
OS_FUNCS["os.fsencode"] = lambda p: p.encode("utf-8") if isinstance(p, str) else p
OS_FUNCS["os.fsdecode"] = lambda p: p.decode("utf-8") if isinstance(p, bytes) else p

BUILTIN_FUNCS = {"isinstance": isinstance, "abs": abs, "bool": bool, "sum": sum, "any": any, "all": all, "divmod": divmod, "reversed": lambda x: list(reversed(x)),
                 "enumerate": lambda x, *a: list(enumerate(x, *a)), "zip": lambda *a: list(zip(*a)), "repr": repr, "memoryview": memoryview, "hex": hex,
                 "iter": iter, "next": next, "type": type, "getattr": getattr, "hasattr": hasattr, "callable": callable, "round": round, "float": float, "slice": slice,
                 # these are also known to the plain evaluator, which however loses the exception type: here a failure becomes the modelled exception
                 "int": int, "sorted": sorted, "min": min, "max": max, "len": len, "list": list, "tuple": tuple, "dict": dict, "set": set, "str": str, "bytes": bytes,
                 "map": lambda f, *its: [f(*a) for a in zip(*its)], "filter": lambda f, it: [x for x in it if (f(x) if f is not None else x)],
                 "range": lambda *a: list(range(*a)), "ord": ord, "chr": chr,
                 # pure formatting / conversion builtins on plain values (numbers, str, bytes): delegated to CPython
                 "format": lambda v, spec="": _plain_format(v, spec), "partial": lambda f_, *a, **k: (lambda *b, **kk: f_(*a, *b, **k, **kk)), "reduce": lambda f_, it, *init: _reduce(f_, it, *init), "oct": oct, "bin": bin, "ascii": ascii, "pow": pow, "bytearray": bytearray, "frozenset": frozenset}


def _reduce(f_, it, *init):
    """functools.reduce over an interpreted function / lambda / model callable"""
    items = list(it)
    if init:
        acc = init[0]
    elif items:
        acc, items = items[0], items[1:]
    else:
        raise ModelRaised("TypeError", "reduce() of empty iterable with no initial value")
    for x in items:
        acc = f_(acc, x)
    return acc


def _plain_format(v, spec=""):
    if not isinstance(v, (int, float, str, bool)) or not isinstance(spec, str):
        raise NotConst("format() of a non-plain value")
    return format(v, spec)


_BUILTIN_FUNCS_END = None
BUILTIN_NAMES = {"str": str, "bytes": bytes, "int": int, "bytearray": bytearray, "tuple": tuple, "list": list, "dict": dict, "set": set, "frozenset": frozenset,
                 "float": float, "bool": bool, "object": object, "memoryview": memoryview}

_EXC_PARENTS = {"UnicodeDecodeError": ["UnicodeError", "ValueError"], "UnicodeEncodeError": ["UnicodeError", "ValueError"], "UnicodeError": ["ValueError"],
                "KeyError": ["LookupError"], "IndexError": ["LookupError"], "FileNotFoundError": ["OSError"], "PermissionError": ["OSError"],
                "ZeroDivisionError": ["ArithmeticError"], "OverflowError": ["ArithmeticError"], "StopIteration": [], "NotImplementedError": ["RuntimeError"]}


LAST_RAISED = [None]              # value of the exception with which the most recent interpret() ended (None when only its name is known)
CURRENT_EXC: List[str] = []      # names of the exceptions being handled by interpreted ``except`` blocks (innermost last)


class _Raised(Exception):
    def __init__(self, name, value=None):
        Exception.__init__(self, name)
        self.name = name
        self.value = value          # the modelled exception instance (MExc) when the raise expression could be evaluated


class _Break(Exception):
    pass


class _Continue(Exception):
    pass


def _exc_matches(raised: str, handler: ast.ExceptHandler) -> bool:
    names = handler_names(handler)
    if any(n in ("<bare>", "BaseException", "Exception") for n in names):
        return True
    short_ = raised.split(".")[-1]
    anc, todo = {short_}, [short_]
    while todo:
        for p_ in _EXC_PARENTS.get(todo.pop(), []):
            if p_ not in anc:
                anc.add(p_)
                todo.append(p_)
    return bool(anc & set(names))


def interpret(func, args: Dict[str, object], mapping: Optional[Dict[str, object]] = None, max_steps: int = 20000, funcs: Optional[dict] = None,
              nested_call=lambda *a: None, state: Optional[dict] = None, _env_out=None, on_yield=None):
    """Finite-domain evaluation of a *pure* repository function with the whitelisted evaluator (no
    repository code runs): Assign (names, tuples, attributes, subscripts) / AugAssign / If / For / While /
    Break / Continue / Try / Return / Raise / Assert / Pass / docstring.  The expressions listed in
    ``mapping`` (normalised text -> value, e.g. ``self.getFileSize()``) are inputs; ``funcs`` maps callee text
    to a python model of that callee.  os / os.path constants and pure helpers (posixpath) and a few pure
    builtins are modelled by default.  Returns ("return", value) or ("raise", exception name).  A construct
    outside this subset is an InterpError (the caller turns it into an analysis error in its own section)."""
    env = dict(BUILTIN_NAMES)
    env.update(args)
    mp = state if state is not None else {}      # ``state``: caller-owned store that receives attribute / subscript assignments
    for k_, v_ in OS_MAPPING.items():
        mp.setdefault(k_, v_)
    mp.update(mapping or {})
    base_fs = dict(BUILTIN_FUNCS)
    base_fs.update(OS_FUNCS)
    base_fs.update(funcs or {})
    fs = _FuncTable(base_fs, getattr(funcs, "resolve", None))
    steps = [0]
    current: List[str] = []
    if "Failure" not in base_fs:
        fs["Failure"] = lambda *a, **k: MFailure(a[0] if a else MExc(current[-1] if current else "<no active exception>"))

    def ev(e):
        try:
            return subst_eval(e, mp, env, fs)
        except ModelRaised as ex:
            raise _Raised(ex.name, getattr(ex, "value", None))
        except NotConst as ex:
            raise InterpError(f"not evaluable: {src(e)} ({ex})")

    def assign(t, v):
        if isinstance(t, ast.Name):
            env[t.id] = v
        elif isinstance(t, (ast.Tuple, ast.List)):
            try:
                vs = list(v)
            except TypeError:
                raise _Raised("TypeError")
            if len(vs) != len(t.elts):
                raise _Raised("ValueError")
            for a, b in zip(t.elts, vs):
                assign(a, b)
        elif isinstance(t, ast.Attribute):
            try:
                owner = subst_eval(t.value, mp, env, fs)
            except NotConst:
                owner = None
            if isinstance(owner, RepoObject) or (getattr(owner, "_sa_model", False) and getattr(owner, "_sa_settable", False)):
                setattr(owner, t.attr, v)
            else:
                mp[src(t)] = v       # later reads of the same expression see the stored value
        elif isinstance(t, ast.Subscript):
            try:
                box = subst_eval(t.value, mp, env, fs)
            except NotConst:
                box = None
            if isinstance(box, (list, dict, bytearray)) and not isinstance(t.slice, ast.Slice):
                box[ev(t.slice)] = v
            else:
                mp[src(t)] = v
        else:
            raise InterpError(f"assignment target not modelled: {src(t)}")

    def block(stmts):
        for st in stmts:
            steps[0] += 1
            if steps[0] > max_steps:
                raise InterpError("step limit")
            if isinstance(st, ast.Expr):
                if isinstance(st.value, ast.Constant):
                    continue
                if isinstance(st.value, (ast.Yield, ast.YieldFrom)):
                    # a generator body run by a depth-first trampoline: the consumer handles each yielded value before the body continues
                    if on_yield is None:
                        raise InterpError("yield outside a modelled trampoline")
                    v = ev(st.value.value) if st.value.value is not None else None
                    if isinstance(st.value, ast.YieldFrom):
                        for item in (v.items(on_yield) if isinstance(v, GenThunk) else list(v)):
                            on_yield(item)
                    else:
                        on_yield(v)
                    continue
                ev(st.value)
            elif isinstance(st, (ast.Pass, ast.Import, ast.ImportFrom, ast.Global, ast.Nonlocal)):
                continue
            elif isinstance(st, ast.Assign):
                v = ev(st.value)
                for t in st.targets:
                    assign(t, v)
            elif isinstance(st, ast.AnnAssign):
                if st.value is not None:
                    assign(st.target, ev(st.value))
            elif isinstance(st, ast.AugAssign):
                if isinstance(st.target, ast.Name):
                    load = ast.Name(id=st.target.id, ctx=ast.Load())
                elif isinstance(st.target, ast.Attribute):
                    load = ast.Attribute(value=st.target.value, attr=st.target.attr, ctx=ast.Load())
                elif isinstance(st.target, ast.Subscript):
                    load = ast.Subscript(value=st.target.value, slice=st.target.slice, ctx=ast.Load())
                else:
                    raise InterpError(f"augmented assignment target not modelled: {src(st.target)}")
                assign(st.target, ev(ast.BinOp(left=load, op=st.op, right=st.value)))
            elif isinstance(st, ast.If):
                r = block(st.body if ev(st.test) else st.orelse)
                if r is not None:
                    return r
            elif isinstance(st, ast.Assert):
                if not ev(st.test):
                    raise _Raised("AssertionError")
            elif isinstance(st, ast.For):
                broke = False
                try:
                    seq_ = ev(st.iter)
                    items = iter(seq_) if isinstance(seq_, list) else iter(list(seq_))     # a list is iterated live (appends made by the body are seen), as in Python
                except TypeError:
                    raise _Raised("TypeError")
                for item in items:
                    assign(st.target, item)
                    try:
                        r = block(st.body)
                    except _Break:
                        broke = True
                        break
                    except _Continue:
                        continue
                    if r is not None:
                        return r
                if not broke and st.orelse:
                    r = block(st.orelse)
                    if r is not None:
                        return r
            elif isinstance(st, ast.While):
                broke = False
                while ev(st.test):
                    steps[0] += 1
                    if steps[0] > max_steps:
                        raise InterpError("step limit")
                    try:
                        r = block(st.body)
                    except _Break:
                        broke = True
                        break
                    except _Continue:
                        continue
                    if r is not None:
                        return r
                if not broke and st.orelse:
                    r = block(st.orelse)
                    if r is not None:
                        return r
            elif isinstance(st, ast.Break):
                raise _Break()
            elif isinstance(st, ast.Continue):
                raise _Continue()
            elif isinstance(st, ast.Try):
                r = None
                try:
                    try:
                        r = block(st.body)
                        if r is None and st.orelse:
                            r = block(st.orelse)
                    except _Raised as ex:
                        h = next((h for h in st.handlers if _exc_matches(ex.name, h)), None)
                        if h is None:
                            raise
                        current.append(ex.name)
                        CURRENT_EXC.append(ex.name)
                        try:
                            if h.name:
                                env[h.name] = MExc(ex.name)
                            r = block(h.body)
                        finally:
                            current.pop()
                            CURRENT_EXC.pop()
                finally:
                    if st.finalbody:
                        r2 = block(st.finalbody)
                        if r2 is not None:
                            r = r2
                if r is not None:
                    return r
            elif isinstance(st, ast.Return):
                return ("return", ev(st.value) if st.value is not None else None)
            elif isinstance(st, ast.Raise):
                if st.exc is None:
                    raise _Raised(current[-1] if current else "RuntimeError")
                e = st.exc.func if isinstance(st.exc, ast.Call) else st.exc
                val = None
                try:
                    val = subst_eval(st.exc, mp, env, fs)
                except (NotConst, InterpError):
                    val = None
                if isinstance(val, MExc):
                    raise _Raised(val.name, val)
                raise _Raised(dotted(e) or src(e))
            elif isinstance(st, ast.Delete):
                for t in st.targets:
                    if isinstance(t, ast.Name):
                        env.pop(t.id, None)
                    elif isinstance(t, ast.Attribute):
                        mp.pop(src(t), None)
                    elif isinstance(t, ast.Subscript):
                        box = ev(t.value)
                        if not isinstance(box, (list, dict, bytearray, _collections.deque)):
                            raise InterpError(f"del on a value that is not a local container: {src(t)}")
                        try:
                            if isinstance(t.slice, ast.Slice):
                                lo = ev(t.slice.lower) if t.slice.lower is not None else None
                                hi = ev(t.slice.upper) if t.slice.upper is not None else None
                                del box[lo:hi]
                            else:
                                del box[ev(t.slice)]
                        except (KeyError, IndexError) as ex:
                            raise _Raised(type(ex).__name__)
                    else:
                        raise InterpError(f"del target not modelled: {src(t)}")
            elif isinstance(st, (ast.FunctionDef, ast.AsyncFunctionDef)):
                if nested_call is None:
                    clo = Closure(st, env, mp, fs, None, on_yield)          # a real closure: interpreted when called
                    env[st.name] = clo
                    fs[st.name] = clo
                else:
                    # opaque mode: the nested function is only passed around; calling it is modelled by ``nested_call``
                    env[st.name] = f"<function {st.name}>"
                    fs.setdefault(st.name, nested_call)
            elif isinstance(st, (ast.With, ast.AsyncWith)):
                managers = [ev(it.context_expr) for it in st.items]
                for it, m_ in zip(st.items, managers):
                    if it.optional_vars is not None:
                        assign(it.optional_vars, m_)
                try:
                    r = block(st.body)
                except _Raised as ex:
                    if not any(getattr(m_, "_sa_swallow", False) for m_ in managers):
                        raise
                    for m_ in managers:
                        if hasattr(m_, "failed"):
                            m_.failed = True
                    r = None
                if r is not None:
                    return r
            else:
                raise InterpError(f"statement not modelled: {type(st).__name__}")
        return None

    def _write_back():
        if _env_out is not None:
            for nm in _env_out[1]:
                if nm in env:
                    _env_out[0][nm] = env[nm]

    try:
        r = block(func.body)
    except _Raised as ex:
        _write_back()
        LAST_RAISED[0] = ex.value
        return ("raise", ex.name)
    except (_Break, _Continue):
        raise InterpError("break/continue outside a loop")
    _write_back()
    return r if r is not None else ("return", None)


def module_patterns(mod) -> Dict[str, object]:
    """{name: compiled pattern} for module-level ``NAME = re.compile(<constant>[, <constant flags>])`` assignments."""
    out = {}
    for st in mod.tree.body:
        if isinstance(st, ast.Assign) and len(st.targets) == 1 and isinstance(st.targets[0], ast.Name) and isinstance(st.value, ast.Call) and \
                dotted(st.value.func) in ("re.compile", "compile"):
            try:
                args = [const_eval(a, {"re.I": _re.I}) for a in st.value.args]
                if not st.value.keywords and isinstance(args[0], (str, bytes)):
                    out[st.targets[0].id] = _re.compile(*args)
            except (NotConst, _re.error, IndexError):
                pass
    return out


def call_repo(fn, args, kwargs=None, selfobj=None, mapping=None, funcs=None, env=None, nested_call=lambda *a: None, state=None, bind_self=True, on_yield=None):
    """Call a repository function by interpreting it: positional/keyword arguments and constant defaults are bound to its
    parameters.  Returns the value; a raise becomes ModelRaised(name) so that an interpreting caller sees the same exception."""
    kwargs = dict(kwargs or {})
    a = fn.args
    params = [x.arg for x in list(a.posonlyargs) + list(a.args)]
    defaults = dict(zip(params[len(params) - len(a.defaults):], a.defaults))
    bound = dict(env or {})
    actual = list(args)
    if bind_self and params and params[0] in ("self", "cls"):
        bound[params[0]] = selfobj
        params = params[1:]
    for i, pname in enumerate(params):
        if i < len(actual):
            bound[pname] = actual[i]
        elif pname in kwargs:
            bound[pname] = kwargs.pop(pname)
        elif pname in defaults:
            bound[pname] = subst_eval(defaults[pname], {}, dict(BUILTIN_NAMES, **(env or {})), funcs)
        else:
            raise ModelRaised("TypeError", f"missing argument {pname}")
    if a.vararg is not None:
        bound[a.vararg.arg] = tuple(actual[len(params):])
    if a.kwarg is not None:
        bound[a.kwarg.arg] = {k_: v_ for k_, v_ in kwargs.items() if k_ not in params}
    for kw_, d_ in zip(a.kwonlyargs, a.kw_defaults):
        bound[kw_.arg] = kwargs.pop(kw_.arg) if kw_.arg in kwargs else (const_eval(d_, dict(BUILTIN_NAMES)) if d_ is not None else None)
    kind, val = interpret(fn, bound, mapping, funcs=funcs, nested_call=nested_call, state=state, on_yield=on_yield)
    if kind == "raise":
        raise ModelRaised(val.split(".")[-1], "raised by " + getattr(fn, "name", "?"), LAST_RAISED[0])
    return val


# ==================================================================================================================
# A small object world on top of the interpreter: repository classes are instantiated as RepoObject models whose
# methods are the repository's own functions (interpreted), nested functions become closures, and Deferred / Failure
# are modelled synchronously.  Nothing of the repository is imported or executed; external collaborators are
# supplied by the checker as python models.
# ==================================================================================================================
class MExc:
    """an exception instance created by interpreted code: class name + arguments"""
    _sa_model = True

    def __init__(self, name, args=()):
        self.name = name
        self.args = tuple(args)

    def __repr__(self):
        return f"{self.name}{self.args!r}"


class MFailure:
    _sa_model = True

    def __init__(self, value):
        self.value = value if isinstance(value, MExc) else MExc(str(value))
        self.type = self.value.name

    def check(self, *names):
        return self.value.name if self.value.name in [getattr(n, "name", n) for n in names] else None

    def trap(self, *names):
        if not self.check(*names):
            raise ModelRaised(self.value.name, "re-raised by trap")
        return self.value.name

    def __repr__(self):
        return f"Failure({self.value!r})"


class MDeferred:
    """synchronous model of twisted.internet.defer.Deferred (callback chain, chaining, cancel)"""
    _sa_model = True

    def __init__(self, canceller=None):
        self.callbacks = []
        self.called = False
        self.result = None
        self.fired = []          # every result delivered by callback()/errback() - more than one is AlreadyCalledError
        self.canceller = canceller
        self._running = False

    def addCallbacks(self, cb, eb=None, cbArgs=(), cbKw=None, ebArgs=(), ebKw=None, callbackArgs=None, errbackArgs=None, **kw):
        self.callbacks.append(((cb, tuple(callbackArgs or cbArgs), dict(cbKw or {})), (eb, tuple(errbackArgs or ebArgs), dict(ebKw or {}))))
        if self.called:
            self._run()
        return self

    def addCallback(self, cb, *a, **k):
        return self.addCallbacks(cb, None, cbArgs=a, cbKw=k)

    def addErrback(self, eb, *a, **k):
        return self.addCallbacks(None, eb, ebArgs=a, ebKw=k)

    def addBoth(self, f, *a, **k):
        return self.addCallbacks(f, f, cbArgs=a, cbKw=k, ebArgs=a, ebKw=k)

    def chainDeferred(self, other):
        return self.addCallbacks(other.callback, other.errback)

    def callback(self, result=None):
        self._fire(result)

    def errback(self, fail=None):
        if not isinstance(fail, MFailure):
            fail = MFailure(fail if fail is not None else MExc(CURRENT_EXC[-1] if CURRENT_EXC else "<no active exception>"))
        self._fire(fail)

    def cancel(self):
        if not self.called:
            if self.canceller is not None:
                self.canceller(self)
            if not self.called:
                self.errback(MFailure(MExc("CancelledError")))
        elif isinstance(self.result, MDeferred):
            self.result.cancel()

    def _fire(self, result):
        self.fired.append(result)
        if self.called:
            raise ModelRaised("AlreadyCalledError", "Deferred fired twice")
        self.called = True
        self.result = result
        self._run()

    def _run(self):
        if self._running:
            return
        self._running = True
        try:
            while self.callbacks and not isinstance(self.result, MDeferred):
                (cb, ca, ck), (eb, ea, ek) = self.callbacks.pop(0)
                f, a, k = (eb, ea, ek) if isinstance(self.result, MFailure) else (cb, ca, ck)
                if f is None:
                    continue
                try:
                    self.result = f(self.result, *a, **k)
                except ModelRaised as ex:
                    self.result = MFailure(ex.value if isinstance(getattr(ex, "value", None), MExc) else MExc(ex.name))
            if isinstance(self.result, MDeferred):
                inner = self.result
                self.result = None
                self.called = False

                def resume(r, self=self):
                    self.called = True
                    self.result = r
                    self._run()
                    return None
                inner.addBoth(resume)
        finally:
            self._running = False


class Closure:
    """a nested function of an interpreted function: called with a copy of the defining environment (late binding), ``nonlocal`` names written back"""
    _sa_model = True

    def __init__(self, fn, env, mp, fs, nested_call, on_yield=None):
        self.fn, self.env, self.mp, self.fs, self.nested_call, self.on_yield = fn, env, mp, fs, nested_call, on_yield
        self.name = fn.name

    def __call__(self, *args, **kwargs):
        a = self.fn.args
        params = [x.arg for x in list(a.posonlyargs) + list(a.args)]
        defaults = dict(zip(params[len(params) - len(a.defaults):], a.defaults))
        env = dict(self.env)
        for i, pname in enumerate(params):
            if i < len(args):
                env[pname] = args[i]
            elif pname in kwargs:
                env[pname] = kwargs[pname]
            elif pname in defaults:
                env[pname] = subst_eval(defaults[pname], self.mp, self.env, self.fs)
            else:
                raise ModelRaised("TypeError", f"{self.name}: missing {pname}")
        if a.vararg is not None:
            env[a.vararg.arg] = tuple(args[len(params):])
        if a.kwarg is not None:
            env[a.kwarg.arg] = {k_: v_ for k_, v_ in kwargs.items() if k_ not in params}
        nl = {n for st in ast.walk(self.fn) if isinstance(st, ast.Nonlocal) for n in st.names}
        kind, val = interpret(self.fn, env, funcs=self.fs, nested_call=self.nested_call, state=self.mp, _env_out=(self.env, nl), on_yield=self.on_yield)
        if kind == "raise":
            raise ModelRaised(val.split(".")[-1], "raised in " + self.name, LAST_RAISED[0])
        return val

    def __repr__(self):
        return f"<closure {self.name}>"


class RepoObject:
    """instance of a repository class: attributes live in ``_state``; methods are the class's own functions, interpreted"""
    _sa_model = True

    def __init__(self, world, cls):
        object.__setattr__(self, "_sa_world", world)
        object.__setattr__(self, "_sa_cls", cls)
        object.__setattr__(self, "_sa_state", {})

    def __getattr__(self, name):
        if name.startswith("__"):
            raise AttributeError(name)
        st = object.__getattribute__(self, "_sa_state")
        if name in st:
            return st[name]
        w, cls = object.__getattribute__(self, "_sa_world"), object.__getattribute__(self, "_sa_cls")
        hit = w.lookup(cls, name)
        if hit is None:
            raise AttributeError(name)
        kind, val = hit
        if kind == "method":
            return lambda *a, **k: w.call(val, a, k, selfobj=self)
        if kind == "python":
            return lambda *a, **k: val(self, *a, **k)
        if isinstance(val, Closure):
            return lambda *a, **k: val(self, *a, **k)        # a function object stored in the class body is a method
        return val

    def __setattr__(self, name, value):
        object.__getattribute__(self, "_sa_state")[name] = value

    def __repr__(self):
        return f"<{object.__getattribute__(self, '_sa_cls').name} model>"


class RepoClass:
    """a repository class as a value: calling it instantiates, attribute access gives classmethods / staticmethods / class-level values"""
    _sa_model = True

    def __init__(self, world, cls):
        self._world, self._cls = world, cls
        self.name = cls.name
        self.__name__ = cls.name

    def __call__(self, *a, **k):
        return self._world.new(self._cls, *a, **k)

    def __getattr__(self, name):
        if name.startswith("__") and name != "__init__":
            raise AttributeError(name)
        hit = self._world.lookup(self._cls, name)
        if hit is None:
            raise AttributeError(name)
        kind, val = hit
        if kind == "method":
            deco = [src(d) for d in val.decorator_list]
            if "classmethod" in deco:
                return lambda *a, **k: self._world.call(val, a, k, selfobj=self)
            if "staticmethod" in deco:
                return lambda *a, **k: self._world.call(val, a, k, selfobj=None)
            return lambda obj, *a, **k: self._world.call(val, a, k, selfobj=obj)        # unbound: Base.method(self, ...)
        if kind == "python":
            return val
        return val

    def __repr__(self):
        return f"<class {self.name}>"


class _FuncTable(dict):
    def __init__(self, base, resolve):
        dict.__init__(self, base)
        self.resolve = resolve
        self._misses = set()

    def __contains__(self, k):
        if dict.__contains__(self, k):
            return True
        if k in self._misses:
            return False
        v = self.resolve(k) if self.resolve else None
        if v is None:
            self._misses.add(k)
        if v is not None:
            dict.__setitem__(self, k, v)
            return True
        return False

    def __missing__(self, k):
        v = self.resolve(k) if self.resolve else None
        if v is None:
            raise KeyError(k)
        return v


_FN_OWNER: Dict[int, tuple] = {}     # id(function node) -> (node, World that owns its module)


def _is_stub(fn) -> bool:
    return all(isinstance(st, ast.Pass) or (isinstance(st, ast.Expr) and isinstance(st.value, ast.Constant)) for st in fn.body)


def _is_generator_fn(fn) -> bool:
    hit = _GENFN.get(id(fn))
    if hit is None or hit[0] is not fn:
        hit = (fn, any(isinstance(x, (ast.Yield, ast.YieldFrom)) for x in walk_local(fn) if x is not fn) if isinstance(fn, (ast.FunctionDef, ast.AsyncFunctionDef)) else False)
        _GENFN[id(fn)] = hit
    return hit[1]


_GENFN: Dict[int, tuple] = {}


class GenThunk:
    """the result of calling a repository generator function: its body runs when a trampoline consumes it; every yielded value is handed to the trampoline's hook first"""
    _sa_model = True

    def __init__(self, runner, name="?"):
        self.runner, self.name, self.done = runner, name, False

    def run(self, hook):
        if self.done:
            raise ModelRaised("RuntimeError", "generator already consumed")
        self.done = True
        return self.runner(hook)

    def items(self, hook):
        out = []
        self.run(out.append)
        return out

    def __iter__(self):
        """consumed by list()/tuple()/join()/a comprehension/`yield from`: the body runs to its end first (for such consumers that is what CPython does too, item by item)"""
        return iter(self.items(None))

    def __repr__(self):
        return f"<generator {self.name}>"


class _FnRef:
    """a function of a class body used as a value in that body (e.g. the template argument of makeStatefulDispatcher)"""
    _sa_model = True
    _sa_settable = True

    def __init__(self, fn):
        self.fn = fn
        self.__doc__ = ast.get_docstring(fn)


class World:
    """one analysed module (plus checker-supplied models of its collaborators)"""

    def __init__(self, mod, externals=None, env=None, exception_names=()):
        from sa.astx import module_consts
        from sa.source import methods as _methods, class_assigns as _cassigns, base_names as _bases
        self.mod = mod
        _mc, _cc, _bc = {}, {}, {}

        def cached(table, f):
            def g(cls):
                hit = table.get(id(cls))
                if hit is None or hit[0] is not cls:
                    hit = (cls, f(cls))
                    table[id(cls)] = hit
                return hit[1]
            return g
        self._methods, self._cassigns, self._bases = cached(_mc, _methods), cached(_cc, _cassigns), cached(_bc, _bases)
        self._lookup_cache = {}
        self._class_values = {}
        self._resolved = {}
        self.externals = dict(externals or {})
        self.env = dict(module_consts(mod))
        self.env.update(module_patterns(mod))
        self.env.update(env or {})
        self.exception_names = set(exception_names)
        self.funcs = _FuncTable(self.externals, self.resolve)
        self.linked = []            # other Worlds whose classes may be base classes of ours (e.g. static.File(filepath.FilePath))
        self.overrides = {}         # method name -> python callable(obj, *args): replaces a repository method that needs the operating system
        self._owner = {}            # id(function node) -> World that owns it

    def link(self, other):
        self.linked.append(other)
        return self

    def override(self, name, func):
        self.overrides[name] = func
        return self

    def find_class(self, name):
        node = self.mod.find(name)
        if isinstance(node, ast.ClassDef):
            return node, self
        for o in self.linked:
            node = o.mod.find(name)
            if isinstance(node, ast.ClassDef):
                return node, o
        return None, None

    # ---- name resolution
    def _is_exception(self, cls, seen=()):
        for b in self._bases(cls):
            if b.endswith("Exception") or b.endswith("Error") or b in self.exception_names:
                return True
            bc = self.mod.find(b)
            if isinstance(bc, ast.ClassDef) and b not in seen and self._is_exception(bc, seen + (b,)):
                return True
        return False

    def resolve(self, name):
        if not isinstance(name, str) or "." in name:
            return None
        if name not in self._resolved:
            self._resolved[name] = self._resolve(name)
        return self._resolved[name]

    def _resolve(self, name):
        for wld in [self] + self.linked:
            node = wld.mod.find(name)
            if isinstance(node, (ast.FunctionDef, ast.AsyncFunctionDef)):
                return (lambda node, wld: lambda *a, **k: wld.call(node, a, k))(node, wld)
            if isinstance(node, ast.ClassDef):
                if wld._is_exception(node):
                    return (lambda name: lambda *a, **k: MExc(name, a))(name)
                return RepoClass(wld, node)
        return None

    def lookup(self, cls, name, _seen=None):
        if _seen is None:
            key = (id(cls), name, len(self.overrides))
            hit = self._lookup_cache.get(key)
            if hit is not None and hit[0] is cls:
                return hit[1]
            r = self._lookup(cls, name, set())
            if r is None or r[0] in ("method", "python"):
                self._lookup_cache[key] = (cls, r)
            return r
        return self._lookup(cls, name, _seen)

    def _lookup(self, cls, name, _seen):
        if cls.name in _seen:
            return None
        _seen.add(cls.name)
        if name in self.overrides:
            f = self.overrides[name]
            return ("python", f)
        ms = self._methods(cls)
        ca1 = self._cassigns(cls)
        if name in ms and _is_stub(ms[name]) and not (name in ca1 and getattr(ca1[name], "lineno", 0) > getattr(ms[name], "lineno", 0)):
            # a typing stub (``if TYPE_CHECKING: def descendant(...): ...``): the real definition is inherited
            for b in self._bases(cls):
                bc, owner = self.find_class(b)
                if bc is not None:
                    r = owner.lookup(bc, name, set(_seen))
                    if r:
                        return r
        ca0 = self._cassigns(cls)
        rebound = name in ms and name in ca0 and getattr(ca0[name], "lineno", 0) > getattr(ms[name], "lineno", 0)      # `f = wrap(f)` after `def f`: the later binding wins
        if name in ms and not rebound:
            _FN_OWNER[id(ms[name])] = (ms[name], self)
            deco = [src(d) for d in ms[name].decorator_list]
            if "property" in deco:
                return ("value", None)
            return ("method", ms[name])
        ca = self._cassigns(cls)
        if name in ca:
            v = ca[name]
            if isinstance(v, ast.Name) and v.id in ms:
                return ("method", ms[v.id])
            try:
                return ("value", const_eval(v, self.env))
            except NotConst:
                key = (id(cls), name)
                if key not in self._class_values:
                    env2 = dict(self.env)
                    for mname, mfn in ms.items():
                        env2.setdefault(mname, _FnRef(mfn))
                    try:
                        self._class_values[key] = subst_eval(v, {}, env2, self.funcs)
                    except NotConst:
                        self._class_values[key] = None
                return ("value", self._class_values[key])
        for b in self._bases(cls):
            bc, owner = self.find_class(b)
            if bc is not None:
                r = owner.lookup(bc, name, _seen)
                if r:
                    return r
        return None

    # ---- execution
    def new(self, cls, *args, **kwargs):
        if isinstance(cls, str):
            cls = self.mod.find(cls)
        obj = RepoObject(self, cls)
        init = self.lookup(cls, "__init__")
        if init and init[0] == "method":
            self.call(init[1], args, kwargs, selfobj=obj)
        return obj

    def bare(self, cls, **state):
        """an instance without running __init__ (its collaborators cannot be built here): the checker sets the attributes the analysed methods read"""
        if isinstance(cls, str):
            cls = self.mod.find(cls)
        obj = RepoObject(self, cls)
        for k, v in state.items():
            setattr(obj, k, v)
        return obj

    def call(self, fn, args, kwargs=None, selfobj=None):
        hit = _FN_OWNER.get(id(fn))
        owner = hit[1] if hit is not None and hit[0] is fn else self
        if owner is not self and owner.mod is self.mod:
            owner = self                     # another World over the same module (e.g. different parameters): the function is ours too
        if owner is not self and owner not in self.linked:
            owner = next((o for o in self.linked if o.mod is owner.mod), owner)
        if owner is not self:
            return owner.call(fn, args, kwargs, selfobj)
        if _is_generator_fn(fn):
            return GenThunk(lambda hook: call_repo(fn, args, kwargs, selfobj=selfobj, funcs=self.funcs, env=self.env, nested_call=None, on_yield=hook), getattr(fn, "name", "?"))
        deco = [src(d) for d in getattr(fn, "decorator_list", [])]
        if selfobj is not None and "staticmethod" in deco:
            selfobj = None
            return call_repo(fn, args, kwargs, selfobj=None, funcs=self.funcs, env=self.env, nested_call=None, bind_self=False)
        return call_repo(fn, args, kwargs, selfobj=selfobj, funcs=self.funcs, env=self.env, nested_call=None)

    def method(self, obj, name):
        return getattr(obj, name)


class Swallow:
    """context manager model: swallows (and records) an exception raised in its block, like Logger.failureHandler / failuresHandled"""
    _sa_model = True
    _sa_swallow = True

    def __init__(self, *a, **k):
        self.failed = False


class NullLogger:
    _sa_model = True

    def __getattr__(self, name):
        if name.startswith("__"):
            raise AttributeError(name)
        if name in ("failureHandler", "failuresHandled"):
            return lambda *a, **k: Swallow()
        return lambda *a, **k: None


def swallowing_env(mod):
    """{name: Swallow()} for module-level ``X = <logger>.failureHandler(...)`` assignments"""
    out = {}
    for st in mod.tree.body:
        if isinstance(st, ast.Assign) and isinstance(st.value, ast.Call) and call_attr(st.value) in ("failureHandler", "failuresHandled"):
            for t in st.targets:
                if isinstance(t, ast.Name):
                    out[t.id] = Swallow()
    return out


# ==================================================================================================================
# Structural layer helpers: normalised views (sa/props/_lib_c.norm_class) and abstention
# ==================================================================================================================
class Abstain(Exception):
    """a structural rule could not positively recognise the construct it judges"""


def structural(ctx, rule: str, covered_by: str, fn, *args):
    """Run a structural rule group; when it abstains the clause is left to the named bounded / other rule (a note, never a verdict)."""
    try:
        fn(*args)
    except Abstain as a:
        ctx.note(f"{rule}: shape not recognised ({a}); clause left to {covered_by}")


def norm_method(ctx, rel: str, clsname: str, name: str, keep=()):
    """the method on the normalised view of its class: private single-use helpers inlined at their call sites, pure single-assignment temporaries
    substituted, guard clauses turned into if/else (sa/props/_lib_c.norm_class)"""
    from sa.props._lib_c import norm_class, _class_functions
    ctx.func(rel, f"{clsname}.{name}")
    orig = ctx.cls(rel, clsname)
    cls = norm_class(ctx, rel, clsname, keep=set(keep) | {name})
    if cls is not orig:
        inline_predicates(cls, orig, keep=set(keep) | {name})          # pure predicate / selector helpers in expression position (guards)
    fs = [f for _, f in _class_functions(cls) if f.name == name]
    if not fs:
        raise Abstain(f"{clsname}.{name} vanished during normalisation")
    return fs[0]


def subst_local_temps(ctx, fn):
    """In place on a CLONED function: local names that merely name a value are replaced by that value at their uses, so rules can judge what is computed rather than how it is
    called.  A name qualifies when it has exactly one plain assignment in the function (no other binding of any kind) and
      (a) its value is an attribute chain rooted at ``self`` / a parameter (``response = self.response``; ``code = response.code`` after (a) was applied to ``response``) and no
          path from the assignment to a use stores / deletes that very chain, or
      (b) its value is any other expression without side-channel constructs and the name is read exactly once (``failure = Failure(X(...))`` followed by ``d.errback(failure)``).
    The assignment statement itself stays (harmless for the rules).  Returns the number of substitutions."""
    from sa.props._lib_c import clone, set_parents
    total = 0
    while hasattr(ctx, "_ctx"):          # proxies: the CFG cache lives in the real context
        ctx = ctx._ctx
    for _round in range(60):
        binds = {}
        for n in walk_local(fn):
            tg = []
            if isinstance(n, ast.Assign):
                tg = [(t, n) for t in n.targets]
            elif isinstance(n, (ast.AugAssign, ast.AnnAssign)):
                tg = [(n.target, None)]
            elif isinstance(n, (ast.For, ast.AsyncFor)):
                tg = [(n.target, None)]
            elif isinstance(n, (ast.With, ast.AsyncWith)):
                tg = [(i.optional_vars, None) for i in n.items if i.optional_vars is not None]
            elif isinstance(n, ast.ExceptHandler) and n.name:
                binds.setdefault(n.name, []).append(None)
            elif isinstance(n, (ast.Import, ast.ImportFrom)):
                for a_ in n.names:
                    binds.setdefault((a_.asname or a_.name).split(".")[0], []).append(None)
            elif isinstance(n, ast.NamedExpr):
                tg = [(n.target, None)]
            elif isinstance(n, (ast.Global, ast.Nonlocal)):
                for nm in n.names:
                    binds.setdefault(nm, []).append(None)
            elif isinstance(n, ast.Delete):
                tg = [(t, None) for t in n.targets]
            for t, st in tg:
                if isinstance(t, ast.Name):
                    binds.setdefault(t.id, []).append(st if (st is not None and len(st.targets) == 1) else None)
                else:
                    for x in ast.walk(t):
                        if isinstance(x, ast.Name) and isinstance(x.ctx, (ast.Store, ast.Del)):
                            binds.setdefault(x.id, []).append(None)
        # names bound in nested functions / comprehensions are other variables unless declared nonlocal there: be conservative and skip names they bind
        nested_binds = set()
        for n in ast.walk(fn):
            if n is not fn and isinstance(n, (ast.FunctionDef, ast.AsyncFunctionDef, ast.Lambda)):
                a = n.args
                nested_binds |= {x.arg for x in a.args + a.kwonlyargs + getattr(a, "posonlyargs", [])}
                for x in ast.walk(n):
                    if isinstance(x, ast.Name) and isinstance(x.ctx, ast.Store):
                        nested_binds.add(x.id)
        fa = fn.args
        params = {x.arg for x in fa.args + fa.kwonlyargs + getattr(fa, "posonlyargs", [])} | ({fa.vararg.arg} if fa.vararg else set()) | ({fa.kwarg.arg} if fa.kwarg else set())

        def chain_root(e):
            while isinstance(e, ast.Attribute):
                e = e.value
            return e.id if isinstance(e, ast.Name) else None
        cands = []
        for name, sts in binds.items():
            if len(sts) != 1 or sts[0] is None or name in params or name in nested_binds:
                continue
            st = sts[0]
            v = st.value
            if any(isinstance(x, (ast.Yield, ast.YieldFrom, ast.Await, ast.NamedExpr, ast.Lambda, ast.Starred)) for x in ast.walk(v)):
                continue
            loads = [x for x in ast.walk(fn) if isinstance(x, ast.Name) and x.id == name and isinstance(x.ctx, ast.Load)]
            if not loads:
                continue
            if isinstance(v, ast.Attribute) and chain_root(v) is not None and (chain_root(v) == "self" or chain_root(v) in params):
                cands.append((name, st, v, loads, "chain"))
            elif not isinstance(v, (ast.Name, ast.Constant)) and len(loads) == 1 and not any(isinstance(x, ast.Name) and x.id == name for x in ast.walk(v)):
                cands.append((name, st, v, loads, "single"))
        if not cands:
            break
        g = ctx.cfg(fn)
        done = 0
        for name, st, v, loads, kind in cands:
            sid = g.ids_of(st)
            if not sid:
                continue
            ok = True
            if kind == "chain":
                text = src(v)
                killers = g.ids(lambda x: x.kind == "stmt" and x.ast is not st and any(
                    isinstance(y, ast.Attribute) and isinstance(y.ctx, (ast.Store, ast.Del)) and (src(y) == text or text.startswith(src(y) + ".")) for y in ast.walk(x.ast)))
                for ld in loads:
                    uid = g.ids_of(ld)
                    if not uid or (killers and any(g.path(sid, [k], strict=True) is not None and g.path([k], uid, strict=True) is not None for k in killers)):
                        ok = False
                        break
            else:
                uid = g.ids_of(loads[0])
                # the single use must follow the assignment on every path to it, and nothing in between may be reordered past: require the use in the very next statement(s) of the same block
                ok = bool(uid) and all(g.must_precede(sid, [u], exc=False) is None for u in uid)
            if not ok:
                continue

            class R(ast.NodeTransformer):
                def visit_Name(self, nm):
                    if nm.id == name and isinstance(nm.ctx, ast.Load):
                        return ast.copy_location(clone(v), nm)
                    return nm

                def visit_Assign(self, a):
                    if a is st:
                        return a
                    return self.generic_visit(a)
            R().visit(fn)
            done += 1
            break          # bindings / CFG changed: recompute
        if not done:
            break
        total += done
        ast.fix_missing_locations(fn)
        set_parents(fn, getattr(fn, "_parent", None))
        try:
            ctx._cfgs = {k: c for k, c in ctx._cfgs.items() if k[0] != id(fn)}
        except AttributeError:
            pass
        if total > 40:
            break
    return total


_TEMP_VIEWS: Dict[int, tuple] = {}


def temp_view(ctx, fn):
    """a clone of ``fn`` with its naming temporaries substituted (cached per function object)"""
    from sa.props._lib_c import clone, set_parents
    hit = _TEMP_VIEWS.get(id(fn))
    if hit is not None and hit[0] is fn:
        return hit[1]
    c = clone(fn)
    set_parents(c, getattr(fn, "_parent", None))
    ast.fix_missing_locations(c)
    subst_local_temps(ctx, c)
    _TEMP_VIEWS[id(fn)] = (fn, c)
    return c


def parent_map(root):
    """{id(child): parent} over the whole subtree"""
    out = {}
    for p_ in ast.walk(root):
        for c_ in ast.iter_child_nodes(p_):
            out[id(c_)] = p_
    return out


def expr_guards(parents, node):
    """Expression-level guards under which ``node`` is evaluated: [(test expression, "T"/"F")] from enclosing conditional expressions (`a if t else b`) and short-circuit
    operators (`t and x`, `t or x`), innermost first.  Stops at the enclosing statement."""
    out = []
    cur = node
    while id(cur) in parents:
        par = parents[id(cur)]
        if isinstance(par, ast.stmt):
            break
        if isinstance(par, ast.IfExp):
            if cur is par.body:
                out.append((par.test, "T"))
            elif cur is par.orelse:
                out.append((par.test, "F"))
        elif isinstance(par, ast.BoolOp):
            i = next((k for k, v in enumerate(par.values) if v is cur), 0)
            for v in par.values[:i]:
                out.append((v, "T" if isinstance(par.op, ast.And) else "F"))
        cur = par
    return out


def flag_feasible_path(g, start, goal, must_take=None, avoid=(), exc=False, limit=20000, edge_ok=None):
    """Is there a path start -> goal that is FEASIBLE with respect to local None-flags?  Local names assigned the constant None, a constructor / literal (not None) are tracked
    along the path; tests `x is None` / `x is not None` / `x` / `not x` on a tracked name prune the infeasible edge (a flag set under one test and read under a later one, the
    shape `err = None; if A: err = E(...); ...; if err is not None: raise`).  ``must_take`` = (test node, label): the path has to use that edge; ``avoid``: nodes it may not touch.
    Everything else is over-approximated (unknown values take both edges)."""
    def notnone(v):
        if isinstance(v, ast.Constant):
            return v.value is not None
        if isinstance(v, (ast.List, ast.Tuple, ast.Dict, ast.Set, ast.JoinedStr, ast.Lambda, ast.ListComp, ast.DictComp, ast.SetComp, ast.BinOp)):
            return True
        if isinstance(v, ast.Call):
            nm = (call_name(v) or "").split(".")[-1]
            return bool(nm) and (nm[:1].isupper() or nm in ("list", "dict", "set", "tuple", "bytes", "str", "int", "object", "frozenset", "bytearray"))
        return None

    def step_state(st, node):
        a = node.ast
        if node.kind != "stmt" or a is None:
            return st
        tgts = []
        if isinstance(a, ast.Assign):
            tgts, val = a.targets, a.value
        elif isinstance(a, ast.AnnAssign) and a.value is not None:
            tgts, val = [a.target], a.value
        elif isinstance(a, (ast.AugAssign, ast.For, ast.With, ast.Delete, ast.Import, ast.ImportFrom)):
            killed = {x.id for x in ast.walk(a) if isinstance(x, ast.Name) and isinstance(x.ctx, (ast.Store, ast.Del))}
            return {k: v for k, v in st.items() if k not in killed} if killed & set(st) else st
        else:
            return st
        st = dict(st)
        for t in tgts:
            if isinstance(t, ast.Name):
                if isinstance(val, ast.Constant) and val.value is None:
                    st[t.id] = "none"
                elif notnone(val):
                    st[t.id] = "some"
                else:
                    st.pop(t.id, None)
            else:
                for x in ast.walk(t):
                    if isinstance(x, ast.Name) and isinstance(x.ctx, ast.Store):
                        st.pop(x.id, None)
        return st

    def verdict(test, st):
        """True / False when the tracked flags decide the test, else None"""
        e, neg = test, False
        while isinstance(e, ast.UnaryOp) and isinstance(e.op, ast.Not):
            e, neg = e.operand, not neg
        r = None
        if isinstance(e, ast.Name) and e.id in st:
            r = False if st[e.id] == "none" else None        # a not-None object may still be falsy
        elif isinstance(e, ast.Compare) and len(e.ops) == 1 and isinstance(e.left, ast.Name) and e.left.id in st and isinstance(e.comparators[0], ast.Constant) and e.comparators[0].value is None:
            if isinstance(e.ops[0], (ast.Is, ast.Eq)):
                r = st[e.left.id] == "none"
            elif isinstance(e.ops[0], (ast.IsNot, ast.NotEq)):
                r = st[e.left.id] != "none"
        return None if r is None else (r != neg)
    avoid = set(avoid)
    goals = set(goal)
    seen = set()
    todo = [(n, (), must_take is None) for n in start]
    steps = 0
    while todo:
        n, stt, taken = todo.pop()
        key = (n, stt, taken)
        if key in seen or n in avoid:
            continue
        seen.add(key)
        steps += 1
        if steps > limit:
            return True          # give up: assume feasible (over-approximation)
        if n in goals and taken:
            return True
        node = g.node(n)
        st = step_state(dict(stt), node)
        v = verdict(node.ast, st) if node.kind == "test" and node.ast is not None else None
        for b, lab in g.succ.get(n, []):
            if lab == "exc" and not exc:
                continue
            if edge_ok is not None and not edge_ok(n, b, lab):
                continue
            if v is not None and lab in ("T", "F") and (lab == "T") != v:
                continue
            tk = taken or (must_take is not None and n == must_take[0] and lab == must_take[1])
            if must_take is not None and n == must_take[0] and lab in ("T", "F") and lab != must_take[1] and not taken:
                todo.append((b, tuple(sorted(st.items())), False))
                continue
            todo.append((b, tuple(sorted(st.items())), tk))
    return False


def inline_predicates(normcls, origcls, keep=()):
    """In place, on a normalised class: a call ``self._helper(args)`` in EXPRESSION position whose (private, not kept) helper is a pure predicate / selector - its body is only
    ``return <expr>`` possibly behind ``if <test>: return <expr>`` clauses - is replaced by that expression (a chain of conditional expressions) with the arguments substituted
    for the parameters (norm_class inlines helpers at statement level only).  Idempotent."""
    from sa.props._lib_c import clone, set_parents
    if getattr(normcls, "_sa_pred_inlined", False):
        return normcls

    def to_expr(stmts):
        if not stmts:
            return None
        st = stmts[0]
        if isinstance(st, ast.Return):
            return st.value if st.value is not None else ast.Constant(value=None)
        if isinstance(st, ast.If) and len(st.body) == 1 and isinstance(st.body[0], ast.Return):
            rest = to_expr(st.orelse) if st.orelse else to_expr(stmts[1:])
            if st.orelse and stmts[1:]:
                return None
            if rest is None:
                return None
            return ast.IfExp(test=st.test, body=st.body[0].value if st.body[0].value is not None else ast.Constant(value=None), orelse=rest)
        return None
    preds = {}
    for n in origcls.body:
        if isinstance(n, ast.FunctionDef) and n.name.startswith("_") and not n.name.startswith("__") and n.name not in keep and not n.decorator_list:
            a = n.args
            if not a.args or a.args[0].arg != "self" or a.vararg or a.kwarg or a.kwonlyargs or getattr(a, "posonlyargs", []):
                continue
            body = [st for st in n.body if not (isinstance(st, ast.Expr) and isinstance(st.value, ast.Constant) and isinstance(st.value.value, str))]
            e = to_expr(body)
            if e is None or any(isinstance(x, (ast.Yield, ast.YieldFrom, ast.Await, ast.Lambda, ast.NamedExpr)) for x in ast.walk(e)):
                continue
            if any(isinstance(x, ast.Call) and isinstance(x.func, ast.Attribute) and src(x.func.value) == "self" and x.func.attr == n.name for x in ast.walk(e)):
                continue          # recursive
            params = [x.arg for x in a.args[1:]]
            defaults = dict(zip(params[len(params) - len(a.defaults):], a.defaults)) if a.defaults else {}
            preds[n.name] = (params, defaults, e)

    class _Sub(ast.NodeTransformer):
        def __init__(self, m):
            self.m = m

        def visit_Name(self, nm):
            if isinstance(nm.ctx, ast.Load) and nm.id in self.m:
                return clone(self.m[nm.id])
            return nm

    class T(ast.NodeTransformer):
        changed = False

        def visit_Call(self, c):
            self.generic_visit(c)
            if isinstance(c.func, ast.Attribute) and isinstance(c.func.value, ast.Name) and c.func.value.id == "self" and c.func.attr in preds:
                params, defaults, e = preds[c.func.attr]
                if any(isinstance(x, ast.Starred) for x in c.args) or any(k.arg is None for k in c.keywords) or len(c.args) > len(params):
                    return c
                m = dict(defaults)
                m.update(dict(zip(params, c.args)))
                m.update({k.arg: k.value for k in c.keywords if k.arg in params})
                if set(m) != set(params) or any(k.arg not in params for k in c.keywords):
                    return c
                T.changed = True
                return ast.copy_location(_Sub(m).visit(clone(e)), c)
            return c
    if preds:
        for _ in range(4):
            T.changed = False
            T().visit(normcls)
            if not T.changed:
                break
        ast.fix_missing_locations(normcls)
        set_parents(normcls, getattr(normcls, "_parent", None))
    normcls._sa_pred_inlined = True
    return normcls


_NORM_FUNCS: Dict[tuple, ast.AST] = {}


def norm_function(ctx, rel: str, qual: str):
    """a module-level (or nested) function with its pure single-assignment temporaries substituted"""
    from sa.props._lib_c import clone, _subst_temps, set_parents
    f0 = ctx.func(rel, qual)
    key = (id(f0), rel, qual)
    if key not in _NORM_FUNCS:
        f = clone(f0)
        set_parents(f)
        for _ in range(20):
            if not _subst_temps(f):
                break
        ast.fix_missing_locations(f)
        _NORM_FUNCS[key] = f
    return _NORM_FUNCS[key]


def param_uses(func, name: str) -> List[ast.AST]:
    """the smallest enclosing expressions (calls / compares / f-strings) in which parameter ``name`` is read"""
    out = []
    parents = {}
    for p_ in ast.walk(func):
        for c_ in ast.iter_child_nodes(p_):
            parents[id(c_)] = p_
    for n in ast.walk(func):
        if isinstance(n, ast.Name) and n.id == name and isinstance(n.ctx, ast.Load):
            cur = n
            while id(cur) in parents and not isinstance(parents[id(cur)], (ast.Call, ast.Compare, ast.JoinedStr, ast.stmt)):
                cur = parents[id(cur)]
            out.append(parents.get(id(cur), cur) if isinstance(parents.get(id(cur)), (ast.Call, ast.Compare, ast.JoinedStr)) else cur)
    return out
