"""Helpers shared by the C23..C29 checkers (batch F).  Pure AST/CFG utilities, stdlib only."""
from __future__ import annotations

import ast
from typing import Callable, Dict, Iterable, List, Optional, Sequence, Set, Tuple

from sa.astx import NotConst, call_attr, call_name, const_eval, dotted, src, walk_local
from sa.source import AnalysisError


def is_self_attr(node, name=None, recv="self"):
    return (isinstance(node, ast.Attribute) and isinstance(node.value, ast.Name) and node.value.id == recv
            and (name is None or node.attr == name))


def cmp_polarity(test: ast.AST, a: str, b: str) -> Optional[bool]:
    """``test`` is an (in)equality between expressions whose normalised texts are a and b:
    True when test-true means a == b, False when test-true means a != b, None otherwise."""
    if isinstance(test, ast.Compare) and len(test.ops) == 1:
        l, r = src(test.left), src(test.comparators[0])
        if {l, r} == {a, b} and (l != r):
            if isinstance(test.ops[0], (ast.Eq, ast.Is)):
                return True
            if isinstance(test.ops[0], (ast.NotEq, ast.IsNot)):
                return False
    return None


def guarded_eq(g, n: int, a: str, b: str, equal: bool) -> bool:
    """Every entry->n path establishes a == b (equal=True) or a != b (equal=False)."""
    for t, lab in g.edge_guards(n):
        p = cmp_polarity(g.node(t).ast, a, b)
        if p is not None and ((lab == "T") == p) == equal:
            return True
    return False


def none_guard(g, n: int, x: str, is_none: bool) -> bool:
    """Every entry->n path establishes ``x is None`` (is_none) / ``x is not None``.  A bare truthiness
    test of x taken true also establishes not-None; taken false it is accepted as the None case."""
    for t, lab in g.edge_guards(n):
        e = g.node(t).ast
        p = cmp_polarity(e, x, "None")
        if p is not None and ((lab == "T") == p) == is_none:
            return True
        if src(e) == x and (lab == "T") == (not is_none):
            return True
    return False


def truth_guard(g, n: int, x: str, truthy: bool) -> bool:
    """Every entry->n path passes a bare test of expression x with the given outcome."""
    for t, lab in g.edge_guards(n):
        if src(g.node(t).ast) == x and (lab == "T") == truthy:
            return True
    return False


def guards_src(g, n: int) -> List[Tuple[str, bool]]:
    return [(src(g.node(t).ast), lab == "T") for t, lab in g.edge_guards(n)]


def call_sites(g, pred: Callable[[ast.Call], bool]) -> List[Tuple[int, ast.Call]]:
    """(cfg node id, call) for every call in the function's own statements satisfying pred."""
    out = []
    for n in g.nodes:
        if n.kind not in ("stmt", "test", "for", "with") or n.ast is None or not g.reachable(n.id):
            continue
        if n.kind == "for":
            roots = [n.ast.iter]
        elif n.kind == "with":
            roots = [it.context_expr for it in n.ast.items]
        elif isinstance(n.ast, (ast.FunctionDef, ast.AsyncFunctionDef, ast.ClassDef)):
            roots = list(n.ast.decorator_list)  # a nested def is a different function: its body is not executed here
        else:
            roots = [n.ast]
        for r in roots:
            for x in walk_local(r):
                if isinstance(x, ast.Call) and pred(x):
                    out.append((n.id, x))
    return out


def from_here(g, srcs, via, exc: bool = False, to=None):
    """Every path that starts AT one of ``srcs`` (inclusive) and runs to an exit passes a ``via`` node.
    Returns a witness path or None.  (must_pass(strict=False) does not treat a source that is itself a
    via node as satisfied; this does.)"""
    via = set(via)
    rest = [s for s in srcs if s not in via]
    if not rest:
        return None
    return g.must_pass(rest, via, to=to, exc=exc, strict=False)


def named_calls(g, *names: str) -> List[Tuple[int, ast.Call]]:
    """Calls whose dotted callee equals a name, or whose last component equals ".name"."""
    def pred(c):
        d, a = call_name(c), call_attr(c)
        return any((nm.startswith(".") and a == nm[1:]) or d == nm for nm in names)
    return call_sites(g, pred)


def assign_sites(g, target_pred: Callable[[ast.AST], bool]) -> List[Tuple[int, ast.stmt]]:
    out = []
    for n in g.nodes:
        if n.kind != "stmt" or not g.reachable(n.id):
            continue
        st = n.ast
        tgts = []
        if isinstance(st, ast.Assign):
            for t in st.targets:
                tgts.extend(t.elts if isinstance(t, (ast.Tuple, ast.List)) else [t])
        elif isinstance(st, (ast.AugAssign, ast.AnnAssign)):
            tgts = [st.target]
        if any(target_pred(t) for t in tgts):
            out.append((n.id, st))
    return out


def const_str(node) -> Optional[str]:
    return node.value if isinstance(node, ast.Constant) and isinstance(node.value, str) else None


_SUBST_CACHE: Dict[tuple, tuple] = {}


def _rebuild(node, keys, names):
    """Copy of an expression (``_fields`` only, so parent links are not followed) in which every
    sub-expression whose normalised text is in ``keys`` is replaced by a fresh Name."""
    if isinstance(node, ast.expr):
        s = src(node)
        if s in keys:
            nm = names.setdefault(s, "__v%d" % len(names))
            return ast.Name(id=nm, ctx=ast.Load())
    if isinstance(node, ast.AST):
        new = node.__class__()
        for f in node._fields:
            if hasattr(node, f):
                setattr(new, f, _rebuild(getattr(node, f), keys, names))
        for a in ("lineno", "col_offset", "end_lineno", "end_col_offset"):
            if hasattr(node, a):
                setattr(new, a, getattr(node, a))
        return new
    if isinstance(node, list):
        return [_rebuild(x, keys, names) for x in node]
    return node


class ModelRaised(NotConst):
    """Evaluating a modelled pure call raised a Python exception (the repository expression would raise it too)."""

    def __init__(self, name, text=""):
        NotConst.__init__(self, f"{name}: {text}")
        self.name = name


STR_METHODS = {"startswith", "endswith", "rstrip", "lstrip", "strip", "count", "find", "rfind", "replace", "isdigit", "splitlines",
               "rsplit", "partition", "rpartition", "index", "capitalize", "title", "isalnum", "isalpha", "translate", "removeprefix",
               "removesuffix", "isspace", "islower", "isupper", "zfill", "ljust", "rjust", "center", "hex", "tobytes", "format", "swapcase", "casefold",
               "expandtabs", "encode", "decode", "join", "lower", "upper", "split"}


import collections as _collections
import re as _re

_CONTAINERS = (list, dict, set, bytearray, _collections.deque, tuple, frozenset)
CONTAINER_METHODS = {"append", "extend", "insert", "pop", "get", "items", "keys", "values", "update", "add", "setdefault", "copy", "index", "count",
                     "popleft", "appendleft", "clear", "remove", "discard", "union", "intersection", "difference", "issubset", "issuperset"}


def _eval_any(node, env, funcs):
    try:
        return const_eval(node, env)
    except NotConst:
        return const_eval(_fold(node, env, funcs), env)


def _fstring(node, env, funcs):
    out = ""
    for v in node.values:
        if isinstance(v, ast.Constant):
            out += str(v.value)
        else:
            val = _eval_any(v.value, env, funcs)
            if v.conversion == ord("r"):
                val = repr(val)
            elif v.conversion == ord("s"):
                val = str(val)
            elif v.conversion == ord("a"):
                val = ascii(val)
            spec = _fstring(v.format_spec, env, funcs) if v.format_spec is not None else ""
            try:
                out += format(val, spec)
            except Exception as ex:
                raise ModelRaised(type(ex).__name__, str(ex))
    return out


def _bind_target(t, v, env):
    if isinstance(t, ast.Name):
        env[t.id] = v
    elif isinstance(t, (ast.Tuple, ast.List)):
        vs = list(v)
        if len(vs) != len(t.elts):
            raise ModelRaised("ValueError", "unpack")
        for a, b in zip(t.elts, vs):
            _bind_target(a, b, env)
    else:
        raise NotConst("comprehension target")


def _comprehension(node, env, funcs):
    out = []

    def rec(i, e):
        if i == len(node.generators):
            if isinstance(node, ast.DictComp):
                out.append((_eval_any(node.key, e, funcs), _eval_any(node.value, e, funcs)))
            else:
                out.append(_eval_any(node.elt, e, funcs))
            return
        gen = node.generators[i]
        for item in list(_eval_any(gen.iter, e, funcs)):
            e2 = dict(e)
            _bind_target(gen.target, item, e2)
            if all(_eval_any(c, e2, funcs) for c in gen.ifs):
                rec(i + 1, e2)

    rec(0, dict(env))
    if isinstance(node, ast.DictComp):
        return dict(out)
    if isinstance(node, ast.SetComp):
        return set(out)
    return out


_FOLDABLE: Dict[int, tuple] = {}


def _fold(node, env, funcs):
    """Copy of ``node`` in which calls of pure str/bytes methods (STR_METHODS) and of the named pure
    functions in ``funcs`` whose receiver/arguments are evaluable are replaced by their value."""
    if isinstance(node, list):
        return [_fold(x, env, funcs) for x in node]
    if not isinstance(node, ast.AST):
        return node
    hit = _FOLDABLE.get(id(node))
    if hit is None or hit[0] is not node:
        hit = (node, any(isinstance(x, (ast.Call, ast.Attribute, ast.JoinedStr, ast.ListComp, ast.SetComp, ast.GeneratorExp, ast.DictComp)) for x in ast.walk(node)))
        _FOLDABLE[id(node)] = hit
    if not hit[1]:
        return node          # nothing to fold below: share the (never mutated) node
    if isinstance(node, ast.JoinedStr):
        try:
            return ast.Constant(value=_fstring(node, env, funcs))
        except NotConst:
            pass
    if isinstance(node, ast.Attribute) and isinstance(node.value, ast.Name) and env.get(node.value.id) in (str, bytes) and node.attr in STR_METHODS | {"join", "encode", "decode", "lower", "upper", "split"}:
        return ast.Constant(value=getattr(env[node.value.id], node.attr))      # unbound pure method, e.g. map(bytes.strip, ...)
    if isinstance(node, (ast.ListComp, ast.SetComp, ast.GeneratorExp, ast.DictComp)):
        try:
            return ast.Constant(value=_comprehension(node, env, funcs))
        except NotConst:
            pass
    new = node.__class__()
    for f in node._fields:
        if hasattr(node, f):
            setattr(new, f, _fold(getattr(node, f), env, funcs))
    if isinstance(new, ast.Attribute) and isinstance(getattr(new, "ctx", None), ast.Load) and not new.attr.startswith("__") and new.attr != "_sa_model":
        try:
            recv = const_eval(new.value, env)
        except NotConst:
            recv = None
        if getattr(recv, "_sa_model", False) and hasattr(recv, new.attr) and not callable(getattr(recv, new.attr)):
            return ast.Constant(value=getattr(recv, new.attr))   # data attribute of a checker-supplied model object
    if isinstance(new, ast.Call):
        try:
            callee = dotted(node.func)

            def actuals():
                args = []
                for a_ in new.args:
                    if isinstance(a_, ast.Starred):
                        args.extend(list(const_eval(a_.value, env)))
                    else:
                        args.append(const_eval(a_, env))
                kw = {}
                for k_ in new.keywords:
                    if k_.arg is None:
                        kw.update(dict(const_eval(k_.value, env)))
                    else:
                        kw[k_.arg] = const_eval(k_.value, env)
                return args, kw
            if callee is not None and callee in funcs:
                args, kw = actuals()
                return ast.Constant(value=funcs[callee](*args, **kw))
            if isinstance(new.func, ast.Attribute):
                try:
                    recv = const_eval(new.func.value, env)
                except NotConst:
                    recv = None
                if isinstance(recv, (str, bytes, bytearray)) and new.func.attr in STR_METHODS:
                    args, kw = actuals()
                    return ast.Constant(value=getattr(recv, new.func.attr)(*args, **kw))
                if isinstance(recv, _CONTAINERS) and new.func.attr in CONTAINER_METHODS:
                    # a container created by the interpreted function itself (never a repository object)
                    args, kw = actuals()
                    return ast.Constant(value=getattr(recv, new.func.attr)(*args, **kw))
                if isinstance(recv, _re.Pattern) and new.func.attr in ("sub", "subn", "match", "search", "fullmatch", "split", "findall"):
                    # a module/class-level compiled pattern with a constant source: delegate to CPython's re
                    args, kw = actuals()
                    return ast.Constant(value=getattr(recv, new.func.attr)(*args, **kw))
                if isinstance(recv, _re.Match) and new.func.attr in ("group", "groups", "start", "end", "span", "groupdict"):
                    args, kw = actuals()
                    return ast.Constant(value=getattr(recv, new.func.attr)(*args, **kw))
                if getattr(recv, "_sa_model", False) and not new.func.attr.startswith("_"):
                    # a checker-supplied model object standing for a repository object (e.g. a queue)
                    args, kw = actuals()
                    return ast.Constant(value=getattr(recv, new.func.attr)(*args, **kw))
        except ModelRaised:
            raise
        except NotConst:
            pass
        except Exception as ex:  # e.g. TypeError mixing str/bytes: the repository expression itself would raise
            raise ModelRaised(type(ex).__name__, str(ex))
    return new


def subst_eval(expr: ast.AST, mapping: Dict[str, object], env: Optional[dict] = None, funcs: Optional[dict] = None):
    """Evaluate a pure expression after replacing every sub-expression whose normalised text is
    a key of ``mapping`` by that value (finite-domain evaluation of repository expressions).
    Pure string methods and the callables in ``funcs`` (dotted callee text -> python function, the
    model of that callee) are folded when the plain whitelisted evaluator does not know them."""
    key = (id(expr), frozenset(mapping))
    hit = _SUBST_CACHE.get(key)
    if hit is None or hit[0] is not expr:
        names: Dict[str, str] = {}
        e2 = _rebuild(expr, set(mapping), names)
        hit = (expr, e2, names)
        _SUBST_CACHE[key] = hit
    _, e2, names = hit
    full = dict(env or {})
    for s, nm in names.items():
        full[nm] = mapping[s]
    try:
        return const_eval(e2, full)
    except NotConst:
        return const_eval(_fold(e2, full, funcs or {}), full)


def handler_names(h: ast.ExceptHandler) -> List[str]:
    if h.type is None:
        return ["<bare>"]
    if isinstance(h.type, ast.Tuple):
        return [(dotted(e) or src(e)).split(".")[-1] for e in h.type.elts]
    return [(dotted(h.type) or src(h.type)).split(".")[-1]]


def enclosing_try_handlers(func: ast.AST, node: ast.AST) -> List[ast.ExceptHandler]:
    """Handlers of the innermost ``try`` whose *body* contains ``node`` (within func)."""
    best = None
    for t in walk_local(func):
        if isinstance(t, ast.Try):
            for st in t.body:
                if any(x is node for x in ast.walk(st)):
                    best = t  # walk_local is pre-order: later matches are inner
    return list(best.handlers) if best is not None else []


def catches_everything(handlers: Sequence[ast.ExceptHandler]) -> bool:
    return any(nm in ("<bare>", "BaseException") for h in handlers for nm in handler_names(h))


def param_names(func) -> List[str]:
    a = func.args
    return [x.arg for x in list(a.posonlyargs) + list(a.args) + list(a.kwonlyargs)]


def local_assignments(func, name: str) -> List[ast.stmt]:
    """Statements in func (not nested scopes) that (re)bind the local ``name``."""
    out = []
    for st in walk_local(func):
        if isinstance(st, ast.Assign):
            for t in st.targets:
                flat = t.elts if isinstance(t, (ast.Tuple, ast.List)) else [t]
                if any(isinstance(x, ast.Name) and x.id == name for x in flat):
                    out.append(st)
        elif isinstance(st, (ast.AugAssign, ast.AnnAssign)) and isinstance(st.target, ast.Name) and st.target.id == name:
            out.append(st)
        elif isinstance(st, (ast.For, ast.AsyncFor)):
            if any(isinstance(x, ast.Name) and x.id == name for x in ast.walk(st.target)):
                out.append(st)
        elif isinstance(st, (ast.With, ast.AsyncWith)):
            for it in st.items:
                if it.optional_vars is not None and any(isinstance(x, ast.Name) and x.id == name for x in ast.walk(it.optional_vars)):
                    out.append(st)
    return out


def never_returns_normally(g) -> bool:
    """No path entry -> normal exit (the function always raises)."""
    return g.path([g.entry], [g.exit]) is None


def class_functions(mod, clsname: str):
    """(qualified name, func) for every function of the class, nested ones included."""
    return [(q, f) for q, f in mod.functions() if q.startswith(clsname + ".")]


def resolver(g, mapping: Dict[str, object], env: Optional[dict] = None):
    """edge_ok function for CFG queries: atomic tests that become constant once the expressions in
    ``mapping`` (normalised text -> value) are fixed are followed only along their actual outcome
    (path-sensitive finite evaluation); all other tests keep both edges."""
    cache: Dict[int, Optional[bool]] = {}

    def outcome(a: int) -> Optional[bool]:
        if a not in cache:
            n = g.node(a)
            r = None
            if n.kind == "test":
                try:
                    r = bool(subst_eval(n.ast, mapping, env))
                except NotConst:
                    r = None
                except Exception:
                    r = None
            cache[a] = r
        return cache[a]

    def ok(a, b, lab):
        if lab in ("T", "F"):
            o = outcome(a)
            if o is not None:
                return (lab == "T") == o
        return True

    return ok


class InterpError(Exception):
    pass


import posixpath as _pp

# ---- model of os / os.path on the analysed (POSIX) platform: constants and pure helpers --------------------------
OS_MAPPING: Dict[str, object] = {}
for _pfx in ("os.", "os.path."):
    OS_MAPPING.update({_pfx + "sep": "/", _pfx + "pardir": "..", _pfx + "curdir": ".", _pfx + "altsep": None, _pfx + "extsep": ".", _pfx + "pathsep": ":"})
OS_MAPPING["os.linesep"] = "\n"
OS_MAPPING["os.name"] = "posix"


def _commonpath(xs):
    return _pp.commonpath(list(xs))


_OS_PATH_FUNCS = {"normpath": _pp.normpath, "abspath": _pp.abspath, "join": _pp.join, "basename": _pp.basename, "dirname": _pp.dirname, "split": _pp.split,
                  "splitext": _pp.splitext, "commonpath": _commonpath, "commonprefix": lambda xs: _pp.commonprefix(list(xs)), "isabs": _pp.isabs,
                  "realpath": _pp.normpath, "normcase": _pp.normcase, "relpath": _pp.relpath, "splitdrive": _pp.splitdrive, "expanduser": lambda p: p}
OS_FUNCS: Dict[str, object] = {}
for _k, _v in _OS_PATH_FUNCS.items():
    OS_FUNCS[_k] = _v
    OS_FUNCS["os.path." + _k] = _v
    OS_FUNCS["posixpath." + _k] = _v
OS_FUNCS["joinpath"] = _pp.join          # `from os.path import join as joinpath` (twisted.python.filepath)
OS_FUNCS["os.fspath"] = lambda p: p
OS_FUNCS["os.fsencode"] = lambda p: p.encode("utf-8") if isinstance(p, str) else p
OS_FUNCS["os.fsdecode"] = lambda p: p.decode("utf-8") if isinstance(p, bytes) else p

BUILTIN_FUNCS = {"isinstance": isinstance, "abs": abs, "bool": bool, "sum": sum, "any": any, "all": all, "divmod": divmod, "reversed": lambda x: list(reversed(x)),
                 "enumerate": lambda x, *a: list(enumerate(x, *a)), "zip": lambda *a: list(zip(*a)), "repr": repr, "memoryview": memoryview, "hex": hex,
                 "iter": iter, "next": next, "type": type, "round": round, "float": float, "slice": slice,
                 # these are also known to the plain evaluator, which however loses the exception type: here a failure becomes the modelled exception
                 "int": int, "sorted": sorted, "min": min, "max": max, "len": len, "list": list, "tuple": tuple, "dict": dict, "set": set, "str": str, "bytes": bytes,
                 "map": lambda f, *its: [f(*a) for a in zip(*its)], "filter": lambda f, it: [x for x in it if (f(x) if f is not None else x)],
                 "range": lambda *a: list(range(*a)), "ord": ord, "chr": chr}
BUILTIN_NAMES = {"str": str, "bytes": bytes, "int": int, "bytearray": bytearray, "tuple": tuple, "list": list, "dict": dict, "set": set, "frozenset": frozenset,
                 "float": float, "bool": bool, "object": object, "memoryview": memoryview}

_EXC_PARENTS = {"UnicodeDecodeError": ["UnicodeError", "ValueError"], "UnicodeEncodeError": ["UnicodeError", "ValueError"], "UnicodeError": ["ValueError"],
                "KeyError": ["LookupError"], "IndexError": ["LookupError"], "FileNotFoundError": ["OSError"], "PermissionError": ["OSError"],
                "ZeroDivisionError": ["ArithmeticError"], "OverflowError": ["ArithmeticError"], "StopIteration": [], "NotImplementedError": ["RuntimeError"]}


class _Raised(Exception):
    def __init__(self, name):
        Exception.__init__(self, name)
        self.name = name


class _Break(Exception):
    pass


class _Continue(Exception):
    pass


def _exc_matches(raised: str, handler: ast.ExceptHandler) -> bool:
    names = handler_names(handler)
    if any(n in ("<bare>", "BaseException", "Exception") for n in names):
        return True
    short_ = raised.split(".")[-1]
    anc, todo = {short_}, [short_]
    while todo:
        for p_ in _EXC_PARENTS.get(todo.pop(), []):
            if p_ not in anc:
                anc.add(p_)
                todo.append(p_)
    return bool(anc & set(names))


def interpret(func, args: Dict[str, object], mapping: Optional[Dict[str, object]] = None, max_steps: int = 20000, funcs: Optional[dict] = None,
              nested_call=lambda *a: None, state: Optional[dict] = None):
    """Finite-domain evaluation of a *pure* repository function with the whitelisted evaluator (no
    repository code runs): Assign (names, tuples, attributes, subscripts) / AugAssign / If / For / While /
    Break / Continue / Try / Return / Raise / Assert / Pass / docstring.  The expressions listed in
    ``mapping`` (normalised text -> value, e.g. ``self.getFileSize()``) are inputs; ``funcs`` maps callee text
    to a python model of that callee.  os / os.path constants and pure helpers (posixpath) and a few pure
    builtins are modelled by default.  Returns ("return", value) or ("raise", exception name).  A construct
    outside this subset is an InterpError (the caller turns it into an analysis error in its own section)."""
    env = dict(BUILTIN_NAMES)
    env.update(args)
    mp = state if state is not None else {}      # ``state``: caller-owned store that receives attribute / subscript assignments
    for k_, v_ in OS_MAPPING.items():
        mp.setdefault(k_, v_)
    mp.update(mapping or {})
    fs = dict(BUILTIN_FUNCS)
    fs.update(OS_FUNCS)
    fs.update(funcs or {})
    steps = [0]
    current: List[str] = []

    def ev(e):
        try:
            return subst_eval(e, mp, env, fs)
        except ModelRaised as ex:
            raise _Raised(ex.name)
        except NotConst as ex:
            raise InterpError(f"not evaluable: {src(e)} ({ex})")

    def assign(t, v):
        if isinstance(t, ast.Name):
            env[t.id] = v
        elif isinstance(t, (ast.Tuple, ast.List)):
            try:
                vs = list(v)
            except TypeError:
                raise _Raised("TypeError")
            if len(vs) != len(t.elts):
                raise _Raised("ValueError")
            for a, b in zip(t.elts, vs):
                assign(a, b)
        elif isinstance(t, (ast.Attribute, ast.Subscript)):
            mp[src(t)] = v       # later reads of the same expression see the stored value
        else:
            raise InterpError(f"assignment target not modelled: {src(t)}")

    def block(stmts):
        for st in stmts:
            steps[0] += 1
            if steps[0] > max_steps:
                raise InterpError("step limit")
            if isinstance(st, ast.Expr):
                if isinstance(st.value, ast.Constant):
                    continue
                ev(st.value)
            elif isinstance(st, (ast.Pass, ast.Import, ast.ImportFrom, ast.Global, ast.Nonlocal)):
                continue
            elif isinstance(st, ast.Assign):
                v = ev(st.value)
                for t in st.targets:
                    assign(t, v)
            elif isinstance(st, ast.AnnAssign):
                if st.value is not None:
                    assign(st.target, ev(st.value))
            elif isinstance(st, ast.AugAssign):
                load = ast.Name(id=st.target.id, ctx=ast.Load()) if isinstance(st.target, ast.Name) else st.target
                assign(st.target, ev(ast.BinOp(left=load, op=st.op, right=st.value)))
            elif isinstance(st, ast.If):
                r = block(st.body if ev(st.test) else st.orelse)
                if r is not None:
                    return r
            elif isinstance(st, ast.Assert):
                if not ev(st.test):
                    raise _Raised("AssertionError")
            elif isinstance(st, ast.For):
                broke = False
                try:
                    items = list(ev(st.iter))
                except TypeError:
                    raise _Raised("TypeError")
                for item in items:
                    assign(st.target, item)
                    try:
                        r = block(st.body)
                    except _Break:
                        broke = True
                        break
                    except _Continue:
                        continue
                    if r is not None:
                        return r
                if not broke and st.orelse:
                    r = block(st.orelse)
                    if r is not None:
                        return r
            elif isinstance(st, ast.While):
                broke = False
                while ev(st.test):
                    steps[0] += 1
                    if steps[0] > max_steps:
                        raise InterpError("step limit")
                    try:
                        r = block(st.body)
                    except _Break:
                        broke = True
                        break
                    except _Continue:
                        continue
                    if r is not None:
                        return r
                if not broke and st.orelse:
                    r = block(st.orelse)
                    if r is not None:
                        return r
            elif isinstance(st, ast.Break):
                raise _Break()
            elif isinstance(st, ast.Continue):
                raise _Continue()
            elif isinstance(st, ast.Try):
                r = None
                try:
                    try:
                        r = block(st.body)
                        if r is None and st.orelse:
                            r = block(st.orelse)
                    except _Raised as ex:
                        h = next((h for h in st.handlers if _exc_matches(ex.name, h)), None)
                        if h is None:
                            raise
                        current.append(ex.name)
                        try:
                            r = block(h.body)
                        finally:
                            current.pop()
                finally:
                    if st.finalbody:
                        r2 = block(st.finalbody)
                        if r2 is not None:
                            r = r2
                if r is not None:
                    return r
            elif isinstance(st, ast.Return):
                return ("return", ev(st.value) if st.value is not None else None)
            elif isinstance(st, ast.Raise):
                if st.exc is None:
                    raise _Raised(current[-1] if current else "RuntimeError")
                e = st.exc.func if isinstance(st.exc, ast.Call) else st.exc
                raise _Raised(dotted(e) or src(e))
            elif isinstance(st, ast.Delete):
                for t in st.targets:
                    if isinstance(t, ast.Name):
                        env.pop(t.id, None)
                    elif isinstance(t, ast.Attribute):
                        mp.pop(src(t), None)
                    elif isinstance(t, ast.Subscript):
                        box = ev(t.value)
                        if not isinstance(box, (list, dict, bytearray, _collections.deque)):
                            raise InterpError(f"del on a value that is not a local container: {src(t)}")
                        try:
                            if isinstance(t.slice, ast.Slice):
                                lo = ev(t.slice.lower) if t.slice.lower is not None else None
                                hi = ev(t.slice.upper) if t.slice.upper is not None else None
                                del box[lo:hi]
                            else:
                                del box[ev(t.slice)]
                        except (KeyError, IndexError) as ex:
                            raise _Raised(type(ex).__name__)
                    else:
                        raise InterpError(f"del target not modelled: {src(t)}")
            elif isinstance(st, (ast.FunctionDef, ast.AsyncFunctionDef)):
                # a nested function is only passed around as a callback; calling it is modelled by the caller's ``funcs`` (default: opaque result)
                env[st.name] = f"<function {st.name}>"
                fs.setdefault(st.name, nested_call)
            else:
                raise InterpError(f"statement not modelled: {type(st).__name__}")
        return None

    try:
        r = block(func.body)
    except _Raised as ex:
        return ("raise", ex.name)
    except (_Break, _Continue):
        raise InterpError("break/continue outside a loop")
    return r if r is not None else ("return", None)


def module_patterns(mod) -> Dict[str, object]:
    """{name: compiled pattern} for module-level ``NAME = re.compile(<constant>[, <constant flags>])`` assignments."""
    out = {}
    for st in mod.tree.body:
        if isinstance(st, ast.Assign) and len(st.targets) == 1 and isinstance(st.targets[0], ast.Name) and isinstance(st.value, ast.Call) and \
                dotted(st.value.func) in ("re.compile", "compile"):
            try:
                args = [const_eval(a, {"re.I": _re.I}) for a in st.value.args]
                if not st.value.keywords and isinstance(args[0], (str, bytes)):
                    out[st.targets[0].id] = _re.compile(*args)
            except (NotConst, _re.error, IndexError):
                pass
    return out


def call_repo(fn, args, kwargs=None, selfobj=None, mapping=None, funcs=None, env=None, nested_call=lambda *a: None, state=None):
    """Call a repository function by interpreting it: positional/keyword arguments and constant defaults are bound to its
    parameters.  Returns the value; a raise becomes ModelRaised(name) so that an interpreting caller sees the same exception."""
    kwargs = dict(kwargs or {})
    a = fn.args
    params = [x.arg for x in list(a.posonlyargs) + list(a.args)]
    defaults = dict(zip(params[len(params) - len(a.defaults):], a.defaults))
    bound = dict(env or {})
    actual = list(args)
    if params and params[0] in ("self", "cls"):
        bound[params[0]] = selfobj
        params = params[1:]
    for i, pname in enumerate(params):
        if i < len(actual):
            bound[pname] = actual[i]
        elif pname in kwargs:
            bound[pname] = kwargs.pop(pname)
        elif pname in defaults:
            bound[pname] = const_eval(defaults[pname], dict(BUILTIN_NAMES))
        else:
            raise ModelRaised("TypeError", f"missing argument {pname}")
    if a.vararg is not None:
        bound[a.vararg.arg] = tuple(actual[len(params):])
    for kw_, d_ in zip(a.kwonlyargs, a.kw_defaults):
        bound[kw_.arg] = kwargs.pop(kw_.arg) if kw_.arg in kwargs else (const_eval(d_, dict(BUILTIN_NAMES)) if d_ is not None else None)
    kind, val = interpret(fn, bound, mapping, funcs=funcs, nested_call=nested_call, state=state)
    if kind == "raise":
        raise ModelRaised(val.split(".")[-1], "raised by " + getattr(fn, "name", "?"))
    return val
