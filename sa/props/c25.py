"""C25 - static file range requests return exactly the requested bytes."""
from __future__ import annotations

import ast

from sa.selftest import Mutant, Silent
from sa.source import AnalysisError
from sa.astx import call_attr, call_name, src, walk_local
from sa.source import methods
from sa.props._lib_f import (Abstain, InterpError, MDeferred, ModelRaised, NullLogger, World, enclosing_try_handlers, handler_names, norm_method, param_names, structural)

PROPERTY = "C25"
S = "web/static.py"
Q = "twisted.web.static."
TECHNIQUE = "range arithmetic over all orderings; exception-escape over the parser call graph; read-bound provenance; bounded response histories"
EXPLANATION = (
    "FINITE-EXHAUSTIVE: _rangeToOffsetAndSize over the complete case split (None-ness of start/end x orderings of start, end, size: order-only argument checked on the code) "
    "against the RFC 9110 oracle (contains F25b).  STRUCTURAL: exception escape - every raise in _parseRangeHeader and the helpers it calls is ValueError, its implicit raisers "
    "(int, unpacking) are ValueError by nature, makeProducer catches ValueError around the call and its handler touches the raw header only leniently (F25a); every read of "
    "the range producers is min(..., bytes remaining in the part) and the single-range producer seeks first.  BOUNDED second layer (bounded evidence only for: exact response "
    "bytes/headers per Range value, multipart layout and Content-Length, request order of the parts, the four known findings): "
    "static.File.makeProducer, _parseRangeHeader, _rangeToOffsetAndSize, _contentRange, _doSingleRangeRequest, _doMultipleRangeRequest, _setContentHeaders and the three "
    "StaticProducer classes are instantiated as model objects whose methods are the repository's own functions (interpreted over the AST; the request and the open file are "
    "checker models; nothing is imported or run), every response is produced to its end by driving the pull producer, and status, Content-Range, Content-Length, Content-Type "
    "and the body (multipart bodies parsed with the announced boundary) are compared with an RFC 9110 oracle written independently of the code: (a) the arithmetic "
    "function on every (size 1..9, first, last/suffix 0..12) case; (b) ~150 Range header values x file sizes through the whole path: absent / malformed -> 200 with the "
    "whole content (F25a: undecodable bytes), single satisfiable -> 206 with exactly the bytes (F25b: suffix longer than the file), several -> multipart in request order "
    "with matching Content-Length, none satisfiable -> 416 with `bytes */size`, and never an exception; (c) small and large transport buffer sizes. The findings keep "
    "their own rules with semantic construct labels; FIXED (each revert is a mutant reported on that construct): F25c (several ranges, none satisfiable -> ValueError), F25e "
    "(empty range-set -> ValueError), F25d (int() accepted sign / underscore -> malformed header honoured), F25f (a part boundary pushing the chunk past bufferSize -> read() "
    "with a negative length -> ValueError); KNOWN: F25g (white space inside a range-spec accepted; pinned by the repository's RangeTests.test_rangeWithSpace). "
    "Not decided: file size 0, HEAD (the Range header is ignored there), real file-system errors."
    "  FRESHNESS (structural, fresh/stat-before-use): FilePath's stat cache is derived from filepath.py (the attribute assigned from stat(), its readers, its refreshers); in "
    "File.render_GET every call that reaches a reader through the call graph of File/FilePath - the size behind Content-Length / Content-Range / suffix ranges / 416, the modification "
    "time, exists/isdir - is preceded on every path by a refresher.  Bounded (fresh/rewritten-file): ONE File object, with FilePath's own restat/getsize/exists/isdir interpreted over "
    "a model stat(), answers a header set, the file is rewritten longer / shorter, the same object answers again: every answer is judged against the bytes on disk at that moment."
)
RULE_KINDS = {
    "arith/": "finite-exhaustive",
    "escape/": "structural", "producer/": "structural", "dispatch/": "structural",
    "range/": "bounded", "fresh/stat-before-use": "structural", "fresh/rewritten-file": "bounded",
}
ASSUMPTIONS = ["getFileSize() is constant during one request (the file is rewritten only BETWEEN requests in the freshness histories)", "stat() of the model returns the size of the bytes currently on disk; FilePath caches it only in the attribute found by the analysis", "the request's write()/registerProducer() behave like the synchronous model (pull producer driven until finish)"]


# ---- RFC 9110 section 14 oracle, written independently of the code under analysis -------------------------------------------------------------
def oracle(size, first, last):
    """(offset, length) of the satisfiable part, or None when unsatisfiable.  first None = suffix."""
    if first is None:
        if last == 0:
            return None
        off = max(size - last, 0)
        return off, size - off
    if first >= size:
        return None
    end = size - 1 if last is None else min(last, size - 1)
    return first, end - first + 1


def rfc_ranges(value: bytes):
    """list of (first, last) with None for an absent position, or None when the header is malformed (RFC 9110 14.1.1 / 14.1.2)"""
    if b"=" not in value:
        return None
    unit, rest = value.split(b"=", 1)
    if unit != b"bytes":
        return None
    out = []
    for spec in rest.split(b","):
        spec = spec.strip(b" \t")
        if not spec:
            continue
        if b"-" not in spec:
            return None
        a, b = spec.split(b"-", 1)
        if (a and not a.isdigit()) or (b and not b.isdigit()):
            return None
        if not a and not b:
            return None
        first = int(a) if a else None
        last = int(b) if b else None
        if first is not None and last is not None and first > last:
            return None
        out.append((first, last))
    return out or None


def expected(content: bytes, header):
    """("whole" | "partial" | "multi" | "unsatisfiable", details) for a GET with this Range header"""
    ranges = rfc_ranges(header) if header is not None else None
    if ranges is None:
        return ("whole", None)
    parts = [oracle(len(content), a, b) for a, b in ranges]
    sat = [p for p in parts if p is not None]
    if not sat:
        return ("unsatisfiable", None)
    if len(ranges) == 1:
        return ("partial", sat[0])
    return ("multi", sat)


# ---- models ----------------------------------------------------------------------------------------------------------------------------------
class _Request:
    _sa_model = True
    _sa_settable = True

    def __init__(self, header):
        self.header = header
        self.code = 200
        self.headers = {}
        self.written = []
        self.producer = None
        self.finished = 0
        self.method = b"GET"

    def getHeader(self, name):
        return self.header if name.lower() == b"range" else None

    def setHeader(self, k, v):
        self.headers[k.lower()] = v

    def setResponseCode(self, code, *a):
        self.code = code

    def write(self, data):
        self.written.append(data)

    def registerProducer(self, producer, streaming):
        self.producer = producer

    def unregisterProducer(self):
        self.producer = None

    def finish(self):
        self.finished += 1

    def setLastModified(self, when):
        self.lastModified = when
        return None


class _FileObj:
    """an open binary file: read(n) with n < -1 raises ValueError like io.BufferedReader does"""
    _sa_model = True

    def __init__(self, content):
        self.content, self.pos, self.closed, self.reads = content, 0, False, []

    def seek(self, pos, whence=0):
        if pos < 0:
            raise OSError(22, "Invalid argument")
        self.pos = pos

    def read(self, n=-1):
        self.reads.append(n)
        if n is not None and n < -1:
            raise ValueError("read length must be non-negative or -1")
        if n is None or n == -1:
            data = self.content[self.pos:]
        else:
            data = self.content[self.pos:self.pos + n]
        self.pos += len(data)
        return data

    def close(self):
        self.closed = True


class _NS:
    _sa_model = True

    def __init__(self, **kw):
        self.__dict__.update(kw)


CODES = {"OK": 200, "PARTIAL_CONTENT": 206, "REQUESTED_RANGE_NOT_SATISFIABLE": 416, "NOT_MODIFIED": 304, "CACHED": object()}


def _world(ctx, buffer_size=65536):
    for fn in ("File.makeProducer", "File._parseRangeHeader", "File._rangeToOffsetAndSize", "File._contentRange", "File._doSingleRangeRequest", "File._doMultipleRangeRequest",
               "File._setContentHeaders", "SingleRangeStaticProducer.resumeProducing", "MultipleRangeStaticProducer.resumeProducing", "NoRangeStaticProducer.resumeProducing"):
        ctx.func(S, fn)
    ext = {"networkString": lambda s_: s_.encode("ascii"), "nativeString": lambda s_: s_.decode("ascii") if isinstance(s_, bytes) else s_, "log.msg": lambda *a, **k: None,
           "log.err": lambda *a, **k: None, "time.time": lambda: 1234.5, "os.getpid": lambda: 4242, "implementer": lambda *a: (lambda c: c), "Logger": lambda *a, **k: NullLogger()}
    env = {"http": _NS(**CODES), "abstract": _NS(FileDescriptor=_NS(bufferSize=buffer_size)), "server": _NS(NOT_DONE_YET=1)}
    w = World(ctx.mod(S), externals=ext, env=env)
    w.override("getFileSize", lambda o: SIZE[0])
    return w


SIZE = [0]


def _serve(w, content, header, ctype="text/plain"):
    """one GET through File.makeProducer + the producer driven to its end; returns (request model, exception name or None)"""
    f = w.bare("File", type=ctype, encoding=None, path="/t/f.txt")
    SIZE[0] = len(content)
    req = _Request(header)
    fobj = _FileObj(content)
    try:
        producer = f.makeProducer(req, fobj)
        producer.start()
        for _ in range(4000):
            if req.finished or req.producer is None:
                break
            req.producer.resumeProducing()
        else:
            return req, fobj, "<the producer never finishes>"
    except ModelRaised as e:
        return req, fobj, e.name
    except InterpError as e:
        if "step limit" in str(e):
            return req, fobj, "<a loop that does not terminate>"
        raise
    return req, fobj, None


def _parse_multipart(body: bytes, boundary: bytes):
    """[(content-type, content-range, data)] or None"""
    delim = b"\r\n--" + boundary
    if not body.startswith(delim):
        return None
    pieces = body.split(delim)
    if pieces[0] != b"" or not pieces[-1].startswith(b"--\r\n") or pieces[-1] != b"--\r\n":
        return None
    out = []
    for piece in pieces[1:-1]:
        if not piece.startswith(b"\r\n") or b"\r\n\r\n" not in piece:
            return None
        head, data = piece[2:].split(b"\r\n\r\n", 1)
        hdrs = dict((l.split(b":", 1)[0].strip().lower(), l.split(b":", 1)[1].strip()) for l in head.split(b"\r\n") if b":" in l)
        out.append((hdrs.get(b"content-type"), hdrs.get(b"content-range"), data))
    return out


def _verdict(content, header, req, fobj, exc):
    """list of problems of one response against the oracle"""
    kind, det = expected(content, header)
    body = b"".join(req.written)
    size = len(content)
    H = req.headers
    why = []
    if exc:
        return [f"fails with an internal error ({exc})"]
    if req.finished != 1:
        why.append(f"the response is finished {req.finished} times")
    if not fobj.closed:
        why.append("the file is left open")
    if kind == "whole":
        if req.code != 200 or body != content or H.get(b"content-length") != str(size).encode():
            why.append(f"answers {req.code} with {len(body)} body bytes, Content-Length {H.get(b'content-length')!r} instead of 200 with the whole {size}-byte content")
    elif kind == "partial":
        off, ln = det
        if req.code != 206 or body != content[off:off + ln] or H.get(b"content-length") != str(ln).encode() or H.get(b"content-range") != f"bytes {off}-{off + ln - 1}/{size}".encode():
            why.append(f"answers {req.code}, body {body[:24]!r} ({len(body)} bytes), Content-Length {H.get(b'content-length')!r}, Content-Range {H.get(b'content-range')!r} instead of 206 "
                       f"with bytes {off}-{off + ln - 1}/{size}")
    elif kind == "unsatisfiable":
        if req.code != 416 or body != b"" or H.get(b"content-range") != f"bytes */{size}".encode() or H.get(b"content-length") not in (b"0",):
            why.append(f"answers {req.code}, {len(body)} body bytes, Content-Range {H.get(b'content-range')!r}, Content-Length {H.get(b'content-length')!r} instead of 416 with `bytes */{size}`")
    else:
        ct = H.get(b"content-type", b"")
        parts = None
        if req.code == 206 and ct.startswith(b"multipart/byteranges; boundary=") :
            parts = _parse_multipart(body, ct.split(b"boundary=", 1)[1].strip(b'"'))
        if parts is None:
            why.append(f"answers {req.code} with Content-Type {ct!r} and a body that is not multipart/byteranges with that boundary: {body[:60]!r}")
        else:
            want = [(f"bytes {o}-{o + l - 1}/{size}".encode(), content[o:o + l]) for o, l in det]
            got = [(cr, data) for t, cr, data in parts]
            if got != want:
                why.append(f"sends the parts {[(a.decode() if a else a, len(b)) for a, b in got]} instead of {[(a.decode(), len(b)) for a, b in want]} (in request order)")
            if H.get(b"content-length") != str(len(body)).encode():
                why.append(f"announces Content-Length {H.get(b'content-length')!r} for a body of {len(body)} bytes")
    return why


def _hdr(h):
    return "no Range header" if h is None else "Range: " + h.decode("latin-1")


def _run_grid(ctx, w, rule, construct, cases, what):
    bad = []
    n = 0
    for content, header in cases:
        n += 1
        req, fobj, exc = _serve(w, content, header)
        why = _verdict(content, header, req, fobj, exc)
        if why:
            bad.append((len(content), header, why))
    msg = ""
    if bad:
        size, header, why = bad[0]
        msg = f"{_hdr(header)} on a {size}-byte file: " + "; ".join(why[:2]) + f"; {len(bad)} of {n} {what} wrong"
    ctx.check(not bad, rule, construct, msg, detail=f"{n} {what}")
    return n


SPECS = [b"0-0", b"5-0", b"0-", b"-0", b"1-0", b"5-5", b"6-5", b"3-", b"-3", b"-", b"a-b", b"1-a", b"10-20", b"0-1", b"7", b"1-2-3", b"-5000", b"9-", b"10-", b"2-100", b"-10"]


# ==================================================================================================================================
# STRUCTURAL layer: exception escape over the intra-class call graph, read bounds, dispatch guards (normalised view)
# ==================================================================================================================================
KEEP_FILE = {"makeProducer", "_parseRangeHeader", "_rangeToOffsetAndSize", "_contentRange", "_doSingleRangeRequest", "_doMultipleRangeRequest", "_setContentHeaders", "render_GET",
             "getChild", "openForReading", "getFileSize"}
LENIENT = {"replace", "ignore", "backslashreplace", "surrogateescape"}
VALUEERROR_ONLY = {"int", "float"}          # builtins whose only failure on a bytes argument is ValueError


def _closure(cls, start):
    """methods of the class reachable from ``start`` through self.<m>(...) / <Class>.<m>(...) calls (the helpers a maintainer may have extracted)"""
    ms = methods(cls)
    seen, todo = [], [start]
    while todo:
        nm = todo.pop()
        if nm in seen or nm not in ms:
            continue
        seen.append(nm)
        for c in ast.walk(ms[nm]):
            if isinstance(c, ast.Call) and isinstance(c.func, ast.Attribute) and src(c.func.value) in ("self", cls.name, "cls") and c.func.attr in ms:
                todo.append(c.func.attr)
    return [(nm, ms[nm]) for nm in seen]


def _s_escape(ctx):
    """EVERY exception class that can leave the Range parsing is ValueError, and makeProducer catches ValueError around the parse and handles it without touching the raw
    header strictly (F25a)"""
    cls = ctx.cls(S, "File")
    q = Q + "File._parseRangeHeader"
    fns = _closure(cls, "_parseRangeHeader")
    if not fns:
        raise Abstain("_parseRangeHeader not found")
    n_raise = 0
    for nm, f in fns:
        for st in walk_local(f):
            if isinstance(st, ast.Raise):
                n_raise += 1
                if st.exc is None:
                    continue          # re-raise inside a handler: the class is that of the handler
                e = st.exc.func if isinstance(st.exc, ast.Call) else st.exc
                ctx.check(src(e) == "ValueError", "escape/parser-raises-only-valueerror", Q + f"File.{nm} | raise {src(e)}",
                          f"the Range parser raises {src(e)}, which makeProducer does not catch (500 instead of the whole content)")
        # implicit raisers (tuple-unpacking of a split, int(), a strict decode) fail with ValueError or a subclass of it by nature
    if n_raise == 0:
        raise Abstain("no raise statement found in the Range parser (shape not recognised)")
    f = norm_method(ctx, S, "File", "makeProducer", keep=KEEP_FILE)
    q = Q + "File.makeProducer"
    calls = [c for c in walk_local(f) if isinstance(c, ast.Call) and call_name(c) == "self._parseRangeHeader"]
    if len(calls) != 1:
        raise Abstain(f"{len(calls)} calls of _parseRangeHeader in makeProducer")
    hs = enclosing_try_handlers(f, calls[0])
    ok = any({"ValueError", "Exception", "<bare>", "BaseException"} & set(handler_names(h)) for h in hs)
    ctx.check(ok, "escape/parse-guarded", q + " | self._parseRangeHeader(...)", "ValueError from the Range parser is not caught by makeProducer: a malformed header is a 500 instead of the whole content")
    raw = src(calls[0].args[0]) if calls[0].args else None
    for h in hs:
        for c2 in [x for x in ast.walk(h) if isinstance(x, ast.Call)]:
            if isinstance(c2.func, ast.Attribute) and c2.func.attr == "decode" and src(c2.func.value) == raw:
                err = c2.args[1] if len(c2.args) > 1 else next((k.value for k in c2.keywords if k.arg == "errors"), None)
                ctx.check(isinstance(err, ast.Constant) and err.value in LENIENT, "escape/handler-lenient", q + " | <raw header>.decode() in the handler",
                          "the malformed-header handler decodes the raw header strictly: `Range: \\xff` raises UnicodeDecodeError inside the handler (500 instead of the whole content)")
            elif (call_name(c2) in ("nativeString", "str", "int", "float") or call_attr(c2) == "encode") and any(src(a_) == raw for a_ in c2.args):
                ctx.violation("escape/handler-lenient", q + f" | {call_name(c2)}(<raw header>) in the handler", "the malformed-header handler converts the raw header with a call that can raise")
    ctx.ok("escape/handler-lenient", q + " | <handler of the parse error>")


def _s_producers(ctx):
    """every read of a range producer is bounded by the bytes remaining in its part (so no byte after the range is sent); the single-range producer seeks before producing"""
    for cname, remaining in (("SingleRangeStaticProducer", ("self.size - self.bytesWritten",)), ("MultipleRangeStaticProducer", ("self._partSize - self._partBytesWritten",))):
        f = norm_method(ctx, S, cname, "resumeProducing", keep={"start", "resumeProducing", "_nextRange", "stopProducing", "__init__"})
        q = Q + cname + ".resumeProducing"
        reads = [c for c in walk_local(f) if isinstance(c, ast.Call) and call_name(c) == "self.fileObject.read"]
        if not reads:
            raise Abstain(f"no fileObject.read in {cname}.resumeProducing")
        for c in reads:
            a_ = c.args[0] if c.args else None
            if not (isinstance(a_, ast.Call) and call_name(a_) == "min"):
                if a_ is not None and any(r in src(a_) for r in remaining):
                    raise Abstain("the read bound is not a min(...) expression")
                ctx.violation("producer/read-bounded", q + " | fileObject.read(...)", f"the read length `{src(a_) if a_ is not None else ''}` is not bounded by the bytes remaining in the part: bytes after the range would be sent")
                continue
            ctx.check(any(src(x) in remaining for x in a_.args), "producer/read-bounded", q + " | fileObject.read(min(...))",
                      f"the read is bounded by {[src(x) for x in a_.args]}, not by the bytes remaining in the part ({remaining[0]})")
    f = norm_method(ctx, S, "SingleRangeStaticProducer", "start", keep={"start", "resumeProducing", "stopProducing", "__init__"})
    g = ctx.cfg(f)
    sk = [n for n in g.ids(lambda x: x.kind == "stmt") if "self.fileObject.seek(self.offset)" in src(g.node(n).ast)]
    reg = [n for n in g.ids(lambda x: x.kind == "stmt") if "registerProducer" in src(g.node(n).ast)]
    if not reg:
        raise Abstain("registerProducer not found in SingleRangeStaticProducer.start")
    ctx.check(bool(sk) and g.must_precede(sk, reg) is None, "producer/seek-first", Q + "SingleRangeStaticProducer.start", "the file is not positioned at the range offset before production starts")


def _arith_domain(ctx):
    """is _rangeToOffsetAndSize an order-only function of (start, end, size)?  (comparisons, +/-1, min/max): then small integers realise every ordering"""
    f = norm_method(ctx, S, "File", "_rangeToOffsetAndSize", keep=KEEP_FILE)
    for n in ast.walk(f):
        if isinstance(n, ast.BinOp) and not isinstance(n.op, (ast.Add, ast.Sub)):
            return f"operator {type(n.op).__name__}"
        if isinstance(n, ast.Constant) and isinstance(n.value, int) and not isinstance(n.value, bool) and abs(n.value) > 1:
            return f"constant {n.value}"
        if isinstance(n, ast.Call) and (call_name(n) or "") not in ("max", "min", "self.getFileSize", "self.getsize"):
            return f"call {call_name(n)}"
    return None


def check(ctx):
    for name, fn in (("s-escape", lambda c: structural(c, "escape/parse-guarded", "range/evaluated-responses (bounded)", _s_escape, c)),
                     ("s-producers", lambda c: structural(c, "producer/read-bounded", "range/evaluated-responses (bounded)", _s_producers, c)),
                     ("s-fresh-stat", lambda c: structural(c, "fresh/stat-before-use", "fresh/rewritten-file (bounded)", _s_fresh_stat, c)), ("fresh-evaluated", _fresh_evaluated),
                     ("arithmetic", _arithmetic), ("responses", _responses), ("known-multi-unsatisfiable", _known_multi_unsat), ("known-empty-range-set", _known_empty),
                     ("known-lenient-integers", _known_lenient), ("known-boundary-overruns-buffer", _known_overrun)):
        with ctx.section(name):
            try:
                fn(ctx)
            except (InterpError, ModelRaised) as e:      # an exception of the interpreted code that no scenario expected is confined to this section
                raise AnalysisError(f"C25/{name}: the code uses a construct the evaluator cannot interpret: {e}")


def _arithmetic(ctx):
    w = _world(ctx)
    q = Q + "File._rangeToOffsetAndSize"
    bad = []
    n = 0
    for size in range(1, 10):
        SIZE[0] = size
        f = w.bare("File", type="text/plain", encoding=None)
        for first in [None] + list(range(0, 13)):
            for last in [None] + list(range(0, 13)):
                if (first is None and last is None) or (first is not None and last is not None and first > last):
                    continue
                n += 1
                try:
                    got = tuple(f._rangeToOffsetAndSize(first, last))
                except ModelRaised as e:
                    got = f"raises {e.name}"
                exp = oracle(size, first, last) or (0, 0)
                if got != exp:
                    bad.append((size, first, last, got, exp))
    msg = ""
    if bad:
        s_, a, b, got, exp = bad[0]
        rng = f"-{b}" if a is None else f"{a}-{'' if b is None else b}"
        msg = f"Range: bytes={rng} on a {s_}-byte file gives (offset, size) = {got}, RFC 9110: {exp}; {len(bad)} of {n} cases differ"
    try:
        why_not = _arith_domain(ctx)
    except Abstain as a_:
        why_not = str(a_)
    if why_not:
        ctx.note(f"arith/range-to-offset: domain argument not verified ({why_not}); the verdict is about the enumerated cases only")
        dom = "domain argument NOT verified: bounded reading"
    else:
        dom = ("domain argument (checked on the code): the function combines start, end and size only by comparisons, +/-1 and min/max, so its case split is determined by the "
               "None-ness of start/end and the ordering of start, end, size, 0 up to distance 1; sizes 1..9 x positions 0..12 realise every such ordering")
    ctx.check(not bad, "arith/range-to-offset", q, msg, detail=f"{n} (size, first, last) cases equal the oracle; {dom}")
    ctx.extra["finite_cases_range_arithmetic"] = n


def _responses(ctx):
    w = _world(ctx)
    content = b"0123456789"
    headers = [None, b"\xff", b"\xffbytes=0-1", b"kilos=1-2", b"bytes 1-2", b"1-2", b"", b"=", b"BYTES=1-2", b"bytes=1-2,,4-5", b"bytes=0-0,0-0", b"bytes=1-2,4-,-7", b"bytes=9-,0-0,-1"]
    headers += [b"bytes=" + s_ for s_ in SPECS]
    headers += [b"bytes=" + a + sep + b for a in SPECS[:9] + [b"9-", b"10-20"] for b in SPECS[:9] + [b"10-20"] for sep in (b",",)]
    headers += [b"bytes=" + a + b", " + b for a in (b"0-0", b"-3", b"5-") for b in (b"2-3", b"8-")]
    cases = [(content, h) for h in headers if expected(content, h)[0] != "unsatisfiable" or rfc_ranges(h) is None or len(rfc_ranges(h)) == 1]
    cases += [(b"x", h) for h in (None, b"bytes=0-0", b"bytes=-1", b"bytes=1-", b"bytes=0-,0-0")]
    big = bytes(range(256)) * 3
    cases += [(big, h) for h in (None, b"bytes=0-299", b"bytes=100-", b"bytes=-700", b"bytes=0-99,200-299,700-", b"bytes=5-5,767-767")]
    n = _run_grid(ctx, w, "range/evaluated-responses", Q + "File.makeProducer | <Range header x content grid>", cases, "responses")
    ctx.extra["responses_evaluated"] = n
    # transport buffers smaller than the ranges (several resumeProducing turns per part); sizes chosen so that no separator straddles the buffer end (that is F25f)
    for bs in (3, 7):
        w2 = _world(ctx, buffer_size=bs)
        _run_grid(ctx, w2, "range/evaluated-responses", Q + f"File.makeProducer | <bufferSize {bs}>", [(big, None), (big, b"bytes=10-300"), (content, b"bytes=2-8"), (content, None)],
                  f"responses with bufferSize {bs}")
    # multi-range parts larger than the transport buffer (several turns per part; sizes chosen so that no separator straddles the buffer end)
    big2 = bytes(range(250)) * 20
    w3 = _world(ctx, buffer_size=1000)
    _run_grid(ctx, w3, "range/evaluated-responses", Q + "File.makeProducer | <bufferSize 1000, parts of 2500 bytes>", [(big2, b"bytes=0-2499,2500-4999"), (big2, b"bytes=100-1299,3000-")],
              "multi-range responses with parts larger than the buffer")
    # another content type (used in the part headers) and none at all
    req, fobj, exc = _serve(w, content, b"bytes=0-1,4-5", ctype=None)
    parts = _parse_multipart(b"".join(req.written), req.headers.get(b"content-type", b"").split(b"boundary=", 1)[-1].strip(b'"')) if exc is None else None
    ctx.check(exc is None and parts is not None and [d for t, cr, d in parts] == [b"01", b"45"], "range/evaluated-responses", Q + "File.makeProducer | <no content type>",
              f"a multi-range answer for a file without content type: raises {exc}, parts {parts!r}")


def _known_multi_unsat(ctx):
    w = _world(ctx)
    content = b"0123456789"
    _run_grid(ctx, w, "range/multi-unsatisfiable", Q + "File | several ranges, none satisfiable", [(content, b"bytes=100-200,300-400"), (content, b"bytes=-0,-0"), (content, b"bytes=10-,20-30,-0")],
              "multi-range requests without a satisfiable range")


def _known_empty(ctx):
    w = _world(ctx)
    _run_grid(ctx, w, "range/empty-range-set", Q + "File | empty range-set", [(b"0123456789", b"bytes="), (b"0123456789", b"bytes=,"), (b"0123456789", b"bytes= , ")], "headers with an empty range-set")


def _known_lenient(ctx):
    w = _world(ctx)
    c = b"0123456789"
    _run_grid(ctx, w, "range/lenient-integers", Q + "File | byte positions that are not 1*DIGIT",
              [(c, b"bytes=+1-2"), (c, b"bytes=1-+2"), (c, b"bytes=1_0-"), (c + c, b"bytes=1_0-"), (c, b"bytes=--5"), (c, b"bytes=-+5"), (c, b"bytes=0-1,+2-3")],
              "malformed headers whose numbers int() accepts")
    # white space inside a range-spec: RangeTests.test_rangeWithSpace of the repository pins this leniency, so it is a separate (known) construct
    _run_grid(ctx, w, "range/lenient-whitespace", Q + "File | white space inside a range-spec", [(c, b"bytes=1 -2"), (c, b"bytes=1- 2")],
              "headers with white space around the byte positions")


# ==================================================================================================================================
# the size every answer is computed from is the size of the file NOW: FilePath caches stat(), File.render_GET has to refresh it
# ==================================================================================================================================
FPATH = "python/filepath.py"


def _stat_cache(ctx):
    """(cache attribute, readers, refreshers) of FilePath, derived from the code: the attribute assigned from stat(...), the methods that read it, the methods that assign it"""
    fp = ctx.cls(FPATH, "FilePath")
    ms = methods(fp)
    attrs = set()
    for f in ms.values():
        for st in walk_local(f):
            if isinstance(st, ast.Assign) and isinstance(st.value, ast.Call) and call_name(st.value) in ("stat", "os.stat") :
                attrs |= {t.attr for t in st.targets if isinstance(t, ast.Attribute) and src(t.value) == "self"}
    if len(attrs) != 1:
        raise Abstain(f"FilePath keeps the result of stat() in {sorted(attrs)}")
    attr = attrs.pop()
    readers, refreshers = set(), set()
    for nm, f in ms.items():
        for n in walk_local(f):
            if isinstance(n, ast.Attribute) and n.attr == attr and src(n.value) == "self":
                (refreshers if isinstance(n.ctx, ast.Store) else readers).add(nm)
    return attr, readers - refreshers, refreshers


def _reaches(classes, start, targets, seen=None):
    """does self.<start>() reach one of ``targets`` through self.<m>() calls over the given classes (first definition wins)?"""
    seen = set() if seen is None else seen
    if start in targets:
        return True
    if start in seen:
        return False
    seen.add(start)
    f = next((methods(c)[start] for c in classes if start in methods(c)), None)
    if f is None:
        return False
    return any(_reaches(classes, c.func.attr, targets, seen) for c in walk_local(f)
               if isinstance(c, ast.Call) and isinstance(c.func, ast.Attribute) and src(c.func.value) == "self")


def _s_fresh_stat(ctx):
    """STRUCTURAL: in File.render_GET every call that (transitively) answers from FilePath's cached stat - the size behind Content-Length, Content-Range, suffix ranges and the
    416 decision, the modification time, exists/isdir - is preceded on every path by a call that refreshes the cache"""
    attr, readers, refreshers = _stat_cache(ctx)
    classes = [ctx.cls(S, "File"), ctx.cls(FPATH, "FilePath")]
    f = norm_method(ctx, S, "File", "render_GET", keep=KEEP_FILE)
    g = ctx.cfg(f)
    q = Q + "File.render_GET"
    selfcalls = [(n, c) for n in g.ids(lambda x: x.kind in ("stmt", "test", "with", "for")) for c in ast.walk(g.node(n).ast)
                 if isinstance(c, ast.Call) and isinstance(c.func, ast.Attribute) and src(c.func.value) == "self"]
    fresh = sorted({n for n, c in selfcalls if c.func.attr in refreshers})
    uses = [(n, c) for n, c in selfcalls if c.func.attr not in refreshers and _reaches(classes, c.func.attr, readers)]
    sized = [(n, c) for n, c in uses if _reaches(classes, c.func.attr, {"getsize"})]
    if not sized:
        raise Abstain("no call in render_GET reaches FilePath.getsize")
    for n, c in uses:
        w = g.must_precede(fresh, [n], exc=False) if fresh else [g.entry, n]
        what = "the file size (Content-Length, Content-Range, suffix ranges, 416)" if (n, c) in sized else "the cached stat"
        ctx.check(bool(fresh) and w is None, "fresh/stat-before-use", q + f" | self.{c.func.attr}(...)",
                  f"self.{c.func.attr}() answers from FilePath's cached stat (self.{attr}) and can be reached without a refresh ({' / '.join(sorted(refreshers))}) during this request: "
                  f"a long-lived File resource keeps {what} of the first request after the file was rewritten", witness=g.describe(w) if fresh else "")


def _world_render(ctx):
    """static.File with its FilePath base interpreted as well: the stat cache is the repository's own (restat / getsize / exists / isdir), stat() answers from DISK"""
    for fn in ("FilePath.restat", "FilePath.getsize", "FilePath.exists", "FilePath.isdir", "FilePath.getModificationTime"):
        ctx.func(FPATH, fn)
    ctx.func(S, "File.render_GET")

    def stat(path):
        if DISK[0] is None:
            raise OSError(2, "No such file or directory")
        STATS[0] += 1
        return _NS(st_size=len(DISK[0]), st_mode=0o100644, st_mtime=1000.0 + STATS[0], st_ino=7, st_dev=1)
    fw = World(ctx.mod(FPATH), externals={"stat": stat, "os.stat": stat, "S_ISDIR": lambda m: (m & 0o170000) == 0o040000, "S_ISREG": lambda m: (m & 0o170000) == 0o100000,
                                          "comparable": lambda c: c, "implementer": lambda *a: (lambda c: c), "Logger": lambda *a, **k: NullLogger()})
    def open_(o, *a, **k):
        OPENED.append(_FileObj(DISK[0]))
        return OPENED[-1]
    fw.override("open", open_)
    w = _world(ctx)
    w.overrides.pop("getFileSize", None)
    w.link(fw)
    w.override("open", open_)
    return w


OPENED = []
DISK = [None]
STATS = [0]


def _fresh_evaluated(ctx):
    """BOUNDED: ONE File object answers requests, the file is rewritten (longer, shorter), the same object answers again: every answer is judged against the bytes on disk then"""
    w = _world_render(ctx)
    small, large = bytes(range(40)), bytes(range(200, 256)) * 3 + bytes(range(90))
    headers = [None, b"bytes=0-9", b"bytes=-5", b"bytes=30-", b"bytes=100-120", b"bytes=5-6,150-160", b"bytes=50-"]
    bad, n = [], 0
    for first, second in ((small, large), (large, small)):
        f = w.bare("File", type="text/plain", encoding=None, path="/t/f.txt", _statinfo=None)
        for content in (first, second, first):
            DISK[0] = content
            for h in headers:
                n += 1
                req, exc = _Request(h), None
                del OPENED[:]
                try:
                    f.render_GET(req)
                    for _ in range(4000):
                        if req.finished or req.producer is None:
                            break
                        req.producer.resumeProducing()
                    else:
                        exc = "<the producer never finishes>"
                except ModelRaised as e:
                    exc = e.name
                except InterpError as e:
                    if "step limit" not in str(e):
                        raise
                    exc = "<a loop that does not terminate>"
                why = _verdict(content, h, req, OPENED[-1] if OPENED else _FileObj(content), exc) + (["the file was opened %d times" % len(OPENED)] if len(OPENED) != 1 else [])
                if why:
                    bad.append((len(first), len(content), h, why))
    msg = ""
    if bad:
        s0, s1, h, why = bad[0]
        msg = (f"one File resource, file first {s0} bytes, now {s1} bytes on disk, {_hdr(h)}: " + "; ".join(why[:2]) + f"; {len(bad)} of {n} answers wrong "
               "(the answer is computed from a stat that was not taken during this request)")
    ctx.check(not bad, "fresh/rewritten-file", Q + "File.render_GET | <the file is rewritten between requests to one resource>", msg, detail=f"{n} answers")


def _known_overrun(ctx):
    c = bytes(range(256)) * 2
    w = _world(ctx, buffer_size=64)
    _run_grid(ctx, w, "range/part-boundary-overruns-buffer", Q + "MultipleRangeStaticProducer | a part separator pushes the chunk past bufferSize",
              [(c, b"bytes=0-1,2-3,4-5,6-7"), (c, b"bytes=0-40,50-60")], "multi-range answers with bufferSize 64")


MUTANTS = [
    Mutant("stat-refreshed-only-when-missing", S, "        self.restat(False)\n\n        if self.type is None:", "        if not self.exists():\n            self.restat(False)\n\n        if self.type is None:", expect_rule="fresh/"),
    Mutant("stat-refreshed-only-for-the-producer", S, "        self.restat(False)\n\n        if self.type is None:", "        if self.type is None:",
           more=[(S, "        producer = self.makeProducer(request, fileForReading)\n", "        self.restat(False)\n        producer = self.makeProducer(request, fileForReading)\n")], expect_rule="fresh/"),
    Mutant("revert-F25a-strict-decode-in-handler", S, "f\"{byteRange.decode('utf-8', 'replace')!r}\"", "f\"{byteRange.decode()!r}\""),
    Mutant("revert-F25b-unclamped-suffix", S, "            start = max(size - end, 0)\n", "            start = size - end\n"),
    Mutant("revert-F25c-unsatisfiable-multi-returns-tuple", S, "            return [(b\"\", 0, 0)]\n", "            return [], b\"\"\n", expect_rule="range/multi-unsatisfiable"),
    Mutant("revert-F25d-int-alone-parses-positions", S,
           "                if not start.strip().isdigit():\n                    raise ValueError(f\"Invalid Byte-Range: {byteRange!r}\")\n                start = int(start)\n",
           "                try:\n                    start = int(start)\n                except ValueError:\n                    raise ValueError(f\"Invalid Byte-Range: {byteRange!r}\")\n",
           expect_rule="range/lenient-integers",
           more=[(S, "                if not end.strip().isdigit():\n                    raise ValueError(f\"Invalid Byte-Range: {byteRange!r}\")\n                end = int(end)\n",
                  "                try:\n                    end = int(end)\n                except ValueError:\n                    raise ValueError(f\"Invalid Byte-Range: {byteRange!r}\")\n")]),
    Mutant("revert-F25e-empty-range-set-accepted", S, "        if not parsedRanges:\n            # A Range header must contain at least one byte range.\n            raise ValueError(\"Missing Byte-Range\")\n", "",
           expect_rule="range/empty-range-set"),
    Mutant("revert-F25f-negative-read-length", S, "                    max(self.bufferSize - dataLength, 0),\n", "                    self.bufferSize - dataLength,\n", expect_rule="range/part-boundary-overruns-buffer"),
    Mutant("digit-test-on-start-only", S, "                if not end.strip().isdigit():\n                    raise ValueError(f\"Invalid Byte-Range: {byteRange!r}\")\n                end = int(end)\n",
           "                try:\n                    end = int(end)\n                except ValueError:\n                    raise ValueError(f\"Invalid Byte-Range: {byteRange!r}\")\n",
           expect_rule="range/lenient-integers"),
    Mutant("last-byte-inclusive-off-by-one", S, "        elif end < size:\n            end += 1\n", "        elif end < size - 1:\n            end += 1\n"),
    Mutant("start-at-size-satisfiable", S, "        if start >= size:\n            start = end = 0\n", "        if start > size:\n            start = end = 0\n"),
    Mutant("content-range-exclusive-end", S, "\"bytes %d-%d/%d\" % (offset, offset + size - 1, self.getFileSize())", "\"bytes %d-%d/%d\" % (offset, offset + size, self.getFileSize())"),
    Mutant("reversed-range-test-by-truthiness", S, "                if end is not None and start > end:", "                if end and start > end:"),
    Mutant("parts-in-reverse-order", S, "        for start, end in byteRanges:\n            partOffset, partSize", "        for start, end in reversed(byteRanges):\n            partOffset, partSize"),
    Mutant("reversed-range-ge", S, "                if end is not None and start > end:", "                if end is not None and start >= end:"),
    Mutant("parser-raises-keyerror", S, "            raise ValueError(f\"Unsupported Bytes-Unit: {kind!r}\")", "            raise KeyError(f\"Unsupported Bytes-Unit: {kind!r}\")"),
    Mutant("content-length-default-on-falsy", S, "        if size is None:\n            size = self.getFileSize()\n        request.setHeader(b\"content-length\"",
           "        if not size:\n            size = self.getFileSize()\n        request.setHeader(b\"content-length\""),
    Mutant("single-416-test-offset-only", S, "        if offset == size == 0:\n            # This range doesn't overlap", "        if offset == 0:\n            # This range doesn't overlap"),
    Mutant("multi-length-misses-separator", S, "            contentLength += len(partSeparator)\n", ""),
    Mutant("multi-keeps-unsatisfiable-part", S, "            if partOffset == partSize == 0:\n                continue\n", ""),
    Mutant("single-read-unbounded", S, "        data = self.fileObject.read(min(self.bufferSize, self.size - self.bytesWritten))", "        data = self.fileObject.read(self.bufferSize)"),
    Mutant("single-no-seek", S, "        self.fileObject.seek(self.offset)\n        self.bytesWritten = 0\n", "        self.bytesWritten = 0\n"),
    Mutant("multi-read-ignores-part-size", S, "                min(\n                    max(self.bufferSize - dataLength, 0),\n                    self._partSize - self._partBytesWritten,\n                )",
           "                min(\n                    max(self.bufferSize - dataLength, 0),\n                    self._partSize,\n                )"),
    Mutant("dispatch-single-for-first-of-many", S, "        if len(parsedRanges) == 1:\n            offset, size", "        if len(parsedRanges) >= 1:\n            offset, size"),
]
SILENT = [
    Silent("stat-cache-cleared-instead-of-refreshed", S, "        self.restat(False)\n\n        if self.type is None:", "        self.changed()\n\n        if self.type is None:"),
    Silent("stat-refreshed-after-the-type-lookup", S, "        self.restat(False)\n\n        if self.type is None:", "        if self.type is None:",
           more=[(S, "                self.defaultType,\n            )\n\n        if not self.exists():", "                self.defaultType,\n            )\n\n        self.restat(False)\n        if not self.exists():")]),
    Silent("range-spec-parsing-in-helpers", S,
           "            if start:\n                if not start.strip().isdigit():\n                    raise ValueError(f\"Invalid Byte-Range: {byteRange!r}\")\n                start = int(start)\n            else:\n                start = None\n",
           "            start = self._position(start, byteRange)\n",
           more=[(S, "    def _rangeToOffsetAndSize(self, start, end):",
                  "    @staticmethod\n    def _position(text, spec):\n        if not text:\n            return None\n        if not text.strip().isdigit():\n            raise ValueError(f\"Invalid Byte-Range: {spec!r}\")\n        return int(text)\n\n    def _rangeToOffsetAndSize(self, start, end):")]),
    Silent("no-range-producer-helper-and-flagless-multi", S, "        if not matchingRangeFound:\n            request.setResponseCode(http.REQUESTED_RANGE_NOT_SATISFIABLE)", "        if len(rangeInfo) == 0:\n            request.setResponseCode(http.REQUESTED_RANGE_NOT_SATISFIABLE)"),
    Silent("digit-test-branches-swapped", S, "                if not end.strip().isdigit():\n                    raise ValueError(f\"Invalid Byte-Range: {byteRange!r}\")\n                end = int(end)\n",
           "                if end.strip().isdigit():\n                    end = int(end)\n                else:\n                    raise ValueError(f\"Invalid Byte-Range: {byteRange!r}\")\n"),
    Silent("empty-range-set-tested-before-the-loop", S, "        if not parsedRanges:\n            # A Range header must contain at least one byte range.\n            raise ValueError(\"Missing Byte-Range\")\n", "",
           more=[(S, "        parsedRanges = []\n        for byteRange in unparsedRanges:", "        if len(unparsedRanges) == 0:\n            raise ValueError(\"Missing Byte-Range\")\n        parsedRanges = []\n        for byteRange in unparsedRanges:")]),
    Silent("unsatisfiable-multi-empty-part-as-list-of-one", S, "            return [(b\"\", 0, 0)]\n", "            noPart = (b\"\", 0, 0)\n            return [noPart]\n"),
    Silent("buffer-room-clamped-by-name", S, "            p = self.fileObject.read(\n                min(\n                    max(self.bufferSize - dataLength, 0),\n                    self._partSize - self._partBytesWritten,\n                )\n            )",
           "            room = self.bufferSize - dataLength\n            if room < 0:\n                room = 0\n            p = self.fileObject.read(min(room, self._partSize - self._partBytesWritten))"),
    Silent("parts-loop-enumerate", S, "        for start, end in byteRanges:\n            partOffset, partSize", "        for _idx, (start, end) in enumerate(byteRanges):\n            partOffset, partSize"),
    Silent("reversed-range-flattened-with-none-tests", S, "            if start is not None:\n                if end is not None and start > end:\n                    # Start must be less than or equal to end or it is invalid.\n                    raise ValueError(f\"Invalid Byte-Range: {byteRange!r}\")\n            elif end is None:",
           "            if start is not None and end is not None and start > end:\n                raise ValueError(f\"Invalid Byte-Range: {byteRange!r}\")\n            if start is None and end is None:"),
    Silent("content-range-fstring", S, "        return networkString(\n            \"bytes %d-%d/%d\" % (offset, offset + size - 1, self.getFileSize())\n        )",
           "        last = offset + size - 1\n        total = self.getFileSize()\n        return f\"bytes {offset}-{last}/{total}\".encode(\"ascii\")"),
    Silent("range-arithmetic-rewritten", S, "        size = self.getFileSize()\n        if start is None:\n            start = max(size - end, 0)\n            end = size\n        elif end is None:\n            end = size\n        elif end < size:\n            end += 1\n        elif end > size:\n            end = size\n        if start >= size:\n            start = end = 0\n        return start, (end - start)",
           "        size = self.getFileSize()\n        if start is None:\n            first, stop = max(size - end, 0), size\n        else:\n            first = start\n            stop = size if end is None else min(end + 1, size)\n        if first >= size:\n            return 0, 0\n        return first, stop - first"),
    Silent("suffix-clamp-rewritten", S, "            start = max(size - end, 0)\n", "            start = size - end\n            if start < 0:\n                start = 0\n"),
    Silent("end-clamp-min", S, "        elif end < size:\n            end += 1\n        elif end > size:\n            end = size\n", "        else:\n            end = min(end + 1, size)\n"),
    Silent("handler-backslashreplace", S, "f\"{byteRange.decode('utf-8', 'replace')!r}\"", "f\"{byteRange.decode('ascii', errors='backslashreplace')!r}\""),
    Silent("reversed-range-flipped", S, "                if end is not None and start > end:", "                if end is not None and end < start:"),
    Silent("content-range-reordered", S, "\"bytes %d-%d/%d\" % (offset, offset + size - 1, self.getFileSize())", "\"bytes %d-%d/%d\" % (offset, size - 1 + offset, self.getFileSize())"),
    Silent("single-status-branches-swapped", S,
           "        if offset == size == 0:\n            # This range doesn't overlap with any of this resource, so the\n            # request is unsatisfiable.\n            request.setResponseCode(http.REQUESTED_RANGE_NOT_SATISFIABLE)\n            request.setHeader(\n                b\"content-range\", networkString(\"bytes */%d\" % (self.getFileSize(),))\n            )\n        else:\n            request.setResponseCode(http.PARTIAL_CONTENT)\n            request.setHeader(b\"content-range\", self._contentRange(offset, size))\n",
           "        if not (offset == 0 and size == 0):\n            request.setResponseCode(http.PARTIAL_CONTENT)\n            request.setHeader(b\"content-range\", self._contentRange(offset, size))\n        else:\n            request.setResponseCode(http.REQUESTED_RANGE_NOT_SATISFIABLE)\n            request.setHeader(\n                b\"content-range\", networkString(\"bytes */%d\" % (self.getFileSize(),))\n            )\n"),
]
