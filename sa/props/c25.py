"""C25 - static file range requests return exactly the requested bytes."""
from __future__ import annotations

import ast

from sa.astx import NotConst, call_attr, call_name, const_eval, lin_expect, lincmp, src, walk_local
from sa.selftest import Mutant, Silent
from sa.source import AnalysisError
from sa.props._lib_f import (InterpError, assign_sites, call_sites, cmp_polarity, enclosing_try_handlers, from_here, handler_names,
                             interpret, is_self_attr, local_assignments, named_calls, none_guard, param_names, resolver, subst_eval, truth_guard)

PROPERTY = "C25"
S = "web/static.py"
Q = "twisted.web.static."
TECHNIQUE = "finite-domain interpretation of the range arithmetic + CFG/exception-escape rules"
EXPLANATION = (
    "Decides: (a) File._rangeToOffsetAndSize and _contentRange are interpreted (whitelisted evaluator, no execution) for every file size 1..9 and "
    "every first/last/suffix value 0..12 and must equal the RFC 9110 oracle (offset, length) resp. 'bytes a-b/size' - this contains F25b (suffix "
    "longer than the file, fixed); (b) exception escape: _parseRangeHeader raises only ValueError, every int()/unpack is under a ValueError handler, "
    "makeProducer catches it and its handler touches the raw header only leniently (F25a, fixed), the reversed / empty range tests are the spec's, and the parser itself is evaluated on ~330 header values (0 in every position, reversed, empty, non-numeric, lists) against an RFC 9110 oracle; _doMultipleRangeRequest is evaluated on multi-range requests with suffix/open-ended parts (request order, Content-Length, no exception); "
    "(c) response assembly: 416 exactly on the (0,0) outcome, 206 otherwise, Content-Length from the computed size with `is None` defaulting, "
    "single/multiple dispatch on len()==1, multipart Content-Length accumulates exactly the separators and part sizes that are appended, separator "
    "and final boundary formats, the value handed to MultipleRangeStaticProducer is a non-empty list of triples on every return; (d) the producers "
    "seek to the offset, never read past the part (min(.., size - written)), count what they write and finish exactly at size. "
    "Known findings: multi-range with no satisfiable part and an empty range-set crash with ValueError (500); int() accepts signs/underscores. "
    "Not decided: bytes on the wire for arbitrary reactor schedules; file size 0 (RFC text is ambiguous there)."
)
ASSUMPTIONS = ["_rangeToOffsetAndSize is piecewise linear with breakpoints at 0, size-1, size: the finite domain 1..9 x 0..12 covers every region",
               "getFileSize() is constant during one request"]


# ---- RFC 9110 section 14.1.2 oracle, written independently of the code under analysis ----------------
def oracle(size, first, last):
    """(offset, length) of the satisfiable part, or None when unsatisfiable.  first None = suffix."""
    if first is None:
        if last == 0:
            return None
        off = max(size - last, 0)
        return off, size - off
    if first >= size:
        return None
    end = size - 1 if last is None else min(last, size - 1)
    return first, end - first + 1


def check(ctx):
    with ctx.section("arithmetic"):
        _arithmetic(ctx)
    with ctx.section("content-range"):
        _content_range(ctx)
    with ctx.section("parse"):
        _parse(ctx)
    with ctx.section("parse-evaluated"):
        _parse_evaluated(ctx)
    with ctx.section("multiple-evaluated"):
        _multiple_evaluated(ctx)
    with ctx.section("make-producer"):
        _make_producer(ctx)
    with ctx.section("single"):
        _single(ctx)
    with ctx.section("multiple"):
        _multiple(ctx)
    with ctx.section("producers"):
        _producers(ctx)


def _arithmetic(ctx):
    f = ctx.func(S, "File._rangeToOffsetAndSize")
    q = Q + "File._rangeToOffsetAndSize"
    ps = param_names(f)
    bad = []
    n = 0
    try:
        for size in range(1, 10):
            for first in [None] + list(range(0, 13)):
                for last in [None] + list(range(0, 13)):
                    if first is None and last is None:
                        continue
                    if first is not None and last is not None and first > last:
                        continue
                    n += 1
                    kind, val = interpret(f, {ps[1]: first, ps[2]: last, "self": None}, {"self.getFileSize()": size, "self.getsize()": size})
                    exp = oracle(size, first, last) or (0, 0)
                    if kind != "return" or tuple(val) != exp:
                        bad.append((size, first, last, val, exp))
    except InterpError as e:
        raise AnalysisError(f"C25: _rangeToOffsetAndSize is no longer a pure loop-free function the evaluator can interpret: {e}")
    msg = ""
    if bad:
        s_, a, b, got, exp = bad[0]
        rng = f"-{b}" if a is None else f"{a}-{'' if b is None else b}"
        msg = f"Range: bytes={rng} on a {s_}-byte file gives (offset, size) = {got}, RFC 9110: {exp}; {len(bad)} of {n} cases differ"
    ctx.check(not bad, "arith/range-to-offset", q, msg, detail=f"{n} (size, first, last) cases equal the oracle")
    ctx.extra["finite_cases_range_arithmetic"] = n


def _content_range(ctx):
    f = ctx.func(S, "File._contentRange")
    q = Q + "File._contentRange"
    ps = param_names(f)
    bad = []
    funcs = {"networkString": lambda s_: s_.encode("ascii"), "nativeString": lambda s_: s_.decode("ascii") if isinstance(s_, bytes) else s_}
    try:
        for size in (1, 7, 10, 12345):
            for off in (0, 1, 6):
                for ln in (1, 2, 5):
                    kind, got = interpret(f, {ps[1]: off, ps[2]: ln, "self": None}, {"self.getFileSize()": size, "self.getsize()": size}, funcs=funcs)
                    if isinstance(got, bytes):
                        got = got.decode()
                    if kind != "return" or got != f"bytes {off}-{off + ln - 1}/{size}":
                        bad.append((off, ln, size, got))
    except InterpError as ex:
        raise AnalysisError(f"C25: _contentRange uses a construct the evaluator cannot interpret: {ex}")
    ctx.check(not bad, "arith/content-range", q, f"Content-Range for (offset, size, total) = {bad[0][:3]} is {bad[0][3]!r}" if bad else "")


def _parse(ctx):
    f = ctx.func(S, "File._parseRangeHeader")
    g = ctx.cfg(f)
    q = Q + "File._parseRangeHeader"
    raises = g.ids(lambda x: x.kind == "stmt" and isinstance(x.ast, ast.Raise))
    for r in raises:
        st = g.node(r).ast
        e = st.exc.func if isinstance(st.exc, ast.Call) else st.exc
        ctx.check(e is not None and src(e) == "ValueError", "parse/raises-only-valueerror", ctx.construct(q, st),
                  "a malformed Range header raises something other than ValueError, which makeProducer does not catch (500 instead of the whole content)")
    ctx.floor("parse/raises-only-valueerror", len(raises), 5)
    # implicit raisers: int() and tuple-unpacking of split() must be under `except ValueError`
    sites = [c for c in walk_local(f) if isinstance(c, ast.Call) and call_name(c) == "int"] + \
            [s for s in walk_local(f) if isinstance(s, ast.Assign) and any(isinstance(t, (ast.Tuple, ast.List)) for t in s.targets)]
    for s in sites:
        hs = enclosing_try_handlers(f, s)
        ok = any(nm in ("ValueError", "Exception", "<bare>", "BaseException") for h in hs for nm in handler_names(h))
        ctx.check(ok, "parse/implicit-errors-converted", ctx.construct(q, s), "a conversion / unpacking that fails on a malformed header is not inside `except ValueError`")
    ctx.floor("parse/implicit-errors-converted", len(sites), 4)
    # numeric fields must be 1*DIGIT: int() alone also accepts '+5', '-5', '1_0', ' 5'
    for c in [c for c in walk_local(f) if isinstance(c, ast.Call) and call_name(c) == "int"]:
        arg = src(c.args[0]) if c.args else ""
        nid = g.ids_of(c)
        digits = any(isinstance(g.node(t).ast, ast.Call) and call_name(g.node(t).ast) == f"{arg}.isdigit" and lab == "T" for n_ in nid for t, lab in g.edge_guards(n_))
        ctx.check(digits or call_name(c) == "_decint", "parse/digits-only", ctx.construct(q, c),
                  "a byte position is converted with bare int(): 'bytes=+1-2' and 'bytes=1_0-' are served as ranges and 'bytes=--5' answers 416 although the header is malformed "
                  "(RFC 9110: 1*DIGIT; the property demands the whole content with 200)")
    # unit test
    units = [r for r in raises if any(cmp_polarity(g.node(t).ast, "kind", "b'bytes'") is not None and (cmp_polarity(g.node(t).ast, "kind", "b'bytes'") != (lab == "T"))
                                      for t, lab in g.edge_guards(r))]
    ctx.check(len(units) == 1, "parse/unit-bytes", q, "a range unit other than 'bytes' is not refused")
    # reversed range and empty spec
    rev = [r for r in raises if any(lincmp(g.node(t).ast, negate=(lab == "F")) == lin_expect({"start": 1, "end": -1}, 1) for t, lab in g.edge_guards(r))]
    ctx.check(len(rev) == 1 and none_guard(g, rev[0], "start", False) and none_guard(g, rev[0], "end", False), "parse/reversed-range", q,
              "a byte-range is not refused exactly when first > last (bytes=5-5 is valid, bytes=6-5 is not)")
    both = [r for r in raises if none_guard(g, r, "start", True) and none_guard(g, r, "end", True)]
    ctx.check(len(both) >= 1, "parse/empty-spec", q, "a range-spec with neither first nor last ('-') is not refused")
    app = call_sites(g, lambda c: call_name(c) == "parsedRanges.append")
    ctx.check(len(app) == 1 and src(app[0][1].args[0]) == "(start, end)", "parse/result", q, "parsed ranges are not collected as (start, end) pairs")
    # the result must not be empty (the callers index [0] / hand the list to the multi-range path)
    rets = g.ids(lambda x: x.kind == "stmt" and isinstance(x.ast, ast.Return))
    for r in rets:
        v = src(g.node(r).ast.value)
        ok = truth_guard(g, r, v, True) or truth_guard(g, r, "unparsedRanges", True) or any(
            lincmp(g.node(t).ast, negate=(lab == "F")) in (lin_expect({f"len({v})": 1}, 1), lin_expect({"len(unparsedRanges)": 1}, 1)) for t, lab in g.edge_guards(r))
        ctx.check(ok, "parse/nonempty-result", ctx.construct(q, g.node(r).ast),
                  "an empty range-set ('bytes=' or 'bytes=,') is returned as an empty list although the contract is 'length at least one': makeProducer takes the multi-range path "
                  "with no ranges and the producer crashes (500)")


# ---- the Range parser, evaluated --------------------------------------------------------------------------------------
def rfc_ranges(value: bytes):
    """RFC 9110 14.1.1/14.1.2 oracle: list of (first, last) with None for an absent position, or None when the header is malformed."""
    if b"=" not in value:
        return None
    unit, rest = value.split(b"=", 1)
    if unit != b"bytes":
        return None
    out = []
    for spec in rest.split(b","):
        spec = spec.strip(b" \t")
        if not spec:
            continue                                   # empty list elements are tolerated (RFC 9110 5.6.1.2)
        if b"-" not in spec:
            return None
        a, b = spec.split(b"-", 1)
        if (a and not a.isdigit()) or (b and not b.isdigit()):
            return None
        if not a and not b:
            return None
        first = int(a) if a else None
        last = int(b) if b else None
        if first is not None and last is not None and first > last:
            return None
        out.append((first, last))
    return out or None


SPECS = [b"0-0", b"5-0", b"0-", b"-0", b"1-0", b"5-5", b"6-5", b"3-", b"-3", b"-", b"a-b", b"1-a", b"a-1", b"10-20", b"0-1", b"7", b"1-2-3", b"-1-2"]


def _range_values():
    vals = [b"bytes=" + s_ for s_ in SPECS]
    vals += [b"bytes=" + a + sep + b for a in SPECS[:12] for b in SPECS[:12] for sep in (b",", b", ")]
    vals += [b"bytes=0-0,3-0", b"bytes=1-2,,4-5", b"kilos=1-2", b"bytes 1-2", b"1-2", b"", b"=", b"bytes=1-2,4-,-7", b"BYTES=1-2", b"bytes=0-0,0-0"]
    # inputs on which today's parser is knowingly lenient (known findings F25d/F25e) are not part of this grid: signs/underscores/inner blanks, the empty range-set
    return [v for v in vals if rfc_ranges(v) is not None or not (v.endswith(b"=") or b"=," == v[-2:])]


def _parse_evaluated(ctx):
    f = ctx.func(S, "File._parseRangeHeader")
    q = Q + "File._parseRangeHeader"
    pn = param_names(f)[1]
    bad = []
    n = 0
    try:
        for v in _range_values():
            if v in (b"bytes=-1-2",):
                continue                               # int(b'-1') leniency: F25d
            n += 1
            kind, got = interpret(f, {pn: v, "self": None})
            want = rfc_ranges(v)
            if want is None:
                if not (kind == "raise" and got == "ValueError"):
                    bad.append((v, f"{kind} {got!r}", "ValueError (malformed: the whole content is served)"))
            elif kind != "return" or [tuple(x) for x in got] != want:
                bad.append((v, f"{kind} {got!r}", repr(want)))
    except InterpError as e:
        raise AnalysisError(f"C25: _parseRangeHeader uses a construct the evaluator cannot interpret: {e}")
    msg = f"Range: {bad[0][0].decode('latin-1')} is parsed as {bad[0][1]}, RFC 9110: {bad[0][2]}; {len(bad)} of {n} header values differ" if bad else ""
    ctx.check(not bad, "parse/evaluated", q, msg, detail=f"{n} header values equal the oracle")
    ctx.extra["finite_cases_range_parser"] = n


class _Req:
    _sa_model = True

    def __init__(self):
        self.code = None
        self.headers = {}

    def setResponseCode(self, code, *a):
        self.code = code

    def setHeader(self, k, v):
        self.headers[k.lower()] = v


def _multiple_evaluated(ctx):
    f = ctx.func(S, "File._doMultipleRangeRequest")
    conv = ctx.func(S, "File._rangeToOffsetAndSize")
    cr = ctx.func(S, "File._contentRange")
    q = Q + "File._doMultipleRangeRequest"
    ps = param_names(f)
    bad = []
    n = 0
    size = 10
    base = {"self.getFileSize()": size, "self.getsize()": size, "self.type": "text/plain", "http.PARTIAL_CONTENT": 206, "http.REQUESTED_RANGE_NOT_SATISFIABLE": 416}
    common = {"networkString": lambda s_: s_.encode("ascii"), "nativeString": lambda s_: s_.decode("ascii") if isinstance(s_, bytes) else s_,
              "time.time": lambda: 1.5, "os.getpid": lambda: 4242}

    def sub(fn):
        def run(*args):
            kind, val = interpret(fn, dict(zip(param_names(fn)[1:], args), self=None), base, funcs=common)
            if kind == "raise":
                raise RuntimeError(val)
            return val
        return run
    funcs = dict(common)
    funcs["self._rangeToOffsetAndSize"] = sub(conv)
    funcs["self._contentRange"] = sub(cr)
    cases = [[(0, 0), (2, 3)], [(2, 3), (0, 0)], [(5, None), (0, 1)], [(None, 3), (0, 0)], [(0, 0), (None, 3)], [(8, None), (None, 2), (1, 1)], [(0, 0), (50, 60)], [(50, 60), (4, 5)],
             [(9, 100), (0, 0)], [(3, 3), (3, 3)]]
    try:
        for ranges in cases:
            n += 1
            req = _Req()
            kind, val = interpret(f, {ps[1]: req, ps[2]: list(ranges), "self": None}, base, funcs=funcs)
            want = [oracle(size, a, b) for a, b in ranges]
            want = [w for w in want if w is not None]
            if kind != "return":
                bad.append((ranges, f"raises {val}"))
                continue
            try:
                parts = [(o, s_) for sep, o, s_ in val if (o, s_) != (0, 0) or sep and not sep.endswith(b"--\r\n")]
                seps = [sep for sep, o, s_ in val]
            except Exception:
                bad.append((ranges, f"returns {val!r}"))
                continue
            if parts != want:
                bad.append((ranges, f"sends the parts {parts}, requested order is {want}"))
            elif req.code != 206:
                bad.append((ranges, f"answers {req.code}"))
            elif req.headers.get(b"content-length") != str(sum(len(x) for x in seps) + sum(s_ for o, s_ in parts)).encode():
                bad.append((ranges, f"announces Content-Length {req.headers.get(b'content-length')!r}, the body has {sum(len(x) for x in seps) + sum(s_ for o, s_ in parts)} bytes"))
    except InterpError as e:
        raise AnalysisError(f"C25: _doMultipleRangeRequest uses a construct the evaluator cannot interpret: {e}")
    msg = ""
    if bad:
        r_, why = bad[0]
        hdr = ",".join(("-%d" % b if a is None else "%d-%s" % (a, "" if b is None else b)) for a, b in r_)
        msg = f"Range: bytes={hdr} on a {size}-byte file: {why}; {len(bad)} of {n} multi-range requests wrong"
    ctx.check(not bad, "multi/evaluated", q, msg, detail=f"{n} multi-range requests")


LENIENT = {"replace", "ignore", "backslashreplace", "surrogateescape"}


def _make_producer(ctx):
    f = ctx.func(S, "File.makeProducer")
    g = ctx.cfg(f)
    q = Q + "File.makeProducer"
    hdr = [st for st in walk_local(f) if isinstance(st, ast.Assign) and isinstance(st.value, ast.Call) and call_attr(st.value) == "getHeader" and
           const_or_none(st.value.args[0]) == b"range"]
    ctx.need(len(hdr) == 1 and isinstance(hdr[0].targets[0], ast.Name), "byteRange = request.getHeader(b'range')")
    raw = hdr[0].targets[0].id
    pr = named_calls(g, "self._parseRangeHeader")
    ctx.check(len(pr) == 1, "escape/parse-guarded", q, "the Range header is not parsed exactly once")
    for n, c in pr:
        hs = enclosing_try_handlers(f, c)
        ok = any("ValueError" in handler_names(h) or "Exception" in handler_names(h) for h in hs)
        ctx.check(ok and none_guard(g, n, raw, False), "escape/parse-guarded", ctx.construct(q, c), "ValueError from the Range parser is not caught (or the header may be None)")
        for h in hs:
            # untrusted bytes inside the handler: only lenient decoding / repr
            for c2 in [x for x in ast.walk(h) if isinstance(x, ast.Call)]:
                uses = any(isinstance(x, ast.Name) and x.id == raw for a in list(c2.args) + [k.value for k in c2.keywords] for x in ast.walk(a)) or \
                    (isinstance(c2.func, ast.Attribute) and src(c2.func.value) == raw)
                if not uses:
                    continue
                nm = call_attr(c2)
                if nm == "decode" and src(c2.func.value) == raw:
                    err = c2.args[1] if len(c2.args) > 1 else next((k.value for k in c2.keywords if k.arg == "errors"), None)
                    ok2 = isinstance(err, ast.Constant) and err.value in LENIENT
                    ctx.check(ok2, "escape/handler-lenient", ctx.construct(q, c2),
                              "the malformed-header handler decodes the raw header strictly: `Range: \\xff` raises UnicodeDecodeError inside the handler (500 instead of the whole content)")
                elif nm in ("nativeString", "str", "encode", "int", "float"):
                    direct = any(src(a) == raw for a in c2.args)
                    ctx.check(not direct, "escape/handler-lenient", ctx.construct(q, c2), "the malformed-header handler converts the raw header with a call that can raise")
            # the handler serves the whole content with 200
            hid = g.ids_of(h)
            ok_code = [m for m, c3 in named_calls(g, "request.setResponseCode") if src(c3.args[0]) == "http.OK"]
            whole = [m for m, c3 in named_calls(g, "NoRangeStaticProducer")]
            w = from_here(g, hid, set(ok_code)) or from_here(g, hid, set(whole))
            ctx.check(w is None, "dispatch/malformed-whole", q + f" | except {'/'.join(handler_names(h))}", "a malformed Range header is not answered with 200 and the whole content", witness=g.describe(w))
            for m, c3 in named_calls(g, "self._setContentHeaders"):
                if any(x is c3 for x in ast.walk(h)):
                    ctx.check(len(c3.args) == 1, "dispatch/malformed-whole", ctx.construct(q, c3), "the whole-content answer is given a partial Content-Length")
    # absent header
    whole = named_calls(g, "NoRangeStaticProducer")
    ctx.check(any(none_guard(g, n, raw, True) for n, c in whole), "dispatch/absent-whole", q, "an absent Range header is not answered with the whole content")
    # single / multiple
    sg = named_calls(g, "SingleRangeStaticProducer")
    mp = named_calls(g, "MultipleRangeStaticProducer")
    ctx.check(len(sg) == 1 and len(mp) == 1, "dispatch/single-vs-multiple", q, "makeProducer does not have one single-range and one multi-range branch")
    for n, c in sg:
        ok = any(cmp_polarity(g.node(t).ast, "len(parsedRanges)", "1") is not None and (cmp_polarity(g.node(t).ast, "len(parsedRanges)", "1") == (lab == "T")) for t, lab in g.edge_guards(n))
        ctx.check(ok, "dispatch/single-vs-multiple", ctx.construct(q, c), "the single-range answer is not chosen exactly for one parsed range")
        d = [st for st in walk_local(f) if isinstance(st, ast.Assign) and isinstance(st.value, ast.Call) and call_name(st.value) == "self._doSingleRangeRequest"]
        ok = len(d) == 1 and isinstance(d[0].targets[0], ast.Tuple) and [src(a) for a in c.args][2:] == [src(e) for e in d[0].targets[0].elts] and \
            [src(a) for a in d[0].value.args] == [param_names(f)[1], "parsedRanges[0]"] and [src(a) for a in c.args][:2] == param_names(f)[1:3]
        ctx.check(ok, "dispatch/single-args", ctx.construct(q, c), "the producer is not given the (offset, size) computed by _doSingleRangeRequest for parsedRanges[0]")
        if ok:
            size_name = src(d[0].targets[0].elts[1])
            sch = [c3 for m, c3 in named_calls(g, "self._setContentHeaders") if len(c3.args) == 2 and src(c3.args[1]) == size_name]
            ctx.check(len(sch) == 1 and g.must_precede(g.ids_of(sch[0]), [n]) is None, "dispatch/single-args", q + " | Content-Length of the part",
                      "Content-Length of a single-range answer is not the computed part size")
    for n, c in mp:
        d = [st for st in walk_local(f) if isinstance(st, ast.Assign) and isinstance(st.value, ast.Call) and call_name(st.value) == "self._doMultipleRangeRequest"]
        ok = len(d) == 1 and [src(a) for a in c.args] == param_names(f)[1:3] + [src(d[0].targets[0])] and [src(a) for a in d[0].value.args] == [param_names(f)[1], "parsedRanges"]
        ctx.check(ok, "dispatch/multi-args", ctx.construct(q, c), "the multi-range producer is not given the rangeInfo computed for all parsed ranges")

    f = ctx.func(S, "File._setContentHeaders")
    g = ctx.cfg(f)
    q = Q + "File._setContentHeaders"
    sp = param_names(f)[2]
    for st in local_assignments(f, sp):
        ok = all(any(cmp_polarity(g.node(t).ast, sp, "None") is not None and cmp_polarity(g.node(t).ast, sp, "None") == (lab == "T") for t, lab in g.edge_guards(i)) for i in g.ids_of(st))
        ctx.check(ok and src(st.value) == "self.getFileSize()", "headers/content-length", ctx.construct(q, st),
                  "the size is defaulted to the file size under a test other than `size is None`: a zero-length answer (416) would announce the whole file")
    cl = [c for n, c in named_calls(g, "request.setHeader") if const_or_none(c.args[0]) == b"content-length"]
    ok = len(cl) == 1 and isinstance(cl[0].args[1], ast.BinOp) and const_or_none(cl[0].args[1].left) == b"%d" and src(cl[0].args[1].right) in (f"({sp},)", sp)
    ctx.check(ok, "headers/content-length", q + " | value", "Content-Length is not the decimal size")


def const_or_none(node):
    try:
        return const_eval(node)
    except NotConst:
        return None


def _status_sites(g, code):
    return [n for n, c in named_calls(g, "request.setResponseCode") if c.args and src(c.args[0]) == "http." + code]


def _single(ctx):
    f = ctx.func(S, "File._doSingleRangeRequest")
    g = ctx.cfg(f)
    q = Q + "File._doSingleRangeRequest"
    conv = [st for st in walk_local(f) if isinstance(st, ast.Assign) and isinstance(st.value, ast.Call) and call_name(st.value) == "self._rangeToOffsetAndSize"]
    ctx.need(len(conv) == 1 and isinstance(conv[0].targets[0], ast.Tuple), "offset, size = self._rangeToOffsetAndSize(...)")
    off, size = [src(e) for e in conv[0].targets[0].elts]
    unp = [st for st in walk_local(f) if isinstance(st, ast.Assign) and src(st.value) == param_names(f)[2]]
    ok = len(unp) == 1 and isinstance(unp[0].targets[0], ast.Tuple) and [src(a) for a in conv[0].value.args] == [src(e) for e in unp[0].targets[0].elts]
    ctx.check(ok, "single/args", q, "the (start, end) pair is not passed on in order")
    uns = _status_sites(g, "REQUESTED_RANGE_NOT_SATISFIABLE")
    par = _status_sites(g, "PARTIAL_CONTENT")
    ctx.check(len(uns) == 1 and len(par) == 1, "single/status", q, "416 / 206 are not each set at one site")

    def reach_mismatch(n, want_zero):
        """cases (offset, size) in {0,1}^2 where reachability of node n (tests on offset/size resolved) is not `(offset, size) == (0, 0)` == want_zero"""
        bad = []
        for o in (0, 1):
            for s_ in (0, 1):
                R = g.reach([g.entry], edge_ok=resolver(g, {off: o, size: s_}))
                if (n in R) != (((o, s_) == (0, 0)) == want_zero):
                    bad.append((o, s_))
        return bad
    for n in uns:
        bad = reach_mismatch(n, True)
        ctx.check(not bad, "single/status", ctx.construct(q, g.node(n).ast), f"416 is not answered exactly for the unsatisfiable (0, 0) outcome (wrong for (offset, size) in {bad})")
    for n in par:
        bad = reach_mismatch(n, False)
        ctx.check(not bad, "single/status", ctx.construct(q, g.node(n).ast), f"206 is not answered exactly for a satisfiable range (wrong for (offset, size) in {bad})")
        crs = [m for m, c in named_calls(g, "request.setHeader") if const_or_none(c.args[0]) == b"content-range" and src(c.args[1]) == f"self._contentRange({off}, {size})"]
        w = g.must_pass([n], crs, exc=False)
        ctx.check(bool(crs) and w is None, "single/content-range", q + " | 206", "a 206 answer lacks the Content-Range of the computed part", witness=g.describe(w))
    for n in uns:
        crs = [m for m, c in named_calls(g, "request.setHeader") if const_or_none(c.args[0]) == b"content-range" and "bytes */%d" in src(c.args[1]) and "self.getFileSize()" in src(c.args[1])]
        w = g.must_pass([n], crs, exc=False)
        ctx.check(bool(crs) and w is None, "single/content-range", q + " | 416", "a 416 answer lacks `Content-Range: bytes */size`", witness=g.describe(w))
    rets = g.ids(lambda x: x.kind == "stmt" and isinstance(x.ast, ast.Return))
    ctx.check(all(src(g.node(r).ast.value) == f"({off}, {size})" for r in rets) and rets, "single/args", q + " | result", "the computed (offset, size) is not returned")


def _multiple(ctx):
    f = ctx.func(S, "File._doMultipleRangeRequest")
    g = ctx.cfg(f)
    q = Q + "File._doMultipleRangeRequest"
    rp = param_names(f)[2]
    loops = [s for s in walk_local(f) if isinstance(s, ast.For) and any(isinstance(c, ast.Call) and call_name(c) == "self._rangeToOffsetAndSize" for c in ast.walk(s))]
    ctx.need(len(loops) == 1, "the loop over the requested ranges (the one that calls self._rangeToOffsetAndSize)")
    loop = loops[0]
    it = src(loop.iter)
    in_order = it in (rp, f"list({rp})", f"tuple({rp})", f"iter({rp})", f"enumerate({rp})", f"range(len({rp}))", f"{rp}[:]")
    ctx.check(in_order, "multi/part-order", ctx.construct(q, loop),
              f"the parts are produced by iterating `{it}`, not the parsed ranges in request order: sorted()/reversed()/set() reorder the parts (and sorting pairs containing None "
              "raises TypeError for suffix / open-ended ranges: a 500)")
    pair = loop.target
    if it.startswith("enumerate(") and isinstance(pair, ast.Tuple) and len(pair.elts) == 2 and isinstance(pair.elts[1], ast.Tuple):
        pair = pair.elts[1]
    if not isinstance(pair, ast.Tuple) or len(pair.elts) != 2:
        ctx.note("multi-range loop target is not a (start, end) pair: per-part structural rules skipped, the evaluation rule judges")
        return
    apps = [(n, c) for n, c in call_sites(g, lambda c: call_attr(c) == "append" and isinstance(c.func, ast.Attribute) and isinstance(c.func.value, ast.Name))
            if c.args and isinstance(c.args[0], ast.Tuple) and len(c.args[0].elts) == 3]
    lst = {src(c.func.value) for n, c in apps}
    ctx.check(len(lst) == 1 and len(apps) == 2, "multi/parts", q, "rangeInfo is not built from one per-part append and one final-boundary append of 3-tuples")
    info = next(iter(lst)) if lst else "rangeInfo"
    inloop = [(n, c) for n, c in apps if any(x is c for x in ast.walk(loop))]
    final = [(n, c) for n, c in apps if not any(x is c for x in ast.walk(loop))]
    conv = [st for st in ast.walk(loop) if isinstance(st, ast.Assign) and isinstance(st.value, ast.Call) and call_name(st.value) == "self._rangeToOffsetAndSize"]
    ctx.need(len(conv) == 1 and isinstance(conv[0].targets[0], ast.Tuple), "partOffset, partSize = self._rangeToOffsetAndSize(start, end)")
    off, size = [src(e) for e in conv[0].targets[0].elts]
    ctx.check([src(a) for a in conv[0].value.args] == [src(e) for e in pair.elts], "multi/parts", q + " | conversion args", "start/end are not passed on in order")
    augs = [(n, st) for n, st in assign_sites(g, lambda x: isinstance(x, ast.Name)) if isinstance(st, ast.AugAssign) and isinstance(st.op, ast.Add)]
    for n, c in inloop:
        sep, o, s = [src(e) for e in c.args[0].elts]
        ctx.check((o, s) == (off, size), "multi/parts", ctx.construct(q, c), "a part is not recorded with the computed (offset, size)")
        # skip of unsatisfiable parts (tests on the computed offset/size resolved per case)
        bad = []
        for a_ in (0, 1):
            for b_ in (0, 1):
                R = g.reach([g.entry], edge_ok=resolver(g, {off: a_, size: b_}))
                if (n in R) != ((a_, b_) != (0, 0)):
                    bad.append((a_, b_))
        skipped = not bad
        ctx.check(skipped, "multi/skip-unsatisfiable", ctx.construct(q, c), "an unsatisfiable part is not skipped (a part with bytes 0--1 would be sent)")
        # Content-Length accounting coupled with the append
        counters = {}
        for m, st in augs:
            if any(x is st for x in ast.walk(loop)):
                counters.setdefault(src(st.target), []).append((m, src(st.value)))
        ok = False
        for name, adds in counters.items():
            if sorted(v for m, v in adds) == sorted([s, f"len({sep})"]):
                ok = all(g.must_precede([m], [n], exc=False) is None or from_here(g, [n], [m]) is None for m, v in adds)
                cl_name = name
        ctx.check(ok, "multi/content-length", ctx.construct(q, c), "Content-Length does not add exactly the part size and the separator length for every part that is sent")
        # separator format
        seps = [st for st in ast.walk(loop) if isinstance(st, ast.Assign) and src(st.targets[0]) == sep]
        fmt_ok = False
        if len(seps) == 1:
            v = seps[0].value
            if isinstance(v, ast.Call) and call_name(v) == "networkString":
                v = v.args[0]
            if isinstance(v, ast.BinOp) and isinstance(v.op, ast.Mod) and isinstance(v.right, ast.Tuple):
                fmt = const_or_none(v.left)
                args = [src(a) for a in v.right.elts]
                crs = [st for st in ast.walk(loop) if isinstance(st, ast.Assign) and isinstance(st.value, ast.Call) and src(st.value) == f"self._contentRange({off}, {size})"]
                fmt_ok = fmt == "\r\n--%s\r\nContent-type: %s\r\nContent-range: %s\r\n\r\n" and len(crs) == 1 and \
                    args == ["nativeString(boundary)", "nativeString(contentType)", f"nativeString({src(crs[0].targets[0])})"]
        ctx.check(fmt_ok, "multi/separator-format", ctx.construct(q, c) + " | separator",
                  "the part separator is not CRLF--boundary CRLF Content-type CRLF Content-range(of this part) CRLF CRLF")
    for n, c in final:
        sep, o, s = [src(e) for e in c.args[0].elts]
        fb = [st for st in walk_local(f) if isinstance(st, ast.Assign) and src(st.targets[0]) == sep]
        ok = len(fb) == 1 and src(fb[0].value) == "b'\\r\\n--' + boundary + b'--\\r\\n'" and (o, s) == ("0", "0")
        ctx.check(ok, "multi/separator-format", ctx.construct(q, c), "the closing delimiter is not CRLF--boundary--CRLF with an empty part")
        cl = [c2 for m, c2 in named_calls(g, "request.setHeader") if const_or_none(c2.args[0]) == b"content-length" and not isinstance(c2.args[1], ast.Constant)]
        ok = len(cl) == 1 and isinstance(cl[0].args[1], ast.BinOp) and const_or_none(cl[0].args[1].left) == b"%d"
        if ok:
            tot = cl[0].args[1].right
            tot = tot.elts[0] if isinstance(tot, ast.Tuple) and len(tot.elts) == 1 else tot
            ok = src(tot) in (f"contentLength + len({sep})", f"len({sep}) + contentLength")
        ctx.check(ok, "multi/content-length", ctx.construct(q, c) + " | total", "the announced Content-Length is not the accumulated length plus the closing delimiter")
        ct = [c2 for m, c2 in named_calls(g, "request.setHeader") if const_or_none(c2.args[0]) == b"content-type"]
        ok = len(ct) == 1 and "multipart/byteranges; boundary=" in src(ct[0].args[1]) and "nativeString(boundary)" in src(ct[0].args[1])
        ctx.check(ok, "multi/separator-format", q + " | Content-Type", "the multipart Content-Type does not announce the boundary used in the separators")
    # status
    uns = _status_sites(g, "REQUESTED_RANGE_NOT_SATISFIABLE")
    par = _status_sites(g, "PARTIAL_CONTENT")
    flags = [src(st.targets[0]) for st in ast.walk(loop) if isinstance(st, ast.Assign) and isinstance(st.value, ast.Constant) and st.value.value is True]
    ctx.check(len(uns) == 1 and len(par) == 1 and len(flags) == 1, "multi/status", q, "416 / 206 / the matching flag are not each set at one site")
    if flags:
        fl = flags[0]
        for n in uns:
            ctx.check(truth_guard(g, n, fl, False), "multi/status", ctx.construct(q, g.node(n).ast), "416 is not answered exactly when no part is satisfiable")
        for n in par:
            ctx.check(truth_guard(g, n, fl, True), "multi/status", ctx.construct(q, g.node(n).ast), "206 is not answered exactly when some part is satisfiable")
        sets = [m for m, st in assign_sites(g, lambda x: src(x) == fl) if isinstance(st.value, ast.Constant) and st.value.value is True]
        for n, c in inloop:
            ok = all(g.must_precede([m], [n], exc=False) is None or from_here(g, [n], [m]) is None for m in sets) and bool(sets)
            ctx.check(ok, "multi/status", ctx.construct(q, c) + " | flag", "a part is recorded without marking the request satisfiable")
    # shape of what the producer receives: a non-empty list of (boundary, offset, size) on every return
    rets = g.ids(lambda x: x.kind == "stmt" and isinstance(x.ast, ast.Return))
    for r in rets:
        v = g.node(r).ast.value
        if isinstance(v, ast.Name) and v.id == info:
            w = g.must_precede([n for n, c in apps], [r], exc=False)
            ok = w is None
        else:
            ok = isinstance(v, ast.List) and v.elts and all(isinstance(e, ast.Tuple) and len(e.elts) == 3 for e in v.elts)
        ctx.check(ok, "multi/result-shape", ctx.construct(q, g.node(r).ast),
                  "the value handed to MultipleRangeStaticProducer is not a non-empty list of (boundary, offset, size): its start() unpacks next(iter(rangeInfo)) into three and "
                  "raises ValueError/StopIteration - `Range: bytes=100-200,300-400` on a 10-byte file is a 500, not a 416")


def _producers(ctx):
    # single range
    C = "SingleRangeStaticProducer"
    f = ctx.func(S, C + ".start")
    g = ctx.cfg(f)
    q = Q + C + ".start"
    sk = [n for n, c in named_calls(g, "self.fileObject.seek") if [src(a) for a in c.args] == ["self.offset"]]
    reg = [n for n, c in named_calls(g, "self.request.registerProducer")]
    zero = [n for n, st in assign_sites(g, lambda x: is_self_attr(x, "bytesWritten")) if src(st.value) == "0"]
    ok = bool(sk) and bool(reg) and bool(zero) and g.must_precede(sk, reg) is None and g.must_precede(zero, reg) is None
    ctx.check(ok, "producer/seek-first", q, "the file is not positioned at the range offset (and the counter reset) before production starts")
    f = ctx.func(S, C + ".__init__")
    ok = all(any(isinstance(s, ast.Assign) and any(is_self_attr(t, a) for t in s.targets) and src(s.value) == a for s in walk_local(f)) for a in ("offset", "size"))
    ctx.check(ok, "producer/seek-first", Q + C + ".__init__", "offset / size are not stored as given")
    f = ctx.func(S, C + ".resumeProducing")
    g = ctx.cfg(f)
    q = Q + C + ".resumeProducing"
    _read_bound(ctx, g, q, "self.size - self.bytesWritten")
    wr = named_calls(g, "self.request.write")
    cnt = [n for n, st in assign_sites(g, lambda x: is_self_attr(x, "bytesWritten")) if isinstance(st, ast.AugAssign) and isinstance(st.op, ast.Add)]
    for n, c in wr:
        a = src(c.args[0])
        ok = len(cnt) == 1 and src(g.node(cnt[0]).ast.value) == f"len({a})" and (g.must_precede(cnt, [n]) is None)
        ctx.check(ok, "producer/count-coupled", ctx.construct(q, c), "bytes are written without being counted first (the re-entrant resumeProducing would over-read)")
        rd = [st for st in walk_local(f) if isinstance(st, ast.Assign) and src(st.targets[0]) == a and isinstance(st.value, ast.Call) and call_name(st.value) == "self.fileObject.read"]
        ctx.check(len(rd) == 1, "producer/count-coupled", ctx.construct(q, c) + " | payload", "what is written is not what was read from the file")
    fin = named_calls(g, "self.request.finish")
    for n, c in fin:
        ok = any(cmp_polarity(g.node(t).ast, "self.bytesWritten", "self.size") is not None and cmp_polarity(g.node(t).ast, "self.bytesWritten", "self.size") == (lab == "T") for t, lab in g.edge_guards(n))
        ctx.check(ok, "producer/finish-at-size", ctx.construct(q, c), "the response is finished under a condition other than bytesWritten == size")
        un = [m for m, _ in named_calls(g, "self.request.unregisterProducer")]
        ctx.check(bool(un) and g.must_precede(un, [n]) is None, "producer/finish-at-size", ctx.construct(q, c) + " | unregister first", "finish() before unregisterProducer()")
    ctx.check(len(fin) == 1 and len(wr) == 1, "producer/finish-at-size", q, "write / finish sites not found")

    # multiple ranges
    C = "MultipleRangeStaticProducer"
    f = ctx.func(S, C + "._nextRange")
    q = Q + C + "._nextRange"
    un = [s for s in walk_local(f) if isinstance(s, ast.Assign) and isinstance(s.targets[0], ast.Tuple) and src(s.value) == "next(self.rangeIter)"]
    ok = len(un) == 1 and len(un[0].targets[0].elts) == 3
    ctx.need(ok, "boundary, offset, size = next(self.rangeIter)")
    b, o, s = [src(e) for e in un[0].targets[0].elts]
    g = ctx.cfg(f)
    sk = [n for n, c in named_calls(g, "self.fileObject.seek") if [src(a) for a in c.args] == [o]]
    zero = [n for n, st in assign_sites(g, lambda x: is_self_attr(x, "_partBytesWritten")) if src(st.value) == "0"]
    ctx.check(bool(sk) and bool(zero) and from_here(g, [g.entry], sk) is None and from_here(g, [g.entry], zero) is None, "producer/seek-first", q,
              "moving to the next part does not seek to its offset and reset the per-part counter")
    ctx.check((b, s) == ("self.partBoundary", "self._partSize"), "producer/seek-first", q + " | fields", "the (boundary, offset, size) triple is unpacked into the wrong fields")
    f = ctx.func(S, C + ".resumeProducing")
    g = ctx.cfg(f)
    q = Q + C + ".resumeProducing"
    _read_bound(ctx, g, q, "self._partSize - self._partBytesWritten")
    rd = [st for st in walk_local(f) if isinstance(st, ast.Assign) and isinstance(st.value, ast.Call) and call_name(st.value) == "self.fileObject.read"]
    ctx.need(len(rd) == 1, "p = self.fileObject.read(...)")
    p = src(rd[0].targets[0])
    cnt = [(n, st) for n, st in assign_sites(g, lambda x: is_self_attr(x, "_partBytesWritten")) if isinstance(st, ast.AugAssign)]
    ok = len(cnt) == 1 and src(cnt[0][1].value) == f"len({p})" and g.must_pass(g.ids_of(rd[0]), [cnt[0][0]], exc=False) is None
    ctx.check(ok, "producer/count-coupled", q, "bytes read for a part are not counted against the part size")
    dapp = [(n, c) for n, c in call_sites(g, lambda c: call_attr(c) == "append" and c.args and src(c.args[0]) == p)]
    ctx.check(len(dapp) == 1 and g.must_pass(g.ids_of(rd[0]), [dapp[0][0]], exc=False) is None, "producer/count-coupled", q + " | payload", "bytes read for a part are not all queued for writing")
    bapp = [(n, c) for n, c in call_sites(g, lambda c: call_attr(c) == "append" and c.args and src(c.args[0]) == "self.partBoundary")]
    ok = len(bapp) == 1 and dapp and src(bapp[0][1].func.value) == src(dapp[0][1].func.value) and truth_guard(g, bapp[0][0], "self.partBoundary", True) and \
        g.must_precede([bapp[0][0]] + [t for t in g.ids(lambda x: x.kind == "test" and src(x.ast) == "self.partBoundary")], g.ids_of(rd[0])) is None
    clr = [n for n, st in assign_sites(g, lambda x: is_self_attr(x, "partBoundary")) if src(st.value) == "None"]
    ok = ok and bool(clr) and g.must_pass([bapp[0][0]], clr, exc=False) is None
    ctx.check(ok, "producer/boundary-once", q, "a part's separator is not written exactly once, before the part's bytes")
    nx = named_calls(g, "self._nextRange")
    for n, c in nx:
        ok = any(cmp_polarity(g.node(t).ast, "self._partBytesWritten", "self._partSize") is not None and
                 cmp_polarity(g.node(t).ast, "self._partBytesWritten", "self._partSize") == (lab == "T") for t, lab in g.edge_guards(n))
        ctx.check(ok, "producer/finish-at-size", ctx.construct(q, c), "the producer moves to the next part under a condition other than partBytesWritten == partSize")
        hs = enclosing_try_handlers(f, c)
        ctx.check(any("StopIteration" in handler_names(h) for h in hs), "producer/finish-at-size", ctx.construct(q, c) + " | end of parts", "the end of the part list is not handled")
    ctx.check(len(nx) == 1, "producer/finish-at-size", q + " | next part", "_nextRange call site not found")
    wr = named_calls(g, "self.request.write")
    ok = len(wr) == 1 and dapp and src(wr[0][1].args[0]) == f"b''.join({src(dapp[0][1].func.value)})"
    ctx.check(ok, "producer/count-coupled", q + " | write", "the queued pieces are not written joined in order")


def _read_bound(ctx, g, q, remaining):
    rds = named_calls(g, "self.fileObject.read")
    ctx.check(len(rds) == 1, "producer/read-bounded", q, "the producer does not read the file at exactly one site")
    for n, c in rds:
        a = c.args[0] if c.args else None
        ok = isinstance(a, ast.Call) and call_name(a) == "min" and remaining in [src(x) for x in a.args]
        ctx.check(ok, "producer/read-bounded", ctx.construct(q, c), f"the read is not bounded by the bytes remaining in the part ({remaining}): bytes after the range would be sent")


MUTANTS = [
    Mutant("revert-F25a-strict-decode-in-handler", S, "f\"{byteRange.decode('utf-8', 'replace')!r}\"", "f\"{byteRange.decode()!r}\""),
    Mutant("revert-F25b-unclamped-suffix", S, "            start = max(size - end, 0)\n", "            start = size - end\n"),
    Mutant("last-byte-inclusive-off-by-one", S, "        elif end < size:\n            end += 1\n", "        elif end < size - 1:\n            end += 1\n"),
    Mutant("start-at-size-satisfiable", S, "        if start >= size:\n            start = end = 0\n", "        if start > size:\n            start = end = 0\n"),
    Mutant("content-range-exclusive-end", S, "\"bytes %d-%d/%d\" % (offset, offset + size - 1, self.getFileSize())", "\"bytes %d-%d/%d\" % (offset, offset + size, self.getFileSize())"),
    Mutant("reversed-range-test-by-truthiness", S, "                if end is not None and start > end:", "                if end and start > end:"),
    Mutant("parts-in-reverse-order", S, "        for start, end in byteRanges:\n            partOffset, partSize", "        for start, end in reversed(byteRanges):\n            partOffset, partSize"),
    Mutant("reversed-range-ge", S, "                if end is not None and start > end:", "                if end is not None and start >= end:"),
    Mutant("parser-raises-keyerror", S, "            raise ValueError(f\"Unsupported Bytes-Unit: {kind!r}\")", "            raise KeyError(f\"Unsupported Bytes-Unit: {kind!r}\")"),
    Mutant("int-outside-try", S, "            if end:\n                try:\n                    end = int(end)\n                except ValueError:\n                    raise ValueError(f\"Invalid Byte-Range: {byteRange!r}\")\n",
           "            if end:\n                end = int(end)\n                if end < 0:\n                    raise ValueError(f\"Invalid Byte-Range: {byteRange!r}\")\n"),
    Mutant("content-length-default-on-falsy", S, "        if size is None:\n            size = self.getFileSize()\n        request.setHeader(b\"content-length\"",
           "        if not size:\n            size = self.getFileSize()\n        request.setHeader(b\"content-length\""),
    Mutant("single-416-test-offset-only", S, "        if offset == size == 0:\n            # This range doesn't overlap", "        if offset == 0:\n            # This range doesn't overlap"),
    Mutant("multi-length-misses-separator", S, "            contentLength += len(partSeparator)\n", ""),
    Mutant("multi-keeps-unsatisfiable-part", S, "            if partOffset == partSize == 0:\n                continue\n", ""),
    Mutant("single-read-unbounded", S, "        data = self.fileObject.read(min(self.bufferSize, self.size - self.bytesWritten))", "        data = self.fileObject.read(self.bufferSize)"),
    Mutant("single-no-seek", S, "        self.fileObject.seek(self.offset)\n        self.bytesWritten = 0\n", "        self.bytesWritten = 0\n"),
    Mutant("multi-read-ignores-part-size", S, "                min(\n                    self.bufferSize - dataLength,\n                    self._partSize - self._partBytesWritten,\n                )",
           "                min(\n                    self.bufferSize - dataLength,\n                    self._partSize,\n                )"),
    Mutant("dispatch-single-for-first-of-many", S, "        if len(parsedRanges) == 1:\n            offset, size", "        if len(parsedRanges) >= 1:\n            offset, size"),
]
SILENT = [
    Silent("parts-loop-enumerate", S, "        for start, end in byteRanges:\n            partOffset, partSize", "        for _idx, (start, end) in enumerate(byteRanges):\n            partOffset, partSize"),
    Silent("reversed-range-flattened-with-none-tests", S, "            if start is not None:\n                if end is not None and start > end:\n                    # Start must be less than or equal to end or it is invalid.\n                    raise ValueError(f\"Invalid Byte-Range: {byteRange!r}\")\n            elif end is None:",
           "            if start is not None and end is not None and start > end:\n                raise ValueError(f\"Invalid Byte-Range: {byteRange!r}\")\n            if start is None and end is None:"),
    Silent("content-range-fstring", S, "        return networkString(\n            \"bytes %d-%d/%d\" % (offset, offset + size - 1, self.getFileSize())\n        )",
           "        last = offset + size - 1\n        total = self.getFileSize()\n        return f\"bytes {offset}-{last}/{total}\".encode(\"ascii\")"),
    Silent("range-arithmetic-rewritten", S, "        size = self.getFileSize()\n        if start is None:\n            start = max(size - end, 0)\n            end = size\n        elif end is None:\n            end = size\n        elif end < size:\n            end += 1\n        elif end > size:\n            end = size\n        if start >= size:\n            start = end = 0\n        return start, (end - start)",
           "        size = self.getFileSize()\n        if start is None:\n            first, stop = max(size - end, 0), size\n        else:\n            first = start\n            stop = size if end is None else min(end + 1, size)\n        if first >= size:\n            return 0, 0\n        return first, stop - first"),
    Silent("suffix-clamp-rewritten", S, "            start = max(size - end, 0)\n", "            start = size - end\n            if start < 0:\n                start = 0\n"),
    Silent("end-clamp-min", S, "        elif end < size:\n            end += 1\n        elif end > size:\n            end = size\n", "        else:\n            end = min(end + 1, size)\n"),
    Silent("handler-backslashreplace", S, "f\"{byteRange.decode('utf-8', 'replace')!r}\"", "f\"{byteRange.decode('ascii', errors='backslashreplace')!r}\""),
    Silent("reversed-range-flipped", S, "                if end is not None and start > end:", "                if end is not None and end < start:"),
    Silent("content-range-reordered", S, "\"bytes %d-%d/%d\" % (offset, offset + size - 1, self.getFileSize())", "\"bytes %d-%d/%d\" % (offset, size - 1 + offset, self.getFileSize())"),
    Silent("single-status-branches-swapped", S,
           "        if offset == size == 0:\n            # This range doesn't overlap with any of this resource, so the\n            # request is unsatisfiable.\n            request.setResponseCode(http.REQUESTED_RANGE_NOT_SATISFIABLE)\n            request.setHeader(\n                b\"content-range\", networkString(\"bytes */%d\" % (self.getFileSize(),))\n            )\n        else:\n            request.setResponseCode(http.PARTIAL_CONTENT)\n            request.setHeader(b\"content-range\", self._contentRange(offset, size))\n",
           "        if not (offset == 0 and size == 0):\n            request.setResponseCode(http.PARTIAL_CONTENT)\n            request.setHeader(b\"content-range\", self._contentRange(offset, size))\n        else:\n            request.setResponseCode(http.REQUESTED_RANGE_NOT_SATISFIABLE)\n            request.setHeader(\n                b\"content-range\", networkString(\"bytes */%d\" % (self.getFileSize(),))\n            )\n"),
]
