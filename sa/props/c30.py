"""C30 - AMP wire format and argument types round-trip."""
from __future__ import annotations

import ast
import datetime
import decimal
import math
import struct
from typing import Dict, List, Optional, Tuple

from sa.astx import module_consts, src
from sa.props._lib_g import DictInst, Inst, MiniEval, Stub, class_const, run_eval
from sa.selftest import Mutant, Silent
from sa.source import AnalysisError, base_names, class_assigns, methods

PROPERTY = "C30"
INCLUDE = [("C16", ("intn",), "BinaryBoxProtocol is an Int16StringReceiver: C16's rules about the length-prefixed receivers (framing comparisons, slices, limits and the evaluated "
            "segmentation invariance) are necessary for 'parsing it back, with the byte stream split arbitrarily'")]
AMP = "protocols/amp.py"
BASIC = "protocols/basic.py"
QA = "twisted.protocols.amp"
QB = "twisted.protocols.basic"
TECHNIQUE = "guard dominance with linear normal forms, emission order, table agreement; interpreted round trips as bounded layer"
EXPLANATION = (
    'STRUCTURAL (for every input): in AmpBox.serialize (helpers inlined, temporaries substituted) each pair is emitted as '
    "len16(key) key len16(value) value in the reader's struct format, the writes of key and value are dominated by guards "
    'whose linear normal form is exactly len <= 255 / len <= 65535, and the pair is never rebound (coerced) before it is '
    'written; sender and receiver limit constants agree with each other and with the 16-bit prefix; proto_key/proto_value '
    "cannot enter the next state without setting MAX_LENGTH to that state's limit; the three comparisons by which "
    'IntNStringReceiver.dataReceived cuts the stream are in exact normal form (either polarity) and prefix/payload slices '
    "are contiguous; every Argument subclass pairs its two directions; ListOf's prefix format and DateTime's %-format vs "
    'slice table agree. in BinaryBoxProtocol.sendBox no site that can still refuse the box (a raise, a call of a validating '
    'method, a step of a validating generator) is reachable after a transport write - a refused box leaves nothing on the wire. '
    'A structural rule that cannot recognise a shape abstains with a note. BOUNDED second layer '
    '(interpreted code, verdict about the listed inputs): serialize outputs parsed back by an independent parser, 255/256 '
    'and 65535/65536-byte items, non-bytes keys/values refused, a refused box followed by a good box on the same transport (generators interpreted lazily), the empty key refused (finding F30, repaired by commit '
    '3d4becf: reverting the refusal is a self-test mutant reported on the finding\'s construct); the reader pipeline fed a multi-box stream at every '
    'cut, byte by byte and at pairs of cuts, key limit in force as first and second key; value round trips of Integer, '
    'String, Unicode, Boolean, Float, Decimal, DateTime (18 UTC offsets), ListOf (empty elements everywhere, nested), '
    'AmpList and the toBox/fromBox key mapping. Bounded evidence only: value equality of the argument codecs and '
    'split-invariance of whole boxes (they are statements about computed values, no shape rule decides them). Not decided: '
    'Path, Descriptor, TLS and protocol switching.'
)
RULE_KINDS = {
    # structural: dominance + linear normal forms, symbolic emission order, table agreement, who-writes
    "box/length-prefix-width": "structural", "box/guards-dominate-writes": "structural", "box/no-coercion": "structural", "limits/": "structural", "framing/prefix": "structural",
    "framing/boundary-normal-form": "structural", "framing/slices-contiguous": "structural", "reader/class-shape": "structural", "reader/limit-toggle": "structural",
    "argument/pairing": "structural", "argument/list-prefix-table": "structural", "datetime/layout-table": "structural",
    "argument/list-row-container-fresh": "structural", "argument/list-rows-independent": "bounded",
    "send/refused-box-writes-nothing": "structural",   # no refusing site reachable after a transport write in sendBox (CFG reachability)
    "send/refused-box-then-good-box": "bounded",
    # bounded: the code interpreted on enumerated inputs / stream segmentations
    "box/wire-form": "bounded", "box/key-length-upper-bound": "bounded", "box/value-length-upper-bound": "bounded", "box/refuses-non-bytes-evaluated": "bounded",
    "box/key-length-lower-bound": "bounded", "reader/boxes-parsed-back": "bounded", "reader/split-invariance": "bounded", "reader/limits": "bounded",
    "argument/value-round-trip": "bounded", "datetime/round-trip": "bounded", "argument/list-round-trip": "bounded", "argument/list-framing": "bounded",
    "argument/box-round-trip": "bounded", "C16:": "bounded",
}
ASSUMPTIONS = [
    "struct, str/bytes/int/float, decimal and datetime behave as in CPython 3.12 (they are used by the interpreter, not modelled)",
    "twisted.python.compat.nativeString(bytes) is bytes.decode('ascii'); FixedOffsetTimeZone.fromSignHoursMinutes(sign, h, m) is a fixed offset of "
    "+/-(h hours m minutes) and rejects other signs (both modelled)",
    "methods inherited from classes outside the analysed modules (Protocol.connectionMade ...) do nothing relevant",
]


def _fail(msg):
    raise AnalysisError("C30: " + msg)


def _need(kind, value, what):
    if kind == "unsupported":
        _fail(f"{what} uses a construct outside the interpreted subset: {value}")


def _native(x):
    return x.decode("ascii") if isinstance(x, bytes) else x


def _tz(sign, hours, minutes):
    if sign == "-":
        hours, minutes = -hours, -minutes
    elif sign != "+":
        raise ValueError("Invalid sign for timezone")
    return datetime.timezone(datetime.timedelta(hours=hours, minutes=minutes))


def _ev(ctx, mod, consts):
    return MiniEval(mod, consts=consts, extra_mods=[ctx.mod(BASIC)],
                    helpers={"nativeString": _native, "decimal.Decimal": decimal.Decimal, "_FixedOffsetTZInfo.fromSignHoursMinutes": _tz,
                             "datetime.datetime": datetime.datetime})


# ---- oracles (written here, independent of the code under analysis) ---------------------------------------------------

def oracle_encode(box: Dict[bytes, bytes]) -> bytes:
    out = b""
    for k in sorted(box):
        out += struct.pack(">H", len(k)) + k + struct.pack(">H", len(box[k])) + box[k]
    return out + b"\x00\x00"


def oracle_parse(wire: bytes) -> Optional[List[Dict[bytes, bytes]]]:
    """Boxes of a complete stream, None if the stream is not a sequence of complete boxes."""
    boxes, cur, key, pos = [], {}, None, 0
    while pos < len(wire):
        if pos + 2 > len(wire):
            return None
        n = int.from_bytes(wire[pos:pos + 2], "big")
        pos += 2
        if pos + n > len(wire):
            return None
        s = wire[pos:pos + n]
        pos += n
        if key is None:
            if n == 0:
                boxes.append(cur)
                cur = {}
            elif n > 255:
                return None
            else:
                key = s
        else:
            cur[key] = s
            key = None
    return boxes if (key is None and not cur) else None


# ---- A. writer ---------------------------------------------------------------------------------------------------------

def _serialize(ctx, mod, consts, cls, box):
    ev = _ev(ctx, mod, consts)
    k, out = run_eval(lambda: ev.method(DictInst(cls, data=dict(box)), "serialize", []))
    _need(k, out, "AmpBox.serialize")
    return k, out


def check_writer(ctx, mod, consts):
    cls = ctx.cls(AMP, "AmpBox")
    ctx.func(AMP, "AmpBox.serialize")
    q = QA + ".AmpBox.serialize"
    kmax, vmax = 255, 65535
    # wire form
    samples = [{b"k": b"v"}, {}, {b"a": b"", b"bb": b"x" * 300}, {b"_ask": b"1", b"_command": b"Sum", b"a": b"13", b"b": b"81"}, {b"z": b"\x00\xff", b"A": b"\x00\x00"}]
    bad = None
    for box in samples:
        k, out = _serialize(ctx, mod, consts, cls, box)
        back = oracle_parse(out) if k == "value" and isinstance(out, bytes) else None
        if back != [box]:
            bad = bad or f"AmpBox({box!r}).serialize() gives {out!r} ({k}); an independent parser reads {back!r}; the wire form is len16(key) key len16(value) value ... b'\\x00\\x00'"
    ctx.check(bad is None, "box/wire-form", q + " | <wire form>", bad or "", detail=f"{len(samples)} boxes parsed back by the oracle")
    # bounds
    k1, o1 = _serialize(ctx, mod, consts, cls, {b"k" * kmax: b"v"})
    k2, o2 = _serialize(ctx, mod, consts, cls, {b"k" * (kmax + 1): b"v"})
    ctx.check(k1 == "value" and oracle_parse(o1) == [{b"k" * kmax: b"v"}] and k2 == "raised", "box/key-length-upper-bound", q + " | <key of 255 / 256 bytes>",
              f"a {kmax}-byte key gives {k1} (must be written), a {kmax + 1}-byte key gives {k2 if k2 != 'value' else 'a wire string'} (must be refused: its length does not fit "
              "the one significant length byte the reader allows)")
    k1, o1 = _serialize(ctx, mod, consts, cls, {b"k": b"v" * vmax})
    k2, o2 = _serialize(ctx, mod, consts, cls, {b"k": b"v" * (vmax + 1)})
    k3, o3 = _serialize(ctx, mod, consts, cls, {b"k": b"v" * 300})
    ctx.check(k1 == "value" and oracle_parse(o1) == [{b"k": b"v" * vmax}] and k2 == "raised" and k3 == "value", "box/value-length-upper-bound", q + " | <value of 300 / 65535 / 65536 bytes>",
              f"a 300-byte value gives {k3}, a {vmax}-byte value gives {k1} (both must be written), a {vmax + 1}-byte value gives {k2 if k2 != 'value' else 'a wire string'} (must be refused)")
    # non-bytes keys / values
    odd = [("int", 7), ("bool", True), ("None", None), ("float", 1.5), ("tuple", (1, 2)), ("str", "text"), ("list", [1, 2, 3]), ("dict", {"a": 1}), ("int 0", 0)]
    for pos in ("key", "value"):
        bad = None
        n = 0
        for label, v in odd:
            try:
                box = {v: b"v"} if pos == "key" else {b"k": v}
            except TypeError:
                continue
            k, out = _serialize(ctx, mod, consts, cls, box)
            n += 1
            if k != "raised":
                bad = bad or f"AmpBox({box!r}).serialize() does not raise: it returns {out!r}, i.e. a {label} {pos} is silently mis-serialised instead of being refused"
        ctx.check(bad is None, "box/refuses-non-bytes-evaluated", q + f" | non-bytes {pos}", bad or "", detail=f"{n} non-bytes {pos}s, each must raise")
    # the empty key is the terminator
    k, out = _serialize(ctx, mod, consts, cls, {b"": b"x"})
    ctx.check(k == "raised", "box/key-length-lower-bound", q + " | <empty key>",
              "AmpBox({b'': b'x'}).serialize() is accepted: the zero-length key is written as b'\\x00\\x00', which the reader (proto_key) "
              "takes as the end of the box, so the rest of this box and the next box are mis-framed")
    # static: the pair about to be written is never rebound (a coercion turns a refusal into a silent mis-serialisation)
    f = ctx.func(AMP, "AmpBox.serialize")
    loops = [st for st in ast.walk(f) if isinstance(st, ast.For) and isinstance(st.target, ast.Tuple) and len(st.target.elts) == 2 and all(isinstance(e, ast.Name) for e in st.target.elts)]
    coerced = False
    for loop in loops:
        kn, vn = loop.target.elts[0].id, loop.target.elts[1].id
        for st in ast.walk(loop):
            if st is loop or not isinstance(st, (ast.Assign, ast.AugAssign, ast.AnnAssign, ast.For, ast.NamedExpr)):
                continue
            tg = st.targets if isinstance(st, ast.Assign) else [st.target]
            stored = {x.id for t in tg for x in ast.walk(t) if isinstance(x, ast.Name) and isinstance(x.ctx, ast.Store)}
            for nm, what in ((kn, "key"), (vn, "value")):
                if nm in stored:
                    coerced = True
                    ctx.violation("box/no-coercion", ctx.construct(q, st if not isinstance(st, ast.For) else f"for {src(st.target)} in {src(st.iter)}:") + f" | {what}",
                                  f"the {what} is replaced by `{src(getattr(st, 'value', st))[:80]}` before it is measured and written: a conversion such as bytes(7) (seven NUL bytes), "
                                  "bytes([1, 2, 3]) or bytes(True) turns a non-bytes value that must be refused into a silent mis-serialisation")
    if not coerced:
        ctx.ok("box/no-coercion", q + " | <pair loops scanned>", f"{len(loops)} loop(s) over (key, value) pairs")


# ---- B. reader ---------------------------------------------------------------------------------------------------------

def check_limits(ctx, mod, consts):
    bmod = ctx.mod(BASIC)
    bbp = ctx.cls(AMP, "BinaryBoxProtocol")
    q = QA + ".BinaryBoxProtocol"
    i16 = ctx.cls(BASIC, "Int16StringReceiver")
    fmt = class_const(bmod, i16, "structFormat", {})
    plen = class_const(bmod, i16, "prefixLength", {})
    ctx.check(fmt == "!H" and plen == 2, "framing/prefix", QB + ".Int16StringReceiver | structFormat",
              f"Int16StringReceiver: structFormat={fmt!r} prefixLength={plen!r}; AMP strings carry a 2-byte network-order unsigned length")
    bases = base_names(bbp)
    ctx.check("Int16StringReceiver" in bases and "StatefulStringProtocol" in bases and bases.index("StatefulStringProtocol") < bases.index("Int16StringReceiver"),
              "reader/class-shape", q + " | bases", f"BinaryBoxProtocol bases are {bases}: stringReceived must resolve to StatefulStringProtocol's dispatcher in front of the 16-bit receiver")
    kmax, vmax = consts.get("MAX_KEY_LENGTH"), consts.get("MAX_VALUE_LENGTH")
    ca = {k: class_const(mod, bbp, k, consts) for k in ("_MAX_KEY_LENGTH", "_MAX_VALUE_LENGTH", "MAX_LENGTH")}
    ctx.check(kmax == 255 and ca["_MAX_KEY_LENGTH"] == kmax, "limits/key", QA + " | MAX_KEY_LENGTH",
              f"sender limit MAX_KEY_LENGTH={kmax!r}, receiver limit _MAX_KEY_LENGTH={ca['_MAX_KEY_LENGTH']!r}; both must be 255 (one length byte, first prefix byte zero)")
    ctx.check(vmax == 65535 and ca["_MAX_VALUE_LENGTH"] == vmax, "limits/value", QA + " | MAX_VALUE_LENGTH",
              f"sender limit MAX_VALUE_LENGTH={vmax!r}, receiver limit _MAX_VALUE_LENGTH={ca['_MAX_VALUE_LENGTH']!r}, largest length the 16-bit prefix can carry is 65535")
    ctx.check(ca["MAX_LENGTH"] == ca["_MAX_KEY_LENGTH"] and ca["MAX_LENGTH"] is not None, "limits/initial", q + " | MAX_LENGTH",
              f"the initial MAX_LENGTH is {ca['MAX_LENGTH']!r}; the first string of a connection is a key (limit {ca['_MAX_KEY_LENGTH']!r})")


def _feed(ctx, mod, consts, chunks):
    """Interpret BinaryBoxProtocol on the chunks; -> (kind, delivered boxes as dicts, transport stub, protocol instance)."""
    ev = _ev(ctx, mod, consts)
    recv = Inst(ctx.cls(AMP, "_ParserHelper"), boxes=[])
    tr = Stub("transport")
    proto = Inst(ctx.cls(AMP, "BinaryBoxProtocol"), boxReceiver=recv, transport=tr)
    for c in chunks:
        k, r = run_eval(lambda: ev.method(proto, "dataReceived", [c]))
        _need(k, r, "BinaryBoxProtocol.dataReceived")
        if k == "raised":
            return f"raised {r}", [dict(b.data) if isinstance(b, DictInst) else b for b in recv.fields["boxes"]], tr, proto
    return "ok", [dict(b.data) if isinstance(b, DictInst) else b for b in recv.fields["boxes"]], tr, proto


def check_reader(ctx, mod, consts):
    for name in ("dataReceived", "proto_init", "proto_key", "proto_value", "lengthLimitExceeded"):
        ctx.func(AMP, f"BinaryBoxProtocol.{name}")
    ctx.func(BASIC, "IntNStringReceiver.dataReceived")
    ctx.func(BASIC, "StatefulStringProtocol.stringReceived")
    q = QA + ".BinaryBoxProtocol"
    boxes = [{b"a": b"1", b"bb": b""}, {b"k": b"vvv"}, {}, {b"_ask": b"2", b"x": b"\x00\x01"}]
    wire = b"".join(oracle_encode(b) for b in boxes)
    # whole stream at once
    st, got, tr, _ = _feed(ctx, mod, consts, [wire])
    ctx.check(st == "ok" and got == boxes, "reader/boxes-parsed-back", q + " | <whole stream>",
              f"the encoding of {boxes!r} delivered in one piece is parsed as {got!r} ({st})")
    # every single cut, byte by byte, and pairs of cuts
    plans = [[wire[:i], wire[i:]] for i in range(1, len(wire))]
    plans.append([wire[i:i + 1] for i in range(len(wire))])
    plans += [[wire[:i], wire[i:j], wire[j:]] for i in range(1, len(wire), 3) for j in range(i + 1, len(wire), 5)]
    bad = None
    for chunks in plans:
        st, got, tr, _ = _feed(ctx, mod, consts, chunks)
        if st != "ok" or got != boxes:
            cut = [len(c) for c in chunks]
            bad = bad or f"the same {len(wire)} bytes delivered in pieces of {cut if len(cut) < 8 else str(cut[:6]) + '...'} bytes are parsed as {got!r} ({st}) instead of {boxes!r}"
    ctx.check(bad is None, "reader/split-invariance", q + " | <stream cut arbitrarily>", bad or "", detail=f"{len(plans)} segmentations of a {len(wire)}-byte stream")
    # limits on the receiving side
    big = {b"K" * 255: b"V" * 65535, b"a": b"b"}
    st, got, tr, _ = _feed(ctx, mod, consts, [oracle_encode(big)[:40000], oracle_encode(big)[40000:]])
    ctx.check(st == "ok" and got == [big] and not tr.called("loseConnection"), "reader/limits", q + " | <255-byte key, 65535-byte value>",
              f"a box with a 255-byte key and a 65535-byte value is not accepted ({st}, {len(got)} boxes, disconnects: {len(tr.called('loseConnection'))})")
    for label, stream in (("first key", struct.pack(">H", 256) + b"K" * 256 + b"\x00\x01v\x00\x00"),
                          ("second key", b"\x00\x01a\x00\x01b" + struct.pack(">H", 256) + b"K" * 256 + b"\x00\x01v\x00\x00")):
        st, got, tr, proto = _feed(ctx, mod, consts, [stream])
        ctx.check(st == "ok" and got == [] and bool(tr.called("loseConnection")), "reader/limits", q + f" | <256-byte key as {label}>",
                  f"a 256-byte key ({label} of a box) is {'accepted' if got else 'not answered by a disconnect'}: delivered {got!r}, disconnects: {len(tr.called('loseConnection'))} "
                  "(the key limit must be in force whenever a key is expected)")


# ---- C. argument types ---------------------------------------------------------------------------------------------------

PAIRS = (("toString", "fromString"), ("toStringProto", "fromStringProto"), ("toBox", "fromBox"))
PAIR_EXCEPTIONS = {("_LocalArgument", "fromBox"): "local arguments are never relayed over the wire; fromBox is a documented no-op"}


def _argument_classes(mod) -> List[ast.ClassDef]:
    classes = {n.name: n for n in mod.tree.body if isinstance(n, ast.ClassDef)}

    def derives(c, seen=()):
        for b in base_names(c):
            if b == "Argument" or (b in classes and b not in seen and derives(classes[b], seen + (b,))):
                return True
        return False

    return [c for c in classes.values() if derives(c)]


def check_pairing(ctx, mod):
    args = _argument_classes(mod)
    ctx.floor("argument/pairing", len(args), 12, "Argument subclasses")
    for c in args:
        d = set(methods(c)) | set(class_assigns(c))
        for a, b in PAIRS:
            if (a in d) == (b in d):
                if a in d:
                    ctx.ok("argument/pairing", f"{QA}.{c.name} | {a}/{b}")
                continue
            lone = a if a in d else b
            if (c.name, lone) in PAIR_EXCEPTIONS:
                ctx.ok("argument/pairing", f"{QA}.{c.name} | {a}/{b}", "documented exception: " + PAIR_EXCEPTIONS[(c.name, lone)])
                continue
            ctx.violation("argument/pairing", f"{QA}.{c.name} | {a}/{b}",
                          f"{c.name} overrides {lone} but inherits {b if lone == a else a} from its base: the two directions no longer use the same encoding")


def _same(v, back) -> bool:
    if isinstance(v, decimal.Decimal):
        return isinstance(back, decimal.Decimal) and back.as_tuple() == v.as_tuple()
    if isinstance(v, float):
        if not isinstance(back, float):
            return False
        if math.isnan(v):
            return math.isnan(back)
        return back == v and math.copysign(1.0, v) == math.copysign(1.0, back)
    if isinstance(v, datetime.datetime):
        return isinstance(back, datetime.datetime) and back == v and back.utcoffset() == v.utcoffset() and \
            (back.year, back.month, back.day, back.hour, back.minute, back.second, back.microsecond) == (v.year, v.month, v.day, v.hour, v.minute, v.second, v.microsecond)
    return type(back) is type(v) and back == v


def check_leaf_codecs(ctx, mod, consts):
    D = decimal.Decimal
    tzs = [datetime.timezone(datetime.timedelta(minutes=m)) for m in (-840, -720, -90, -61, -60, -59, -30, -1, 0, 1, 30, 59, 60, 61, 90, 330, 720, 840)]
    dts = [datetime.datetime(2012, 1, 23, 12, 34, 56, 54321, tz) for tz in tzs] + \
        [datetime.datetime(1, 1, 1, 0, 0, 0, 0, tzs[8]), datetime.datetime(9999, 12, 31, 23, 59, 59, 999999, tzs[8]), datetime.datetime(2000, 2, 29, 9, 8, 7, 123456, tzs[3])]
    samples = {
        "Integer": [0, 1, -1, 255, 2 ** 64, -(2 ** 200), 10 ** 30],
        "String": [b"", b"a", b"\x00\xff", b"x" * 300],
        "Unicode": ["", "a", "é", "€", "\U0001f600", "a\x00b", "퟿"],
        "Boolean": [True, False],
        "Float": [0.0, -0.0, 1.5, 0.1, 1e300, 5e-324, float("inf"), float("-inf"), float("nan"), -2.5e-10],
        "Decimal": [D("0"), D("-0"), D("1.5"), D("1.50"), D("1E+2"), D("-1E-7"), D("Infinity"), D("-Infinity"), D("NaN"), D("-sNaN"), D("123456789012345678901234567890.5")],
        "DateTime": dts,
    }
    classes = {n.name: n for n in mod.tree.body if isinstance(n, ast.ClassDef)}
    for cname, vals in samples.items():
        with ctx.section(f"codec {cname}"):
            c = classes.get(cname) or _fail(f"argument class {cname} vanished")
            inst = Inst(c, optional=False)
            bad = None
            encs = {}
            for v in vals:
                ev = _ev(ctx, mod, consts)
                k1, s = run_eval(lambda: ev.method(inst, "toString", [v]))
                _need(k1, s, f"{cname}.toString")
                if k1 == "raised" or not isinstance(s, bytes):
                    bad = bad or f"{cname}().toString({v!r}) gives {s!r} ({k1}); a byte string is required"
                    continue
                k2, back = run_eval(lambda: ev.method(inst, "fromString", [s]))
                _need(k2, back, f"{cname}.fromString")
                if k2 != "value" or not _same(v, back):
                    bad = bad or f"{cname}: {v!r} is encoded as {s!r} and decoded as {back!r} ({k2})"
                encs.setdefault(s, v)
            if not bad and len(encs) != len(vals) and cname not in ("Float",):
                bad = f"{cname}: two different values share one encoding"
            ctx.check(bad is None, "argument/value-round-trip" if cname != "DateTime" else "datetime/round-trip", f"{QA}.{cname} | toString/fromString", bad or "",
                      detail=f"{len(vals)} representative values")


def check_lists(ctx, mod, consts):
    classes = {n.name: n for n in mod.tree.body if isinstance(n, ast.ClassDef)}
    lo, S, I, U = (classes.get(n) or _fail(n + " vanished") for n in ("ListOf", "String", "Integer", "Unicode"))
    cases = [("ListOf(String())", Inst(lo, elementType=Inst(S, optional=False), optional=False),
              [[], [b""], [b"foo"], [b"foo", b""], [b"", b"foo"], [b"", b""], [b"a", b"", b"b"], [b"x" * 300, b"y"]]),
             ("ListOf(Unicode())", Inst(lo, elementType=Inst(U, optional=False), optional=False), [["x", ""], ["", "€"], []]),
             ("ListOf(ListOf(Integer()))", Inst(lo, elementType=Inst(lo, elementType=Inst(I, optional=False), optional=False), optional=False),
              [[[1, 2], []], [[], [3]], [[]], [[], []], [[10 ** 20]]])]
    for label, inst, samples in cases:
        bad = None
        for v in samples:
            ev = _ev(ctx, mod, consts)
            k1, wire = run_eval(lambda: ev.method(inst, "toString", [v]))
            _need(k1, wire, "ListOf.toString")
            if k1 != "value" or not isinstance(wire, bytes):
                bad = bad or f"{label}.toString({v!r}) gives {wire!r} ({k1})"
                continue
            k2, back = run_eval(lambda: ev.method(inst, "fromString", [wire]))
            _need(k2, back, "ListOf.fromString")
            if k2 != "value" or back != v:
                bad = bad or f"{label}: {v!r} is encoded as {wire[:40]!r}{'..' if len(wire) > 40 else ''} and decoded as {back!r} ({k2})"
        ctx.check(bad is None, "argument/list-round-trip", f"{QA}.ListOf | {label}", bad or "", detail=f"{len(samples)} lists, empty elements in first/middle/last position")
    # the element framing is the 16-bit prefix (an independent reader of the list value)
    ev = _ev(ctx, mod, consts)
    k, wire = run_eval(lambda: ev.method(cases[0][1], "toString", [[b"ab", b"", b"c" * 300]]))
    want = b"\x00\x02ab\x00\x00" + struct.pack(">H", 300) + b"c" * 300
    ctx.check(k == "value" and wire == want, "argument/list-framing", f"{QA}.ListOf | <element framing>",
              f"ListOf(String()).toString([b'ab', b'', 300 bytes]) is {wire[:24]!r}.. ({k}); each element must be its 16-bit big-endian length followed by its bytes")


def check_boxes_of_arguments(ctx, mod, consts):
    """toBox/fromBox through _objectsToStrings/_stringsToObjects, and AmpList through serialize/parse."""
    classes = {n.name: n for n in mod.tree.body if isinstance(n, ast.ClassDef)}
    I, U, S, AL, AB = (classes.get(n) or _fail(n + " vanished") for n in ("Integer", "Unicode", "String", "AmpList", "AmpBox"))
    o2s, s2o = ctx.func(AMP, "_objectsToStrings"), ctx.func(AMP, "_stringsToObjects")
    arglist = [(b"a", Inst(I, optional=False)), (b"from-x", Inst(U, optional=False)), (b"from", Inst(S, optional=False)), (b"opt", Inst(S, optional=True)), (b"opt2", Inst(I, optional=True))]
    objects = {"a": 7, "from_x": "été", "From": b"raw", "opt": None, "opt2": 5}
    want_strings = {b"a": b"7", b"from-x": "été".encode("utf-8"), b"from": b"raw", b"opt2": b"5"}
    ev = _ev(ctx, mod, consts)
    k, strings = run_eval(lambda: ev.func(o2s, [dict(objects), arglist, DictInst(AB), None]))
    _need(k, strings, "_objectsToStrings / Argument.toBox")
    got = dict(strings.data) if isinstance(strings, DictInst) else strings
    ctx.check(k == "value" and got == want_strings, "argument/box-round-trip", QA + "._objectsToStrings | <wire keys>",
              f"objects {objects!r} are written to the box as {got!r} ({k}); expected {want_strings!r}: each value under its wire name, an omitted optional argument leaves no key")
    if k == "value" and isinstance(strings, DictInst):
        k, back = run_eval(lambda: ev.func(s2o, [strings, arglist, None]))
        _need(k, back, "_stringsToObjects / Argument.fromBox")
        ctx.check(k == "value" and back == objects, "argument/box-round-trip", QA + "._stringsToObjects | <python keys>",
                  f"the box {got!r} is read back as {back!r} ({k}); expected {objects!r} (dashes become underscores, Python keywords are capitalised, a missing optional value is None)")
    # a required argument that is missing must raise, not be invented
    k, back = run_eval(lambda: ev.func(s2o, [DictInst(AB, data={b"from-x": b"x"}), arglist[:2], None]))
    _need(k, back, "_stringsToObjects")
    ctx.check(k == "raised", "argument/box-round-trip", QA + "._stringsToObjects | <missing required argument>", f"a box without the required key b'a' is accepted: {back!r}")
    # AmpList
    al = Inst(AL, subargs=arglist[:2], optional=False)
    for v in ([], [{"a": 1, "from_x": "x"}], [{"a": 1, "from_x": ""}, {"a": -5, "from_x": "€"}]):
        ev = _ev(ctx, mod, consts)
        k1, wire = run_eval(lambda: ev.method(al, "toStringProto", [[dict(x) for x in v], None]))
        _need(k1, wire, "AmpList.toStringProto")
        want = b"".join(oracle_encode({b"a": b"%d" % x["a"], b"from-x": x["from_x"].encode("utf-8")}) for x in v)
        ok = k1 == "value" and wire == want
        back = None
        if ok:
            k2, back = run_eval(lambda: ev.method(al, "fromStringProto", [wire, None]))
            _need(k2, back, "AmpList.fromStringProto")
            ok = k2 == "value" and back == v
        ctx.check(ok, "argument/box-round-trip", f"{QA}.AmpList | {len(v)} boxes", f"AmpList: {v!r} is encoded as {wire!r} ({k1}; oracle {want!r}) and decoded as {back!r}")
    # rows are independent: a row that omits an optional column must not inherit the value an earlier row had (every order of present / absent)
    al2 = Inst(AL, subargs=[(b"id", Inst(I, optional=False)), (b"name", Inst(U, optional=True)), (b"n", Inst(I, optional=True))], optional=False)
    for label, v in (("optional column present, then absent", [{"id": 1, "name": "one", "n": 5}, {"id": 2, "name": None, "n": None}]),
                     ("optional column absent, present, absent", [{"id": 1, "name": None, "n": None}, {"id": 2, "name": "two", "n": 0}, {"id": 3, "name": None, "n": 7}, {"id": 4, "name": None, "n": None}])):
        ev = _ev(ctx, mod, consts)
        k1, wire = run_eval(lambda: ev.method(al2, "toStringProto", [[dict(x) for x in v], None]))
        _need(k1, wire, "AmpList.toStringProto")

        def row(x):
            d = {b"id": b"%d" % x["id"]}
            if x["name"] is not None:
                d[b"name"] = x["name"].encode("utf-8")
            if x["n"] is not None:
                d[b"n"] = b"%d" % x["n"]
            return d
        want = b"".join(oracle_encode(row(x)) for x in v)
        back = None
        ok = k1 == "value" and wire == want
        if k1 == "value" and isinstance(wire, bytes):
            k2, back = run_eval(lambda: ev.method(al2, "fromStringProto", [wire, None]))
            _need(k2, back, "AmpList.fromStringProto")
            ok = ok and k2 == "value" and back == v
        ctx.check(ok, "argument/list-rows-independent", f"{QA}.AmpList | {label}",
                  f"AmpList rows {v!r} are decoded as {back!r} (encoded {k1}; an independent parser reads {oracle_parse(wire) if isinstance(wire, bytes) else None!r}): a row without an "
                  "optional value must not carry the value of an earlier row")


# ---- structural layer: for-all-inputs verdicts on the normalised code ---------------------------------------------------
# (private helpers inlined, single-assignment temporaries substituted, guards read through CFG dominance so that guard clauses,
#  inverted tests and flipped comparisons are the same thing)

def _struct_serialize(ctx, mod, consts):
    from sa.astx import call_name, lincmp, statements, walk_local
    from sa.props._lib_d import Inliner
    from sa.props._lib_g import expand, fmt_lin, lin_expect, single_defs
    q = QA + ".AmpBox.serialize"
    f = Inliner(mod, ["AmpBox"], ["serialize", "__init__", "copy", "_sendTo"]).view(ctx.func(AMP, "AmpBox.serialize"))
    g = ctx.cfg(f)
    defs = single_defs(f)
    rets = [st for st in statements(f) if isinstance(st, ast.Return) and isinstance(st.value, ast.Call) and isinstance(st.value.func, ast.Attribute) and st.value.func.attr == "join"
            and st.value.args and isinstance(st.value.args[0], ast.Name)]
    loops = [st for st in f.body if isinstance(st, ast.For) and isinstance(st.target, ast.Tuple) and len(st.target.elts) == 2 and all(isinstance(e, ast.Name) for e in st.target.elts)]
    if len(rets) != 1 or len(loops) != 1:
        ctx.note("box/length-prefix-width, box/guards-dominate-writes: serialize is not `for k, v in ...: <emit> ... return b''.join(<list>)`; clauses left to box/wire-form and "
                 "box/*-upper-bound (bounded)")
        return
    acc = rets[0].value.args[0].id
    loop = loops[0]
    kn, vn = loop.target.elts[0].id, loop.target.elts[1].id
    aliases = {st.targets[0].id for st in statements(f) if isinstance(st, ast.Assign) and len(st.targets) == 1 and isinstance(st.targets[0], ast.Name)
               and isinstance(st.value, ast.Attribute) and st.value.attr == "append" and src(st.value.value) == acc}
    fmt = "!H"

    def emits_of(st, mapping):
        """[(expression, statement)] emitted by one simple statement, None if it touches the accumulator in an unknown way"""
        if isinstance(st, ast.Expr) and isinstance(st.value, ast.Call):
            c = st.value
            if (isinstance(c.func, ast.Name) and c.func.id in aliases) or (isinstance(c.func, ast.Attribute) and c.func.attr == "append" and src(c.func.value) == acc):
                return [(c.args[0], st)] if len(c.args) == 1 else None
            if isinstance(c.func, ast.Attribute) and c.func.attr == "extend" and src(c.func.value) == acc and len(c.args) == 1 and isinstance(c.args[0], (ast.Tuple, ast.List)):
                return [(e, st) for e in c.args[0].elts]
        if isinstance(st, ast.AugAssign) and isinstance(st.target, ast.Name) and st.target.id == acc and isinstance(st.value, (ast.Tuple, ast.List)):
            return [(e, st) for e in st.value.elts]
        if any(isinstance(x, ast.Name) and x.id in aliases | {acc} for x in ast.walk(st)):
            return None
        return []

    items = []          # (kind, subject, stmt)
    unknown = False

    def walk(stmts, mapping):
        nonlocal unknown
        for st in stmts:
            if isinstance(st, ast.For) and isinstance(st.target, ast.Name) and isinstance(st.iter, (ast.Tuple, ast.List)) and all(isinstance(e, ast.Name) for e in st.iter.elts):
                for e in st.iter.elts:
                    walk(st.body, dict(mapping, **{st.target.id: mapping.get(e.id, e.id)}))
                continue
            if isinstance(st, ast.If):
                if any(emits_of(x, mapping) != [] for x in ast.walk(st) if isinstance(x, ast.stmt) and not isinstance(x, ast.If)):
                    unknown = True
                continue
            es = emits_of(st, mapping)
            if es is None:
                unknown = True
                continue
            for e, where in es:
                e2 = expand(e, defs)
                for x in ast.walk(e2):
                    if isinstance(x, ast.Name) and x.id in mapping:
                        x.id = mapping[x.id]
                if isinstance(e2, ast.Call) and call_name(e2) in ("pack", "struct.pack") and len(e2.args) == 2 and isinstance(e2.args[0], ast.Constant) \
                        and isinstance(e2.args[1], ast.Call) and call_name(e2.args[1]) == "len" and isinstance(e2.args[1].args[0], ast.Name):
                    items.append(("len", e2.args[0].value, e2.args[1].args[0].id, where))
                elif isinstance(e2, ast.Name):
                    items.append(("raw", None, e2.id, where))
                else:
                    items.append(("?", None, src(e2), where))
                    unknown = True
    walk(loop.body, {})
    shape = [(k, f_, n) for k, f_, n, _ in items]
    want = [("len", fmt, kn), ("raw", None, kn), ("len", fmt, vn), ("raw", None, vn)]
    if unknown or not items:
        ctx.note(f"box/length-prefix-width: the items emitted per pair were not all recognised ({[i[:3] for i in items if i[0] == '?'][:2]}); clause left to box/wire-form (bounded)")
    else:
        ctx.check(shape == want, "box/length-prefix-width", q + " | <items written per pair>",
                  f"per (key, value) pair the writer emits {shape!r}; the reader (Int16StringReceiver, format {fmt!r}) needs len16(key), key, len16(value), value in this order")
    # guards dominating the writes of the raw key / value
    for what, nm, limit in (("key", kn, consts.get("MAX_KEY_LENGTH")), ("value", vn, consts.get("MAX_VALUE_LENGTH"))):
        raw = [w_ for k, _, n, w_ in items if k == "raw" and n == nm]
        if not raw or unknown or not isinstance(limit, int):
            ctx.note(f"box/guards-dominate-writes: the write of the {what} was not recognised; clause left to box/{what}-length-upper-bound (bounded)")
            continue
        term = f"len({nm})"
        exp = lin_expect({term: -1}, -limit)
        for st in raw:
            for n in g.ids_of(st):
                forms = [lincmp(expand(g.node(t).ast, defs), consts, negate=(lab == "F")) for t, lab in g.edge_guards(n)]
                on = [fm for fm in forms if fm is not None and {k for k, _ in fm[0]} == {term} and dict(fm[0])[term] < 0]
                if exp in on:
                    ctx.ok("box/guards-dominate-writes", q + f" | <{what} written only when len <= {limit}>", fmt_lin(exp))
                elif on:
                    ctx.violation("box/guards-dominate-writes", q + f" | <{what} written only when len <= {limit}>",
                                  f"the {what} is written under the guard `{fmt_lin(on[0])}`; the format carries {what}s of up to exactly {limit} bytes (`{fmt_lin(exp)}`)")
                else:
                    ctx.note(f"box/guards-dominate-writes: no dominating length test on the {what} recognised; clause left to box/{what}-length-upper-bound (bounded)")
                break


def _struct_reader(ctx, mod, consts):
    from sa.astx import statements
    from sa.props._lib_d import Inliner
    from sa.props._lib_g import expand, is_self_attr, single_defs
    inl = Inliner(mod, ["BinaryBoxProtocol"], ["proto_init", "proto_key", "proto_value", "dataReceived", "connectionLost", "sendBox", "lengthLimitExceeded", "makeConnection"])
    q = QA + ".BinaryBoxProtocol"
    for meth, want_state, limit_attr, why in (("proto_key", "value", "_MAX_VALUE_LENGTH", "after a key the limit must be raised to the value limit (values up to 65535 bytes are legal)"),
                                               ("proto_value", "key", "_MAX_KEY_LENGTH", "after a value the limit must drop back to the key limit (else over-long keys are accepted)")):
        f = inl.view(ctx.func(AMP, f"BinaryBoxProtocol.{meth}"))
        g = ctx.cfg(f)
        defs = single_defs(f)
        rets = g.ids(lambda n: n.kind == "stmt" and isinstance(n.ast, ast.Return) and n.ast.value is not None and isinstance(expand(n.ast.value, defs), ast.Constant)
                     and expand(n.ast.value, defs).value == want_state)
        sets = g.ids(lambda n: n.kind == "stmt" and isinstance(n.ast, ast.Assign) and any(is_self_attr(t, "MAX_LENGTH") for t in n.ast.targets))
        good = [n for n in sets if is_self_attr(expand(g.node(n).ast.value, defs), limit_attr)]
        if not rets:
            ctx.note(f"reader/limit-toggle: no `return {want_state!r}` recognised in {meth}; clause left to reader/limits (bounded)")
            continue
        for r in rets:
            wit = g.must_precede(good, [r]) if good else [g.entry]
            # the last assignment of MAX_LENGTH before the return must be the right one: no other assignment between it and the return
            wrong = [n for n in sets if n not in good and g.path([n], [r], avoid=good, edge_ok=lambda a, b, l: l != "exc")]
            ctx.check(bool(good) and wit is None and not wrong, "reader/limit-toggle", f"{q}.{meth} | <state {want_state!r} entered>",
                      f"{meth} can switch to state {want_state!r} without self.MAX_LENGTH = self.{limit_attr}: {why}", witness=g.describe(wit) if good and wit else "")


def _struct_framing(ctx, consts):
    """The three comparisons that decide how IntNStringReceiver.dataReceived cuts the stream are in exact normal form
    (either polarity: `while a >= b` and `if a < b: break` are the same boundary)."""
    from sa.astx import call_name, lincmp, statements
    from sa.props._lib_g import expand, fmt_lin, lin_expect, single_defs
    f = ctx.func(BASIC, "IntNStringReceiver.dataReceived")
    q = QB + ".IntNStringReceiver.dataReceived"
    defs = single_defs(f)
    ups = [st for st in statements(f) if isinstance(st, ast.Assign) and isinstance(st.value, ast.Call) and call_name(st.value) in ("unpack", "struct.unpack")
           and isinstance(st.targets[0], (ast.Tuple, ast.List)) and len(st.targets[0].elts) == 1 and isinstance(st.targets[0].elts[0], ast.Name)]
    if len(ups) != 1:
        ctx.note("framing/boundary-normal-form: `(length,) = unpack(fmt, buffer[a:b])` not recognised; clause left to reader/split-invariance and the included C16 rule (bounded)")
        return
    ln = ups[0].targets[0].elts[0].id
    sl = ups[0].value.args[1] if len(ups[0].value.args) == 2 else None
    if not (isinstance(sl, ast.Subscript) and isinstance(sl.slice, ast.Slice) and isinstance(sl.value, ast.Name) and isinstance(sl.slice.lower, ast.Name)):
        ctx.note("framing/boundary-normal-form: prefix slice not recognised; clause left to reader/split-invariance (bounded)")
        return
    buf, off = sl.value.id, sl.slice.lower.id
    L, PL, MX = f"len({buf})", "self.prefixLength", "self.MAX_LENGTH"
    families = {
        "prefix available": (frozenset({L, off, PL}), lin_expect({L: 1, off: -1, PL: -1}, 0), "a whole length prefix is buffered"),
        "message complete": (frozenset({L, off, PL, ln}), lin_expect({L: 1, off: -1, PL: -1, ln: -1}, 0), "the whole string is buffered"),
        "length limit": (frozenset({ln, MX}), lin_expect({ln: 1, MX: -1}, 1), "the announced length exceeds MAX_LENGTH"),
    }
    seen = {k: [] for k in families}
    for t in ast.walk(f):
        if isinstance(t, ast.Compare) and len(t.ops) == 1 and isinstance(t.ops[0], (ast.Lt, ast.LtE, ast.Gt, ast.GtE)):
            fm = lincmp(expand(t, defs), consts)
            if fm is None:
                continue
            terms = frozenset(k for k, _ in fm[0])
            for name, (tset, _, _) in families.items():
                if terms == tset:
                    seen[name].append(fm)
    for name, (tset, canon, meaning) in families.items():
        if not seen[name]:
            ctx.note(f"framing/boundary-normal-form: no comparison over {sorted(tset)} recognised ({name}); clause left to reader/split-invariance (bounded)")
            continue
        neg = (frozenset((k, -v) for k, v in canon[0]), 1 - canon[1])
        for fm in seen[name]:
            ctx.check(fm in (canon, neg), "framing/boundary-normal-form", q + f" | <{name}>",
                      f"the receiver decides `{name}` with `{fmt_lin(fm)}`; the boundary must be exactly `{fmt_lin(canon)}` ({meaning}) or its negation `{fmt_lin(neg)}`: "
                      "one byte off delays the last string of a segment or unpacks a partial prefix / refuses a string of exactly MAX_LENGTH bytes")
    # the slices are contiguous: prefix = buffer[off : off+PL], payload = buffer[off+PL : off+PL+length]
    from sa.props._lib_g import lin_equal
    start = ast.parse(f"{off} + {PL}", mode="eval").body
    end = ast.parse(f"{off} + {PL} + {ln}", mode="eval").body
    known = {L, off, PL, ln}

    def resolved(e) -> bool:
        """every variable of the expanded expression is one of the quantities the rule reasons about (else: a local the rule could not read through)"""
        fm = lincmp(ast.Compare(left=expand(e, defs), ops=[ast.GtE()], comparators=[ast.Constant(value=0)]), consts)
        return fm is not None and {k for k, _ in fm[0]} <= known
    if sl.slice.upper is None or resolved(sl.slice.upper):
        ctx.check(sl.slice.upper is not None and lin_equal(sl.slice.upper, start, defs), "framing/slices-contiguous", q + " | <prefix slice>",
                  f"the length prefix is read from {buf}[{off}:{src(sl.slice.upper) if sl.slice.upper else ''}]; it must be exactly prefixLength bytes at the offset")
    else:
        ctx.note(f"framing/slices-contiguous: the upper bound `{src(sl.slice.upper)}` of the prefix slice is not an expression over the offset and prefixLength that the rule can "
                 "read; clause left to reader/split-invariance (bounded)")
    pays = [st for st in statements(f) if isinstance(st, ast.Assign) and isinstance(st.value, ast.Subscript) and isinstance(st.value.slice, ast.Slice) and src(st.value.value) == buf
            and st.value.slice.lower is not None and st.value.slice.upper is not None and isinstance(st.targets[0], ast.Name)
            and any(isinstance(c, ast.Call) and call_name(c) == "self.stringReceived" and [src(a) for a in c.args] == [st.targets[0].id] for c in ast.walk(f))]
    if not pays:
        # the slice handed to the callback directly:  self.stringReceived(buffer[a:b])
        direct = [c.args[0] for c in ast.walk(f) if isinstance(c, ast.Call) and call_name(c) == "self.stringReceived" and len(c.args) == 1 and isinstance(c.args[0], ast.Subscript)
                  and isinstance(c.args[0].slice, ast.Slice) and src(c.args[0].value) == buf and c.args[0].slice.lower is not None and c.args[0].slice.upper is not None]
        if len(direct) == 1:
            pays = [ast.Assign(targets=[ast.Name(id="<delivered>", ctx=ast.Store())], value=direct[0])]
    if len(pays) == 1 and not (resolved(pays[0].value.slice.lower) and resolved(pays[0].value.slice.upper)):
        ctx.note("framing/slices-contiguous: the bounds of the payload slice are not expressions the rule can read; clause left to reader/split-invariance (bounded)")
    elif len(pays) == 1:
        lo, hi = pays[0].value.slice.lower, pays[0].value.slice.upper
        ctx.check(lin_equal(lo, start, defs) and lin_equal(hi, end, defs), "framing/slices-contiguous", q + " | <payload slice>",
                  f"the delivered string is {buf}[{src(expand(lo, defs))}:{src(expand(hi, defs))}]; it must start right after the prefix and be `{ln}` bytes long")
    else:
        ctx.note("framing/slices-contiguous: the payload slice handed to stringReceived was not recognised; clause left to reader/split-invariance (bounded)")


def _struct_codec_tables(ctx, mod, consts):
    """Writer table vs reader table of two codecs whose two halves must agree on a layout."""
    from sa.astx import call_name, statements
    from sa.props._lib_g import class_const as _cc
    classes = {n.name: n for n in mod.tree.body if isinstance(n, ast.ClassDef)}
    # ListOf: the length prefix written per element == the prefix the reader parses
    lo = classes.get("ListOf")
    if lo is not None and "toString" in methods(lo) and "fromString" in methods(lo):
        ts, fs = methods(lo)["toString"], methods(lo)["fromString"]
        wf = sorted({c.args[0].value for c in ast.walk(ts) if isinstance(c, ast.Call) and call_name(c) in ("pack", "struct.pack") and c.args and isinstance(c.args[0], ast.Constant)})
        rf = sorted({c.args[0].value for c in ast.walk(fs) if isinstance(c, ast.Call) and call_name(c) in ("unpack", "struct.unpack") and c.args and isinstance(c.args[0], ast.Constant)})
        for c in ast.walk(fs):
            if isinstance(c, ast.Call) and isinstance(c.func, ast.Name) and c.func.id.endswith("StringReceiver"):
                pc = ctx.mod(BASIC).find(c.func.id)
                v = _cc(ctx.mod(BASIC), pc, "structFormat", {}) if isinstance(pc, ast.ClassDef) else None
                if isinstance(v, str):
                    rf = sorted(set(rf) | {v})
        if wf and rf:
            ctx.check(wf == rf, "argument/list-prefix-table", QA + ".ListOf | <element length prefix>", f"ListOf.toString packs element lengths with {wf}, ListOf.fromString reads them with {rf}")
        else:
            ctx.note("argument/list-prefix-table: pack/unpack formats of ListOf not recognised; clause left to argument/list-round-trip (bounded)")
    # DateTime: the %-format written vs the slice table read
    dt = classes.get("DateTime")
    if dt is None or "toString" not in methods(dt):
        return
    ts = methods(dt)["toString"]
    fmts = [n for n in ast.walk(ts) if isinstance(n, ast.BinOp) and isinstance(n.op, ast.Mod) and isinstance(n.left, ast.Constant) and isinstance(n.left.value, str)]
    pos_expr = class_assigns(dt).get("_positions")
    fields = _parse_percent(fmts[0].left.value) if len(fmts) == 1 else None
    if fields is None or not isinstance(pos_expr, (ast.List, ast.Tuple)) or not all(isinstance(e, ast.Call) and call_name(e) == "slice" and len(e.args) == 2 and
                                                                                     all(isinstance(a, ast.Constant) for a in e.args) for e in pos_expr.elts):
        ctx.note("datetime/layout-table: the %-format of toString or the _positions slice table was not recognised; clause left to datetime/round-trip (bounded)")
        return
    want = [(f_[1], f_[2]) for f_ in fields if f_[0] == "int"]
    got = [(e.args[0].value, e.args[1].value) for e in pos_expr.elts]
    names = ["year", "month", "day", "hour", "minute", "second", "microsecond", "tz hours", "tz minutes"]
    ctx.check(len(want) == len(got), "datetime/layout-table", QA + ".DateTime._positions | <count>", f"{len(got)} slices for {len(want)} integer fields of the format string")
    for i in range(min(len(want), len(got))):
        ctx.check(want[i] == got[i], "datetime/layout-table", QA + f".DateTime._positions | {names[i] if i < len(names) else i}",
                  f"the writer puts {names[i] if i < len(names) else i} at characters {want[i][0]}..{want[i][1]}, the reader's table says slice{got[i]}")
    total = fields[-1][2]
    fsn = methods(dt).get("fromString")
    if fsn is not None:
        lens = [c for c in ast.walk(fsn) if isinstance(c, ast.Compare) and isinstance(c.left, ast.Call) and call_name(c.left) == "len" and len(c.ops) == 1 and isinstance(c.comparators[0], ast.Constant)]
        if len(lens) == 1:
            ctx.check(lens[0].comparators[0].value == total, "datetime/layout-table", QA + ".DateTime.fromString | <length check>",
                      f"the writer produces {total} characters; the reader checks `{src(lens[0])}`")
        signs = [f_ for f_ in fields if f_[0] == "str"]
        p_ = fsn.args.args[1].arg
        idx = [n for n in ast.walk(fsn) if isinstance(n, ast.Subscript) and isinstance(n.value, ast.Name) and n.value.id == p_ and isinstance(n.slice, ast.Constant) and isinstance(n.slice.value, int)]
        if len(signs) == 1 and len(idx) == 1:
            ctx.check(idx[0].slice.value == signs[0][1], "datetime/layout-table", QA + ".DateTime.fromString | <sign index>",
                      f"the writer puts the sign at character {signs[0][1]}; the reader reads {src(idx[0])}")


def _struct_fresh_row_containers(ctx, mod):
    """Argument classes that serialise a SEQUENCE of rows (AmpList ...): the box a row is converted into is created inside the per-row scope (the
    comprehension element or the loop body), so no box object is shared between two rows - Argument.toBox leaves an absent optional value out, which
    only means 'absent' in a box that started empty."""
    from sa.astx import call_name
    n_sites = 0
    for c in _argument_classes(mod):
        for mname in ("toStringProto", "toString"):
            f = methods(c).get(mname)
            if f is None:
                continue
            q = f"{QA}.{c.name}.{mname}"
            # per-row scopes: for loops and comprehensions
            scopes = [x for x in ast.walk(f) if isinstance(x, (ast.For, ast.ListComp, ast.GeneratorExp, ast.SetComp, ast.DictComp))]
            for sc in scopes:
                inner = sc.body if isinstance(sc, ast.For) else ([sc.elt] if not isinstance(sc, ast.DictComp) else [sc.key, sc.value])
                inner_ids = {id(x) for st in inner for x in ast.walk(st)}
                for call in [x for st in inner for x in ast.walk(st) if isinstance(x, ast.Call)]:
                    # a call that fills a container with the row: _objectsToStrings(objects, arglist, <box>, proto) / <arg>.toBox(name, <box>, objects, proto)
                    box = None
                    if call_name(call) == "_objectsToStrings" and len(call.args) >= 3:
                        box = call.args[2]
                    elif isinstance(call.func, ast.Attribute) and call.func.attr == "toBox" and len(call.args) >= 2:
                        box = call.args[1]
                    if box is None:
                        continue
                    n_sites += 1
                    cons = f"{q} | {src(call)}"
                    if isinstance(box, ast.Call):
                        ctx.ok("argument/list-row-container-fresh", cons, f"`{src(box)}` is constructed for each row")
                        continue
                    if isinstance(box, ast.Name):
                        binds = [st for st in ast.walk(f) if isinstance(st, ast.Assign) and any(isinstance(t, ast.Name) and t.id == box.id for t in st.targets)]
                        inside = [b for b in binds if id(b) in inner_ids]
                        if binds and not inside and all(isinstance(b.value, (ast.Call, ast.Dict)) for b in binds):
                            ctx.violation("argument/list-row-container-fresh", cons,
                                          f"every row is converted into the same container `{box.id}` (created once by `{src(binds[0])}`, outside the per-row scope): an optional "
                                          "value that is None writes nothing, so the row keeps the value an earlier row put there - [{'id': 1, 'name': 'one'}, {'id': 2, 'name': None}] "
                                          "decodes with name 'one' twice")
                            continue
                        if inside and isinstance(sc, ast.For):
                            first_use = min((getattr(x, "lineno", 0) for st in inner for x in ast.walk(st) if x is call), default=0)
                            if all(getattr(b, "lineno", 0) <= first_use for b in inside):
                                ctx.ok("argument/list-row-container-fresh", cons, f"`{box.id}` is re-created in the loop body before it is filled")
                                continue
                    ctx.note(f"argument/list-row-container-fresh: {cons}: where the container comes from is not recognised; clause left to argument/list-rows-independent (bounded)")
    if not n_sites:
        ctx.note("argument/list-row-container-fresh: no per-row conversion into a box recognised in any Argument class")


def _raising_methods(mod) -> Dict[str, List[Tuple[ast.ClassDef, ast.FunctionDef, bool]]]:
    """Method name -> [(class, def, is generator)] for the methods of the module's classes whose body (private helpers of the same class followed)
    contains a raise statement: calling them - or, for a generator, advancing it - may refuse the box."""
    out: Dict[str, List[Tuple[ast.ClassDef, ast.FunctionDef, bool]]] = {}
    for c in [x for x in mod.tree.body if isinstance(x, ast.ClassDef)]:
        ms = methods(c)
        memo: Dict[str, bool] = {}

        def raises(name: str, stack=()) -> bool:
            if name in memo:
                return memo[name]
            if name in stack or name not in ms:
                return False
            f = ms[name]
            r = any(isinstance(n, ast.Raise) for n in ast.walk(f))
            if not r:
                for n in ast.walk(f):
                    if isinstance(n, ast.Call) and isinstance(n.func, ast.Attribute) and isinstance(n.func.value, ast.Name) and n.func.value.id in ("self", "cls") and raises(n.func.attr, stack + (name,)):
                        r = True
                        break
            memo[name] = r
            return r
        for name, f in ms.items():
            if raises(name):
                gen = any(isinstance(n, (ast.Yield, ast.YieldFrom)) for n in ast.walk(f))
                out.setdefault(name, []).append((c, f, gen))
    return out


def _struct_send_atomic(ctx, mod, consts):
    """A refused box leaves nothing on the wire: in BinaryBoxProtocol.sendBox (private helpers followed) no site that can still refuse the box - a raise
    statement, a call of a validating method of the box, a step of a validating generator - is reachable once a transport write has been executed."""
    from sa.props._lib_g import single_defs
    cls = ctx.cls(AMP, "BinaryBoxProtocol")
    entry = ctx.func(AMP, "BinaryBoxProtocol.sendBox")
    ms = methods(cls)
    raising = _raising_methods(mod)
    todo, seen = [entry], []
    while todo:
        f = todo.pop()
        if any(f is x for x in seen):
            continue
        seen.append(f)
        for c in ast.walk(f):
            if isinstance(c, ast.Call) and isinstance(c.func, ast.Attribute) and isinstance(c.func.value, ast.Name) and c.func.value.id == "self" and c.func.attr.startswith("_") and c.func.attr in ms:
                todo.append(ms[c.func.attr])
    n_writes = 0
    for f in seen:
        q = f"{QA}.BinaryBoxProtocol.{f.name}"
        g = ctx.cfg(f)
        defs = single_defs(f)

        def is_transport(e) -> bool:
            if isinstance(e, ast.Name) and e.id in defs:
                return is_transport(defs[e.id])
            return isinstance(e, ast.Attribute) and e.attr == "transport" and isinstance(e.value, ast.Name) and e.value.id == "self"

        def is_write(c) -> bool:
            if not isinstance(c, ast.Call):
                return False
            fn = c.func
            if isinstance(fn, ast.Name) and fn.id in defs:
                fn = defs[fn.id]
            return isinstance(fn, ast.Attribute) and fn.attr in ("write", "writeSequence") and is_transport(fn.value)

        def validating_call(c) -> Optional[Tuple[str, bool]]:
            if isinstance(c, ast.Call) and isinstance(c.func, ast.Attribute) and c.func.attr in raising and not (isinstance(c.func.value, ast.Name) and c.func.value.id == "self"):
                gens = [gen for _, _, gen in raising[c.func.attr]]
                return c.func.attr, all(gens)
            return None

        writes = g.find(is_write)
        n_writes += len(writes)
        if not writes:
            continue
        refusing: Dict[int, str] = {}
        for i in g.ids(lambda n: n.ast is not None):
            node = g.node(i)
            if node.kind == "stmt" and isinstance(node.ast, ast.Raise):
                refusing[i] = src(node.ast).split("\n")[0]
        for c in [x for x in ast.walk(f) if isinstance(x, ast.Call)]:
            vc = validating_call(c)
            if vc is None:
                continue
            name, is_gen = vc
            if not is_gen:
                for i in g.ids_of(c):
                    refusing[i] = f"{src(c)} (validates the box: may raise)"
            else:
                # the generator's validation runs at every step of the loop that consumes it
                for lp in [x for x in ast.walk(f) if isinstance(x, (ast.For, ast.comprehension))]:
                    it = lp.iter
                    if isinstance(it, ast.Name) and it.id in defs:
                        it = defs[it.id]
                    if it is c or src(it) == src(c):
                        for i in g.ids(lambda n, lp=lp: n.ast is lp):
                            refusing[i] = f"next step of the generator {src(c)} (validates entry by entry: may raise)"
                        for i in g.ids_of(lp.iter):
                            refusing.setdefault(i, f"next step of the generator {src(c)} (validates entry by entry: may raise)")
        for w in writes:
            cons = ctx.construct(q, g.node(w).ast) if not isinstance(g.node(w).ast, ast.Call) else f"{q} | {src(g.node(w).ast)}"
            starts = [d for d, l in g.succ[w] if l != "exc"]
            hit = g.path(starts, list(refusing), edge_ok=lambda a, b, l: l != "exc") if refusing and starts else None
            ctx.check(hit is None, "send/refused-box-writes-nothing", cons,
                      "after this transport write the box can still be refused (" + (refusing.get(hit[-1], "?") if hit else "") + "): the entries already written stay on the wire "
                      "without a terminator, so the peer parses the next box as a continuation of the refused one", witness=g.describe(hit) if hit else "")
    ctx.floor("send/refused-box-writes-nothing", n_writes, 1, "transport writes reachable from sendBox")


def check_send_refusal(ctx, mod, consts):
    """Bounded: a box refused by sendBox (bad entry sorting after good ones), then a good box - the transport holds exactly the good box."""
    ev = _ev(ctx, mod, consts)
    box_cls = ctx.cls(AMP, "AmpBox")
    q = QA + ".BinaryBoxProtocol.sendBox"
    good = {b"_ask": b"2", b"_command": b"ping"}
    cases = [("overlong key after valid entries", {b"alpha": b"1", b"z" * 256: b"2"}), ("overlong value after valid entries", {b"a": b"1", b"b": b"x" * 65536}),
             ("text value after valid entries", {b"a": b"1", b"b": "text"}), ("empty key before valid entries", {b"": b"1", b"b": b"2"})]
    for label, bad in cases:
        tr = Stub("transport", attrs={"disconnecting": False, "disconnected": False, "connected": True})     # an open connection
        proto = Inst(ctx.cls(AMP, "BinaryBoxProtocol"), boxReceiver=Stub("receiver"), transport=tr)
        k, r = run_eval(lambda: ev.method(proto, "sendBox", [DictInst(box_cls, data=dict(bad))]))
        _need(k, r, "BinaryBoxProtocol.sendBox")
        wrote = b"".join(bytes(x) for name, a, _ in tr.calls if name in ("write", "writeSequence") for x in (a[0] if name == "writeSequence" else [a[0]]))
        k2, r2 = run_eval(lambda: ev.method(proto, "sendBox", [DictInst(box_cls, data=dict(good))]))
        _need(k2, r2, "BinaryBoxProtocol.sendBox")
        allw = b"".join(bytes(x) for name, a, _ in tr.calls if name in ("write", "writeSequence") for x in (a[0] if name == "writeSequence" else [a[0]]))
        back = oracle_parse(allw)
        ctx.check(k == "raised" and wrote == b"" and k2 == "value" and back == [good], "send/refused-box-then-good-box", q + f" | {label}",
                  f"a box with an {label} is {'refused (' + str(r) + ')' if k == 'raised' else 'accepted'} after {len(wrote)} bytes of it reached the transport; the well-formed box sent next is read "
                  f"back by an independent parser as {back!r} instead of [{good!r}]")


def _parse_percent(fmt: str):
    """[(kind, start, end)] for a %-format made of %0Ni / %0Nd (fixed width N), %s (one char) and literals; None otherwise."""
    out, pos, i = [], 0, 0
    while i < len(fmt):
        ch = fmt[i]
        if ch != "%":
            out.append(("lit", pos, pos + 1))
            pos += 1
            i += 1
            continue
        j = i + 1
        num = ""
        while j < len(fmt) and fmt[j].isdigit():
            num += fmt[j]
            j += 1
        if j >= len(fmt):
            return None
        if fmt[j] in "id" and num.startswith("0") and len(num) >= 2:
            out.append(("int", pos, pos + int(num[1:])))
            pos += int(num[1:])
        elif fmt[j] == "s" and not num:
            out.append(("str", pos, pos + 1))
            pos += 1
        else:
            return None
        i = j + 1
    return out


def check(ctx):
    mod = ctx.mod(AMP)
    ctx.mod(BASIC)
    consts = module_consts(mod)
    with ctx.section("structural: serialize"):
        _struct_serialize(ctx, mod, consts)
    with ctx.section("structural: reader limits"):
        _struct_reader(ctx, mod, consts)
    with ctx.section("structural: framing boundaries"):
        _struct_framing(ctx, consts)
    with ctx.section("structural: codec tables"):
        _struct_codec_tables(ctx, mod, consts)
    with ctx.section("structural: list rows"):
        _struct_fresh_row_containers(ctx, mod)
    with ctx.section("structural: sendBox is atomic"):
        _struct_send_atomic(ctx, mod, consts)
    with ctx.section("AmpBox.serialize"):
        check_writer(ctx, mod, consts)
    with ctx.section("sendBox refusal"):
        check_send_refusal(ctx, mod, consts)
    with ctx.section("limits"):
        check_limits(ctx, mod, consts)
    with ctx.section("BinaryBoxProtocol reader"):
        check_reader(ctx, mod, consts)
    with ctx.section("argument pairing"):
        check_pairing(ctx, mod)
    check_leaf_codecs(ctx, mod, consts)      # one section per codec inside
    with ctx.section("ListOf"):
        check_lists(ctx, mod, consts)
    with ctx.section("boxes of arguments"):
        check_boxes_of_arguments(ctx, mod, consts)


_SER_HEAD = "        i = sorted(self.items())\n        L = []\n        w = L.append\n        for k, v in i:\n"
_SER_GEN_HEAD = "        return b\"\".join(self._serializedParts())\n\n    def _serializedParts(self):\n        for k, v in sorted(self.items()):\n"
_SER_TAIL = "            for kv in k, v:\n                w(pack(\"!H\", len(kv)))\n                w(kv)\n        w(pack(\"!H\", 0))\n        return b\"\".join(L)\n"
_SER_GEN_TAIL = "            for kv in k, v:\n                yield pack(\"!H\", len(kv))\n                yield kv\n        yield pack(\"!H\", 0)\n"

MUTANTS = [
    Mutant("walrus-bound-payload-start-one-byte-late", BASIC, "        while len(alldata) >= (currentOffset + prefixLength) and not self.paused:\n            messageStart = currentOffset + prefixLength\n", "        while len(alldata) >= (messageStart := currentOffset + prefixLength + 1) and not self.paused:\n", expect_rule="framing/slices-contiguous"),
    Mutant("flattening-generator-emits-payload-before-its-prefix", AMP, "            for kv in k, v:\n                w(pack(\"!H\", len(kv)))\n                w(kv)\n", "            L.extend(piece for kv in (k, v) for piece in (kv, pack(\"!H\", len(kv))))\n", expect_rule="box/wire-form"),
    Mutant("flattening-generator-filters-out-empty-values", AMP, "            for kv in k, v:\n                w(pack(\"!H\", len(kv)))\n                w(kv)\n", "            L.extend(piece for kv in (k, v) if kv for piece in (pack(\"!H\", len(kv)), kv))\n", expect_rule="box/wire-form"),
    # each row of an AmpList is converted into a container of its own
    Mutant("amplist-rows-accumulate-in-one-box-in-a-loop", AMP, "        return b\"\".join(\n            [\n                _objectsToStrings(objects, self.subargs, Box(), proto).serialize()\n                for objects in inObject\n            ]\n        )\n",
           "        collected = Box()\n        chunks = []\n        for objects in inObject:\n            _objectsToStrings(objects, self.subargs, collected, proto)\n            chunks.append(collected.serialize())\n        return b\"\".join(chunks)\n",
           expect_rule="argument/list-row-container-fresh"),
    Mutant("amplist-box-cleared-only-of-required-keys", AMP, "        return b\"\".join(\n            [\n                _objectsToStrings(objects, self.subargs, Box(), proto).serialize()\n                for objects in inObject\n            ]\n        )\n",
           "        shared = Box()\n        out = []\n        for objects in inObject:\n            for name, argument in self.subargs:\n                if not argument.optional:\n                    shared.pop(name, None)\n"
           "            out.append(_objectsToStrings(objects, self.subargs, shared, proto).serialize())\n        return b\"\".join(out)\n", expect_rule="argument/list-rows-independent"),
    Mutant("second-pass-encodes-value-before-key", AMP, "            for kv in k, v:\n                w(pack(\"!H\", len(kv)))\n                w(kv)\n        w(pack(\"!H\", 0))\n",
           "        for pair in i:\n            for kv in reversed(pair):\n                L += (pack(\"!H\", len(kv)), kv)\n        L.append(pack(\"!H\", 0))\n", expect_rule="box/wire-form"),
    Mutant("second-pass-extends-with-the-prefix-only", AMP, "            for kv in k, v:\n                w(pack(\"!H\", len(kv)))\n                w(kv)\n        w(pack(\"!H\", 0))\n",
           "        for pair in i:\n            for kv in pair:\n                L += (pack(\"!H\", len(kv)),)\n        L.append(pack(\"!H\", 0))\n", expect_rule="box/wire-form"),
    # a refused box leaves nothing on the wire
    Mutant("sendbox-writes-entry-by-entry", AMP, "            self.transport.write(box.serialize())\n",
           "            for key in sorted(box):\n                self.transport.write(AmpBox({key: box[key]}).serialize()[:-2])\n            self.transport.write(b\"\\x00\\x00\")\n",
           expect_rule="send/refused-box-writes-nothing"),
    Mutant("sendbox-streams-a-validating-generator", AMP, "            self.transport.write(box.serialize())\n", "            parts = box._serializedParts()\n            for part in parts:\n                self.transport.write(part)\n",
           more=[(AMP, _SER_HEAD, _SER_GEN_HEAD), (AMP, _SER_TAIL, _SER_GEN_TAIL)], expect_rule="send/refused-box-writes-nothing"),
    Mutant("key-limit-boundary", AMP, "            if len(k) > MAX_KEY_LENGTH:\n", "            if len(k) >= MAX_KEY_LENGTH:\n", expect_rule="box/key-length-upper-bound"),
    Mutant("overlong-key-skipped-silently", AMP, "            if len(k) > MAX_KEY_LENGTH:\n                raise TooLong(True, True, k, None)\n",
           "            if len(k) > MAX_KEY_LENGTH:\n                continue\n", expect_rule="box/key-length-upper-bound"),
    Mutant("pairs-normalised-with-bytes-constructor", AMP, "            if len(k) > MAX_KEY_LENGTH:\n                raise TooLong(True, True, k, None)\n",
           "            k = bytes(k)\n            v = bytes(v)\n            if len(k) > MAX_KEY_LENGTH:\n                raise TooLong(True, True, k, None)\n", expect_rule="box/no-coercion"),
    Mutant("values-coerced-when-emitted", AMP, "                w(kv)\n", "                w(bytes(kv))\n", expect_rule="box/refuses-non-bytes-evaluated"),
    Mutant("items-coerced-before-loop", AMP, "        i = sorted(self.items())\n", "        i = sorted((bytes(a), bytes(b)) for a, b in self.items() if type(a) != str and type(b) != str)\n", expect_rule=None),
    Mutant("value-before-key", AMP, "            for kv in k, v:\n", "            for kv in v, k:\n", expect_rule="box/wire-form"),
    Mutant("signed-length-prefix", AMP, '                w(pack("!H", len(kv)))\n', '                w(pack("!h", len(kv)))\n', expect_rule="box/value-length-upper-bound"),
    Mutant("value-limit-uses-key-limit", AMP, "            if len(v) > MAX_VALUE_LENGTH:\n", "            if len(v) > MAX_KEY_LENGTH:\n", expect_rule="box/value-length-upper-bound"),
    Mutant("box-reused-across-boxes", AMP, "        self._currentBox = AmpBox()\n        return self.proto_key(string)\n", "        if self._currentBox is None:\n            self._currentBox = AmpBox()\n        return self.proto_key(string)\n",
           more=[(AMP, "            self.boxReceiver.ampBoxReceived(self._currentBox)\n            self._currentBox = None\n", "            self.boxReceiver.ampBoxReceived(self._currentBox)\n")], expect_rule="reader/boxes-parsed-back"),
    Mutant("terminator-only-for-nonempty", AMP, '        w(pack("!H", 0))\n        return b"".join(L)\n', '        if L:\n            w(pack("!H", 0))\n        return b"".join(L)\n',
           expect_rule="box/wire-form"),
    Mutant("receiver-value-limit-shrunk", AMP, "    _MAX_VALUE_LENGTH = 65535\n", "    _MAX_VALUE_LENGTH = 65534\n", expect_rule="limits/value"),
    Mutant("limit-not-restored-after-value", AMP, "        self._currentKey = None\n        self.MAX_LENGTH = self._MAX_KEY_LENGTH\n", "        self._currentKey = None\n",
           expect_rule="reader/limits"),
    Mutant("value-stored-under-cleared-key", AMP, "        self._currentBox[self._currentKey] = string\n        self._currentKey = None\n", "        self._currentKey = None\n        self._currentBox[self._currentKey] = string\n",
           expect_rule="reader/boxes-parsed-back"),
    Mutant("terminator-returns-key-state", AMP, '            self._currentBox = None\n            return "init"\n', '            self._currentBox = None\n            return "key"\n',
           expect_rule="reader/boxes-parsed-back"),
    Mutant("prefix-needs-one-more-byte", BASIC, "        while len(alldata) >= (currentOffset + prefixLength) and not self.paused:\n",
           "        while len(alldata) > (currentOffset + prefixLength) and not self.paused:\n", expect_rule="reader/split-invariance"),
    Mutant("limit-inclusive", BASIC, "            if length > self.MAX_LENGTH:\n", "            if length >= self.MAX_LENGTH:\n", expect_rule="reader/limits"),
    Mutant("complete-string-waits", BASIC, "            if len(alldata) < messageEnd:\n", "            if len(alldata) <= messageEnd:\n", expect_rule="reader/split-invariance"),
    Mutant("tail-dropped-on-split", BASIC, "        self._unprocessed = alldata[currentOffset:]\n        self._compatibilityOffset = 0\n",
           "        self._unprocessed = alldata[messageStart:] if currentOffset else alldata\n        self._compatibilityOffset = 0\n".replace("messageStart", "currentOffset + prefixLength"),
           expect_rule="reader/split-invariance"),
    Mutant("payload-includes-prefix-byte", BASIC, "            packet = alldata[messageStart:messageEnd]\n", "            packet = alldata[messageStart - 1 : messageEnd]\n", expect_rule="reader/boxes-parsed-back"),
    Mutant("pending-bytes-after-new-data", BASIC, "        alldata = self._unprocessed + data\n", "        alldata = data + self._unprocessed\n", expect_rule="reader/split-invariance"),
    Mutant("float-fixed-point", AMP, '        return str(inString).encode("ascii")\n', '        return ("%f" % inString).encode("ascii")\n', expect_rule="argument/value-round-trip"),
    Mutant("integer-hex", AMP, '        return b"%d" % (inObject,)\n', '        return b"%x" % (inObject,)\n', expect_rule="argument/value-round-trip"),
    Mutant("boolean-false-lowercase", AMP, '        elif inString == b"False":\n', '        elif inString == b"false":\n', expect_rule="argument/value-round-trip"),
    Mutant("unicode-decodes-latin1", AMP, '        return String.fromString(self, inString).decode("utf-8")\n', '        return String.fromString(self, inString).decode("latin-1")\n',
           expect_rule="argument/value-round-trip"),
    Mutant("path-inherits-decoder", AMP, "    def fromString(self, inString):\n        return filepath.FilePath(Unicode.fromString(self, inString))\n\n", "", expect_rule="argument/pairing"),
    Mutant("listof-8bit-prefix", AMP, '            strings.append(pack("!H", len(serialized)))\n', '            strings.append(pack("!B", len(serialized)))\n', expect_rule="argument/list-framing"),
    Mutant("datetime-microsecond-slice", AMP, "        slice(20, 26),  # microsecond\n", "        slice(20, 25),  # microsecond\n", expect_rule="datetime/round-trip"),
    Mutant("datetime-offset-ignores-days", AMP, "        minutesOffset = (offset.days * 86400 + offset.seconds) // 60\n", "        minutesOffset = offset.seconds // 60\n", expect_rule="datetime/round-trip"),
    Mutant("datetime-hours-not-absolute", AMP, "            abs(minutesOffset) // 60,\n", "            minutesOffset // 60,\n", expect_rule="datetime/round-trip"),
    Mutant("decimal-via-float-repr", AMP, '            return str(inObject).encode("ascii")\n        raise ValueError("amp.Decimal can only encode instances of decimal.Decimal")\n',
           '            return str(float(inObject)).encode("ascii")\n        raise ValueError("amp.Decimal can only encode instances of decimal.Decimal")\n', expect_rule="argument/value-round-trip"),
    Mutant("datetime-sign-from-hour-part", AMP, "        if minutesOffset > 0:\n", "        if minutesOffset // 60 > 0:\n", expect_rule="datetime/round-trip"),
    Mutant("listof-reader-stops-before-trailing-empty-element", AMP, "        strings = []\n        parser = Int16StringReceiver()\n        parser.stringReceived = strings.append\n        parser.dataReceived(inString)\n",
           "        strings = []\n        pos = 0\n        while pos + 2 < len(inString):\n            (n,) = unpack(\"!H\", inString[pos : pos + 2])\n            strings.append(inString[pos + 2 : pos + 2 + n])\n            pos += 2 + n\n",
           more=[(AMP, "from struct import pack\n", "from struct import pack, unpack\n")], expect_rule="argument/list-round-trip"),
    Mutant("datetime-sign-index", AMP, "        sign = s[26]\n", "        sign = s[25]\n", expect_rule="datetime/round-trip"),
    Mutant("frombox-raw-key", AMP, "        nk = _wireNameToPythonIdentifier(name)\n", "        nk = nativeString(name)\n", expect_rule="argument/box-round-trip"),
    # the repaired finding F30 (commit 3d4becf): reverting or weakening the fix must be reported on "<empty key>"
    Mutant("F30-fix-reverted-empty-key-serialised", AMP, "            if len(k) == 0:\n                # A zero-length key is what terminates a box on the wire.\n                raise ValueError(f\"Empty key not allowed (value: {v!r})\")\n", "",
           expect_rule="box/key-length-lower-bound"),
    Mutant("F30-fix-weakened-empty-key-test-never-true", AMP, "            if len(k) == 0:\n", "            if len(k) < 0:\n", expect_rule="box/key-length-lower-bound"),
]

SILENT = [
    Silent("payload-start-bound-by-a-walrus-in-the-loop-header", BASIC, "        while len(alldata) >= (currentOffset + prefixLength) and not self.paused:\n            messageStart = currentOffset + prefixLength\n", "        while len(alldata) >= (messageStart := currentOffset + prefixLength) and not self.paused:\n"),
    Silent("pair-emitted-by-one-flattening-generator-expression", AMP, "            for kv in k, v:\n                w(pack(\"!H\", len(kv)))\n                w(kv)\n", "            L.extend(piece for kv in (k, v) for piece in (pack(\"!H\", len(kv)), kv))\n"),
    Silent("pair-emitted-through-map-and-a-nested-comprehension", AMP, "            for kv in k, v:\n                w(pack(\"!H\", len(kv)))\n                w(kv)\n", "            L.extend([piece for prefix, kv in zip(map(len, (k, v)), (k, v)) for piece in (pack(\"!H\", prefix), kv)])\n"),
    Silent("amplist-rows-in-a-loop-with-a-box-per-row", AMP, "        return b\"\".join(\n            [\n                _objectsToStrings(objects, self.subargs, Box(), proto).serialize()\n                for objects in inObject\n            ]\n        )\n",
           "        chunks = []\n        for objects in inObject:\n            rowBox = Box()\n            _objectsToStrings(objects, self.subargs, rowBox, proto)\n            chunks.append(rowBox.serialize())\n        return b\"\".join(chunks)\n"),
    Silent("serialize-validates-every-pair-then-encodes-in-a-second-pass", AMP, "            for kv in k, v:\n                w(pack(\"!H\", len(kv)))\n                w(kv)\n        w(pack(\"!H\", 0))\n",
           "        for pair in i:\n            for kv in pair:\n                L += (pack(\"!H\", len(kv)), kv)\n        L.append(pack(\"!H\", 0))\n"),
    Silent("serialize-joins-a-validating-generator", AMP, _SER_HEAD, _SER_GEN_HEAD, more=[(AMP, _SER_TAIL, _SER_GEN_TAIL)]),
    Silent("sendbox-exhausts-the-generator-before-writing", AMP, "            self.transport.write(box.serialize())\n", "            self.transport.writeSequence(list(box._serializedParts()))\n",
           more=[(AMP, _SER_HEAD, _SER_GEN_HEAD), (AMP, _SER_TAIL, _SER_GEN_TAIL)]),
    Silent("sendbox-serialises-into-a-local-first", AMP, "            self.transport.write(box.serialize())\n", "            wire = box.serialize()\n            write = self.transport.write\n            write(wire)\n"),
    Silent("serialize-unrolled-with-temporaries", AMP, "            if len(k) > MAX_KEY_LENGTH:\n                raise TooLong(True, True, k, None)\n            if len(v) > MAX_VALUE_LENGTH:\n                raise TooLong(False, True, v, k)\n            for kv in k, v:\n                w(pack(\"!H\", len(kv)))\n                w(kv)\n",
           "            nk = len(k)\n            if MAX_KEY_LENGTH < nk:\n                raise TooLong(True, True, k, None)\n            nv = len(v)\n            if MAX_VALUE_LENGTH < nv:\n                raise TooLong(False, True, v, k)\n            L.extend((pack(\"!H\", nk), k, pack(\"!H\", nv), v))\n"),
    Silent("proto-key-guard-clause", AMP, "        if string:\n            self._currentKey = string\n            self.MAX_LENGTH = self._MAX_VALUE_LENGTH\n            return \"value\"\n        else:\n            self.boxReceiver.ampBoxReceived(self._currentBox)\n            self._currentBox = None\n            return \"init\"\n",
           "        if not string:\n            done, self._currentBox = self._currentBox, None\n            self.boxReceiver.ampBoxReceived(done)\n            return \"init\"\n        self._currentKey = string\n        self.MAX_LENGTH = self._MAX_VALUE_LENGTH\n        return \"value\"\n"),
    Silent("framing-loop-with-break-guards", BASIC, "        while len(alldata) >= (currentOffset + prefixLength) and not self.paused:\n            messageStart = currentOffset + prefixLength\n",
           "        while True:\n            if self.paused or len(alldata) - currentOffset < prefixLength:\n                break\n            messageStart = currentOffset + prefixLength\n"),
    Silent("datetime-divmod-and-conditional-sign", AMP, "        if minutesOffset > 0:\n            sign = \"+\"\n        else:\n            sign = \"-\"\n", "        sign = \"+\" if 0 < minutesOffset else \"-\"\n        tzh, tzm = divmod(abs(minutesOffset), 60)\n",
           more=[(AMP, "            abs(minutesOffset) // 60,\n            abs(minutesOffset) % 60,\n", "            tzh,\n            tzm,\n")]),
    Silent("guards-as-not-le", AMP, "            if len(k) > MAX_KEY_LENGTH:\n", "            if not len(k) <= MAX_KEY_LENGTH:\n"),
    Silent("isinstance-refusal-and-literals", AMP, "            if type(k) == str:\n", "            if isinstance(k, str):\n",
           more=[(AMP, "            if len(v) > MAX_VALUE_LENGTH:\n", "            if len(v) > 0xFFFF:\n")]),
    Silent("unrolled-pair", AMP, '            for kv in k, v:\n                w(pack("!H", len(kv)))\n                w(kv)\n',
           '            w(pack("!H", len(k)))\n            w(k)\n            w(pack("!H", len(v)))\n            w(v)\n'),
    Silent("append-without-alias", AMP, '        w(pack("!H", 0))\n', '        L.append(b"\\x00\\x00")\n'),
    Silent("framing-flipped-comparisons", BASIC, "            if len(alldata) < messageEnd:\n                break\n", "            if not (messageEnd <= len(alldata)):\n                break\n",
           more=[(BASIC, "            if length > self.MAX_LENGTH:\n", "            if self.MAX_LENGTH < length:\n")]),
    Silent("empty-key-refusal-as-length-below-one", AMP, "            if len(k) == 0:\n", "            if len(k) < 1:\n"),
    Silent("empty-key-refusal-as-truthiness-raising-toolong", AMP, "            if len(k) == 0:\n                # A zero-length key is what terminates a box on the wire.\n                raise ValueError(f\"Empty key not allowed (value: {v!r})\")\n",
           "            if not k:\n                raise TooLong(True, True, k, None)\n"),
    Silent("datetime-sign-ge", AMP, "        if minutesOffset > 0:\n", "        if minutesOffset >= 0:\n"),
    Silent("explicit-bytes-test-added", AMP, "            if len(k) > MAX_KEY_LENGTH:\n                raise TooLong(True, True, k, None)\n",
           "            if not isinstance(k, (bytes, bytearray)) or not isinstance(v, (bytes, bytearray)):\n                raise TypeError(\"keys and values must be bytes\")\n            if len(k) > MAX_KEY_LENGTH:\n                raise TooLong(True, True, k, None)\n"),
    Silent("listof-inline-reader-correct", AMP, "        strings = []\n        parser = Int16StringReceiver()\n        parser.stringReceived = strings.append\n        parser.dataReceived(inString)\n",
           "        strings = []\n        pos = 0\n        while pos + 2 <= len(inString):\n            (n,) = unpack(\"!H\", inString[pos : pos + 2])\n            strings.append(inString[pos + 2 : pos + 2 + n])\n            pos += 2 + n\n",
           more=[(AMP, "from struct import pack\n", "from struct import pack, unpack\n")]),
    Silent("datetime-offset-split-first", AMP, "        minutesOffset = (offset.days * 86400 + offset.seconds) // 60\n", "        minutesOffset = (offset.days * 86400 + offset.seconds) // 60\n        tzHours, tzMinutes = abs(minutesOffset) // 60, abs(minutesOffset) % 60\n",
           more=[(AMP, "            abs(minutesOffset) // 60,\n            abs(minutesOffset) % 60,\n", "            tzHours,\n            tzMinutes,\n")], allow_error=False),
    Silent("boolean-ifexp", AMP, '        if inObject:\n            return b"True"\n        else:\n            return b"False"\n', '        return b"True" if inObject else b"False"\n'),
]
