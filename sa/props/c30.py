"""C30 - AMP wire format and argument types round-trip."""
from __future__ import annotations

import ast
import datetime
import decimal
import math
import struct
from typing import Dict, List, Optional, Tuple

from sa.astx import module_consts, src
from sa.props._lib_g import DictInst, Inst, MiniEval, Stub, class_const, run_eval
from sa.selftest import Mutant, Silent
from sa.source import AnalysisError, base_names, class_assigns, methods

PROPERTY = "C30"
INCLUDE = [("C16", ("intn/segmentation-invariant",), "BinaryBoxProtocol is an Int16StringReceiver: C16's evaluated segmentation invariance of the length-prefixed receivers is "
            "necessary for 'parsing it back, with the byte stream split arbitrarily' (C16's CFG-shaped intn/* rules are not included: they alarm on the behaviour-preserving "
            "refactor C30r4, and reader/split-invariance below evaluates the same clause end to end)")]
AMP = "protocols/amp.py"
BASIC = "protocols/basic.py"
QA = "twisted.protocols.amp"
QB = "twisted.protocols.basic"
TECHNIQUE = "interpretation of writer, reader and codecs on finite inputs against independent oracles"
EXPLANATION = (
    "The repository's methods are interpreted (whitelisted AST interpreter, twisted is never imported) and their OUTPUTS are compared with "
    "oracles written in the checker, so the verdict does not depend on how the code is spelled. "
    "Writer: AmpBox.serialize on sample boxes must produce len16(k) k len16(v) v ... plus one empty string (parsed back by an independent parser), accept "
    "255-byte keys and 65535-byte values, raise for longer ones and for int/bool/None/float/tuple/list/dict/str keys or values, and never rebind "
    "(coerce) the pair it is about to write; the empty key is not refused (known finding F30). "
    "Reader: BinaryBoxProtocol (dataReceived -> Int16StringReceiver -> StatefulStringProtocol -> proto_*) is fed the oracle encoding of several boxes "
    "cut at every byte boundary, byte by byte and at pairs of cuts, and must deliver equal boxes each time; a 255-byte key and a 65535-byte value "
    "are accepted, a 256-byte key (also as the second key of a box) disconnects without delivering; sender and receiver limits agree with the "
    "16-bit prefix. "
    "Arguments: every Argument subclass pairs toString/fromString (and the Proto/Box variants); Integer, String, Unicode, Boolean, Float, Decimal, "
    "DateTime (18 UTC offsets, sub-hour ones included, full field range), ListOf (empty elements in every position, nested), AmpList and the "
    "toBox/fromBox key mapping (dashes, Python keywords, optional arguments) are round-tripped through the interpreted code. "
    "Not decided: Path (needs FilePath), Descriptor, TLS and protocol switching."
)
ASSUMPTIONS = [
    "struct, str/bytes/int/float, decimal and datetime behave as in CPython 3.12 (they are used by the interpreter, not modelled)",
    "twisted.python.compat.nativeString(bytes) is bytes.decode('ascii'); FixedOffsetTimeZone.fromSignHoursMinutes(sign, h, m) is a fixed offset of "
    "+/-(h hours m minutes) and rejects other signs (both modelled)",
    "methods inherited from classes outside the analysed modules (Protocol.connectionMade ...) do nothing relevant",
]


def _fail(msg):
    raise AnalysisError("C30: " + msg)


def _need(kind, value, what):
    if kind == "unsupported":
        _fail(f"{what} uses a construct outside the interpreted subset: {value}")


def _native(x):
    return x.decode("ascii") if isinstance(x, bytes) else x


def _tz(sign, hours, minutes):
    if sign == "-":
        hours, minutes = -hours, -minutes
    elif sign != "+":
        raise ValueError("Invalid sign for timezone")
    return datetime.timezone(datetime.timedelta(hours=hours, minutes=minutes))


def _ev(ctx, mod, consts):
    return MiniEval(mod, consts=consts, extra_mods=[ctx.mod(BASIC)],
                    helpers={"nativeString": _native, "decimal.Decimal": decimal.Decimal, "_FixedOffsetTZInfo.fromSignHoursMinutes": _tz,
                             "datetime.datetime": datetime.datetime})


# ---- oracles (written here, independent of the code under analysis) ---------------------------------------------------

def oracle_encode(box: Dict[bytes, bytes]) -> bytes:
    out = b""
    for k in sorted(box):
        out += struct.pack(">H", len(k)) + k + struct.pack(">H", len(box[k])) + box[k]
    return out + b"\x00\x00"


def oracle_parse(wire: bytes) -> Optional[List[Dict[bytes, bytes]]]:
    """Boxes of a complete stream, None if the stream is not a sequence of complete boxes."""
    boxes, cur, key, pos = [], {}, None, 0
    while pos < len(wire):
        if pos + 2 > len(wire):
            return None
        n = int.from_bytes(wire[pos:pos + 2], "big")
        pos += 2
        if pos + n > len(wire):
            return None
        s = wire[pos:pos + n]
        pos += n
        if key is None:
            if n == 0:
                boxes.append(cur)
                cur = {}
            elif n > 255:
                return None
            else:
                key = s
        else:
            cur[key] = s
            key = None
    return boxes if (key is None and not cur) else None


# ---- A. writer ---------------------------------------------------------------------------------------------------------

def _serialize(ctx, mod, consts, cls, box):
    ev = _ev(ctx, mod, consts)
    k, out = run_eval(lambda: ev.method(DictInst(cls, data=dict(box)), "serialize", []))
    _need(k, out, "AmpBox.serialize")
    return k, out


def check_writer(ctx, mod, consts):
    cls = ctx.cls(AMP, "AmpBox")
    ctx.func(AMP, "AmpBox.serialize")
    q = QA + ".AmpBox.serialize"
    kmax, vmax = 255, 65535
    # wire form
    samples = [{b"k": b"v"}, {}, {b"a": b"", b"bb": b"x" * 300}, {b"_ask": b"1", b"_command": b"Sum", b"a": b"13", b"b": b"81"}, {b"z": b"\x00\xff", b"A": b"\x00\x00"}]
    bad = None
    for box in samples:
        k, out = _serialize(ctx, mod, consts, cls, box)
        back = oracle_parse(out) if k == "value" and isinstance(out, bytes) else None
        if back != [box]:
            bad = bad or f"AmpBox({box!r}).serialize() gives {out!r} ({k}); an independent parser reads {back!r}; the wire form is len16(key) key len16(value) value ... b'\\x00\\x00'"
    ctx.check(bad is None, "box/wire-form", q + " | <wire form>", bad or "", detail=f"{len(samples)} boxes parsed back by the oracle")
    # bounds
    k1, o1 = _serialize(ctx, mod, consts, cls, {b"k" * kmax: b"v"})
    k2, o2 = _serialize(ctx, mod, consts, cls, {b"k" * (kmax + 1): b"v"})
    ctx.check(k1 == "value" and oracle_parse(o1) == [{b"k" * kmax: b"v"}] and k2 == "raised", "box/key-length-upper-bound", q + " | <key of 255 / 256 bytes>",
              f"a {kmax}-byte key gives {k1} (must be written), a {kmax + 1}-byte key gives {k2 if k2 != 'value' else 'a wire string'} (must be refused: its length does not fit "
              "the one significant length byte the reader allows)")
    k1, o1 = _serialize(ctx, mod, consts, cls, {b"k": b"v" * vmax})
    k2, o2 = _serialize(ctx, mod, consts, cls, {b"k": b"v" * (vmax + 1)})
    k3, o3 = _serialize(ctx, mod, consts, cls, {b"k": b"v" * 300})
    ctx.check(k1 == "value" and oracle_parse(o1) == [{b"k": b"v" * vmax}] and k2 == "raised" and k3 == "value", "box/value-length-upper-bound", q + " | <value of 300 / 65535 / 65536 bytes>",
              f"a 300-byte value gives {k3}, a {vmax}-byte value gives {k1} (both must be written), a {vmax + 1}-byte value gives {k2 if k2 != 'value' else 'a wire string'} (must be refused)")
    # non-bytes keys / values
    odd = [("int", 7), ("bool", True), ("None", None), ("float", 1.5), ("tuple", (1, 2)), ("str", "text"), ("list", [1, 2, 3]), ("dict", {"a": 1}), ("int 0", 0)]
    for pos in ("key", "value"):
        bad = None
        n = 0
        for label, v in odd:
            try:
                box = {v: b"v"} if pos == "key" else {b"k": v}
            except TypeError:
                continue
            k, out = _serialize(ctx, mod, consts, cls, box)
            n += 1
            if k != "raised":
                bad = bad or f"AmpBox({box!r}).serialize() does not raise: it returns {out!r}, i.e. a {label} {pos} is silently mis-serialised instead of being refused"
        ctx.check(bad is None, "box/refuses-non-bytes-evaluated", q + f" | non-bytes {pos}", bad or "", detail=f"{n} non-bytes {pos}s, each must raise")
    # the empty key is the terminator
    k, out = _serialize(ctx, mod, consts, cls, {b"": b"x"})
    ctx.check(k == "raised", "box/key-length-lower-bound", q + " | <empty key>",
              "AmpBox({b'': b'x'}).serialize() is accepted: the zero-length key is written as b'\\x00\\x00', which the reader (proto_key) "
              "takes as the end of the box, so the rest of this box and the next box are mis-framed")
    # static: the pair about to be written is never rebound (a coercion turns a refusal into a silent mis-serialisation)
    f = ctx.func(AMP, "AmpBox.serialize")
    loops = [st for st in ast.walk(f) if isinstance(st, ast.For) and isinstance(st.target, ast.Tuple) and len(st.target.elts) == 2 and all(isinstance(e, ast.Name) for e in st.target.elts)]
    coerced = False
    for loop in loops:
        kn, vn = loop.target.elts[0].id, loop.target.elts[1].id
        for st in ast.walk(loop):
            if st is loop or not isinstance(st, (ast.Assign, ast.AugAssign, ast.AnnAssign, ast.For, ast.NamedExpr)):
                continue
            tg = st.targets if isinstance(st, ast.Assign) else [st.target]
            stored = {x.id for t in tg for x in ast.walk(t) if isinstance(x, ast.Name) and isinstance(x.ctx, ast.Store)}
            for nm, what in ((kn, "key"), (vn, "value")):
                if nm in stored:
                    coerced = True
                    ctx.violation("box/no-coercion", ctx.construct(q, st if not isinstance(st, ast.For) else f"for {src(st.target)} in {src(st.iter)}:") + f" | {what}",
                                  f"the {what} is replaced by `{src(getattr(st, 'value', st))[:80]}` before it is measured and written: a conversion such as bytes(7) (seven NUL bytes), "
                                  "bytes([1, 2, 3]) or bytes(True) turns a non-bytes value that must be refused into a silent mis-serialisation")
    if not coerced:
        ctx.ok("box/no-coercion", q + " | <pair loops scanned>", f"{len(loops)} loop(s) over (key, value) pairs")


# ---- B. reader ---------------------------------------------------------------------------------------------------------

def check_limits(ctx, mod, consts):
    bmod = ctx.mod(BASIC)
    bbp = ctx.cls(AMP, "BinaryBoxProtocol")
    q = QA + ".BinaryBoxProtocol"
    i16 = ctx.cls(BASIC, "Int16StringReceiver")
    fmt = class_const(bmod, i16, "structFormat", {})
    plen = class_const(bmod, i16, "prefixLength", {})
    ctx.check(fmt == "!H" and plen == 2, "framing/prefix", QB + ".Int16StringReceiver | structFormat",
              f"Int16StringReceiver: structFormat={fmt!r} prefixLength={plen!r}; AMP strings carry a 2-byte network-order unsigned length")
    bases = base_names(bbp)
    ctx.check("Int16StringReceiver" in bases and "StatefulStringProtocol" in bases and bases.index("StatefulStringProtocol") < bases.index("Int16StringReceiver"),
              "reader/class-shape", q + " | bases", f"BinaryBoxProtocol bases are {bases}: stringReceived must resolve to StatefulStringProtocol's dispatcher in front of the 16-bit receiver")
    kmax, vmax = consts.get("MAX_KEY_LENGTH"), consts.get("MAX_VALUE_LENGTH")
    ca = {k: class_const(mod, bbp, k, consts) for k in ("_MAX_KEY_LENGTH", "_MAX_VALUE_LENGTH", "MAX_LENGTH")}
    ctx.check(kmax == 255 and ca["_MAX_KEY_LENGTH"] == kmax, "limits/key", QA + " | MAX_KEY_LENGTH",
              f"sender limit MAX_KEY_LENGTH={kmax!r}, receiver limit _MAX_KEY_LENGTH={ca['_MAX_KEY_LENGTH']!r}; both must be 255 (one length byte, first prefix byte zero)")
    ctx.check(vmax == 65535 and ca["_MAX_VALUE_LENGTH"] == vmax, "limits/value", QA + " | MAX_VALUE_LENGTH",
              f"sender limit MAX_VALUE_LENGTH={vmax!r}, receiver limit _MAX_VALUE_LENGTH={ca['_MAX_VALUE_LENGTH']!r}, largest length the 16-bit prefix can carry is 65535")
    ctx.check(ca["MAX_LENGTH"] == ca["_MAX_KEY_LENGTH"] and ca["MAX_LENGTH"] is not None, "limits/initial", q + " | MAX_LENGTH",
              f"the initial MAX_LENGTH is {ca['MAX_LENGTH']!r}; the first string of a connection is a key (limit {ca['_MAX_KEY_LENGTH']!r})")


def _feed(ctx, mod, consts, chunks):
    """Interpret BinaryBoxProtocol on the chunks; -> (kind, delivered boxes as dicts, transport stub, protocol instance)."""
    ev = _ev(ctx, mod, consts)
    recv = Inst(ctx.cls(AMP, "_ParserHelper"), boxes=[])
    tr = Stub("transport")
    proto = Inst(ctx.cls(AMP, "BinaryBoxProtocol"), boxReceiver=recv, transport=tr)
    for c in chunks:
        k, r = run_eval(lambda: ev.method(proto, "dataReceived", [c]))
        _need(k, r, "BinaryBoxProtocol.dataReceived")
        if k == "raised":
            return f"raised {r}", [dict(b.data) if isinstance(b, DictInst) else b for b in recv.fields["boxes"]], tr, proto
    return "ok", [dict(b.data) if isinstance(b, DictInst) else b for b in recv.fields["boxes"]], tr, proto


def check_reader(ctx, mod, consts):
    for name in ("dataReceived", "proto_init", "proto_key", "proto_value", "lengthLimitExceeded"):
        ctx.func(AMP, f"BinaryBoxProtocol.{name}")
    ctx.func(BASIC, "IntNStringReceiver.dataReceived")
    ctx.func(BASIC, "StatefulStringProtocol.stringReceived")
    q = QA + ".BinaryBoxProtocol"
    boxes = [{b"a": b"1", b"bb": b""}, {b"k": b"vvv"}, {}, {b"_ask": b"2", b"x": b"\x00\x01"}]
    wire = b"".join(oracle_encode(b) for b in boxes)
    # whole stream at once
    st, got, tr, _ = _feed(ctx, mod, consts, [wire])
    ctx.check(st == "ok" and got == boxes, "reader/boxes-parsed-back", q + " | <whole stream>",
              f"the encoding of {boxes!r} delivered in one piece is parsed as {got!r} ({st})")
    # every single cut, byte by byte, and pairs of cuts
    plans = [[wire[:i], wire[i:]] for i in range(1, len(wire))]
    plans.append([wire[i:i + 1] for i in range(len(wire))])
    plans += [[wire[:i], wire[i:j], wire[j:]] for i in range(1, len(wire), 3) for j in range(i + 1, len(wire), 5)]
    bad = None
    for chunks in plans:
        st, got, tr, _ = _feed(ctx, mod, consts, chunks)
        if st != "ok" or got != boxes:
            cut = [len(c) for c in chunks]
            bad = bad or f"the same {len(wire)} bytes delivered in pieces of {cut if len(cut) < 8 else str(cut[:6]) + '...'} bytes are parsed as {got!r} ({st}) instead of {boxes!r}"
    ctx.check(bad is None, "reader/split-invariance", q + " | <stream cut arbitrarily>", bad or "", detail=f"{len(plans)} segmentations of a {len(wire)}-byte stream")
    # limits on the receiving side
    big = {b"K" * 255: b"V" * 65535, b"a": b"b"}
    st, got, tr, _ = _feed(ctx, mod, consts, [oracle_encode(big)[:40000], oracle_encode(big)[40000:]])
    ctx.check(st == "ok" and got == [big] and not tr.called("loseConnection"), "reader/limits", q + " | <255-byte key, 65535-byte value>",
              f"a box with a 255-byte key and a 65535-byte value is not accepted ({st}, {len(got)} boxes, disconnects: {len(tr.called('loseConnection'))})")
    for label, stream in (("first key", struct.pack(">H", 256) + b"K" * 256 + b"\x00\x01v\x00\x00"),
                          ("second key", b"\x00\x01a\x00\x01b" + struct.pack(">H", 256) + b"K" * 256 + b"\x00\x01v\x00\x00")):
        st, got, tr, proto = _feed(ctx, mod, consts, [stream])
        ctx.check(st == "ok" and got == [] and bool(tr.called("loseConnection")), "reader/limits", q + f" | <256-byte key as {label}>",
                  f"a 256-byte key ({label} of a box) is {'accepted' if got else 'not answered by a disconnect'}: delivered {got!r}, disconnects: {len(tr.called('loseConnection'))} "
                  "(the key limit must be in force whenever a key is expected)")


# ---- C. argument types ---------------------------------------------------------------------------------------------------

PAIRS = (("toString", "fromString"), ("toStringProto", "fromStringProto"), ("toBox", "fromBox"))
PAIR_EXCEPTIONS = {("_LocalArgument", "fromBox"): "local arguments are never relayed over the wire; fromBox is a documented no-op"}


def _argument_classes(mod) -> List[ast.ClassDef]:
    classes = {n.name: n for n in mod.tree.body if isinstance(n, ast.ClassDef)}

    def derives(c, seen=()):
        for b in base_names(c):
            if b == "Argument" or (b in classes and b not in seen and derives(classes[b], seen + (b,))):
                return True
        return False

    return [c for c in classes.values() if derives(c)]


def check_pairing(ctx, mod):
    args = _argument_classes(mod)
    ctx.floor("argument/pairing", len(args), 12, "Argument subclasses")
    for c in args:
        d = set(methods(c)) | set(class_assigns(c))
        for a, b in PAIRS:
            if (a in d) == (b in d):
                if a in d:
                    ctx.ok("argument/pairing", f"{QA}.{c.name} | {a}/{b}")
                continue
            lone = a if a in d else b
            if (c.name, lone) in PAIR_EXCEPTIONS:
                ctx.ok("argument/pairing", f"{QA}.{c.name} | {a}/{b}", "documented exception: " + PAIR_EXCEPTIONS[(c.name, lone)])
                continue
            ctx.violation("argument/pairing", f"{QA}.{c.name} | {a}/{b}",
                          f"{c.name} overrides {lone} but inherits {b if lone == a else a} from its base: the two directions no longer use the same encoding")


def _same(v, back) -> bool:
    if isinstance(v, decimal.Decimal):
        return isinstance(back, decimal.Decimal) and back.as_tuple() == v.as_tuple()
    if isinstance(v, float):
        if not isinstance(back, float):
            return False
        if math.isnan(v):
            return math.isnan(back)
        return back == v and math.copysign(1.0, v) == math.copysign(1.0, back)
    if isinstance(v, datetime.datetime):
        return isinstance(back, datetime.datetime) and back == v and back.utcoffset() == v.utcoffset() and \
            (back.year, back.month, back.day, back.hour, back.minute, back.second, back.microsecond) == (v.year, v.month, v.day, v.hour, v.minute, v.second, v.microsecond)
    return type(back) is type(v) and back == v


def check_leaf_codecs(ctx, mod, consts):
    D = decimal.Decimal
    tzs = [datetime.timezone(datetime.timedelta(minutes=m)) for m in (-840, -720, -90, -61, -60, -59, -30, -1, 0, 1, 30, 59, 60, 61, 90, 330, 720, 840)]
    dts = [datetime.datetime(2012, 1, 23, 12, 34, 56, 54321, tz) for tz in tzs] + \
        [datetime.datetime(1, 1, 1, 0, 0, 0, 0, tzs[8]), datetime.datetime(9999, 12, 31, 23, 59, 59, 999999, tzs[8]), datetime.datetime(2000, 2, 29, 9, 8, 7, 123456, tzs[3])]
    samples = {
        "Integer": [0, 1, -1, 255, 2 ** 64, -(2 ** 200), 10 ** 30],
        "String": [b"", b"a", b"\x00\xff", b"x" * 300],
        "Unicode": ["", "a", "é", "€", "\U0001f600", "a\x00b", "퟿"],
        "Boolean": [True, False],
        "Float": [0.0, -0.0, 1.5, 0.1, 1e300, 5e-324, float("inf"), float("-inf"), float("nan"), -2.5e-10],
        "Decimal": [D("0"), D("-0"), D("1.5"), D("1.50"), D("1E+2"), D("-1E-7"), D("Infinity"), D("-Infinity"), D("NaN"), D("-sNaN"), D("123456789012345678901234567890.5")],
        "DateTime": dts,
    }
    classes = {n.name: n for n in mod.tree.body if isinstance(n, ast.ClassDef)}
    for cname, vals in samples.items():
        with ctx.section(f"codec {cname}"):
            c = classes.get(cname) or _fail(f"argument class {cname} vanished")
            inst = Inst(c, optional=False)
            bad = None
            encs = {}
            for v in vals:
                ev = _ev(ctx, mod, consts)
                k1, s = run_eval(lambda: ev.method(inst, "toString", [v]))
                _need(k1, s, f"{cname}.toString")
                if k1 == "raised" or not isinstance(s, bytes):
                    bad = bad or f"{cname}().toString({v!r}) gives {s!r} ({k1}); a byte string is required"
                    continue
                k2, back = run_eval(lambda: ev.method(inst, "fromString", [s]))
                _need(k2, back, f"{cname}.fromString")
                if k2 != "value" or not _same(v, back):
                    bad = bad or f"{cname}: {v!r} is encoded as {s!r} and decoded as {back!r} ({k2})"
                encs.setdefault(s, v)
            if not bad and len(encs) != len(vals) and cname not in ("Float",):
                bad = f"{cname}: two different values share one encoding"
            ctx.check(bad is None, "argument/value-round-trip" if cname != "DateTime" else "datetime/round-trip", f"{QA}.{cname} | toString/fromString", bad or "",
                      detail=f"{len(vals)} representative values")


def check_lists(ctx, mod, consts):
    classes = {n.name: n for n in mod.tree.body if isinstance(n, ast.ClassDef)}
    lo, S, I, U = (classes.get(n) or _fail(n + " vanished") for n in ("ListOf", "String", "Integer", "Unicode"))
    cases = [("ListOf(String())", Inst(lo, elementType=Inst(S, optional=False), optional=False),
              [[], [b""], [b"foo"], [b"foo", b""], [b"", b"foo"], [b"", b""], [b"a", b"", b"b"], [b"x" * 300, b"y"]]),
             ("ListOf(Unicode())", Inst(lo, elementType=Inst(U, optional=False), optional=False), [["x", ""], ["", "€"], []]),
             ("ListOf(ListOf(Integer()))", Inst(lo, elementType=Inst(lo, elementType=Inst(I, optional=False), optional=False), optional=False),
              [[[1, 2], []], [[], [3]], [[]], [[], []], [[10 ** 20]]])]
    for label, inst, samples in cases:
        bad = None
        for v in samples:
            ev = _ev(ctx, mod, consts)
            k1, wire = run_eval(lambda: ev.method(inst, "toString", [v]))
            _need(k1, wire, "ListOf.toString")
            if k1 != "value" or not isinstance(wire, bytes):
                bad = bad or f"{label}.toString({v!r}) gives {wire!r} ({k1})"
                continue
            k2, back = run_eval(lambda: ev.method(inst, "fromString", [wire]))
            _need(k2, back, "ListOf.fromString")
            if k2 != "value" or back != v:
                bad = bad or f"{label}: {v!r} is encoded as {wire[:40]!r}{'..' if len(wire) > 40 else ''} and decoded as {back!r} ({k2})"
        ctx.check(bad is None, "argument/list-round-trip", f"{QA}.ListOf | {label}", bad or "", detail=f"{len(samples)} lists, empty elements in first/middle/last position")
    # the element framing is the 16-bit prefix (an independent reader of the list value)
    ev = _ev(ctx, mod, consts)
    k, wire = run_eval(lambda: ev.method(cases[0][1], "toString", [[b"ab", b"", b"c" * 300]]))
    want = b"\x00\x02ab\x00\x00" + struct.pack(">H", 300) + b"c" * 300
    ctx.check(k == "value" and wire == want, "argument/list-framing", f"{QA}.ListOf | <element framing>",
              f"ListOf(String()).toString([b'ab', b'', 300 bytes]) is {wire[:24]!r}.. ({k}); each element must be its 16-bit big-endian length followed by its bytes")


def check_boxes_of_arguments(ctx, mod, consts):
    """toBox/fromBox through _objectsToStrings/_stringsToObjects, and AmpList through serialize/parse."""
    classes = {n.name: n for n in mod.tree.body if isinstance(n, ast.ClassDef)}
    I, U, S, AL, AB = (classes.get(n) or _fail(n + " vanished") for n in ("Integer", "Unicode", "String", "AmpList", "AmpBox"))
    o2s, s2o = ctx.func(AMP, "_objectsToStrings"), ctx.func(AMP, "_stringsToObjects")
    arglist = [(b"a", Inst(I, optional=False)), (b"from-x", Inst(U, optional=False)), (b"from", Inst(S, optional=False)), (b"opt", Inst(S, optional=True)), (b"opt2", Inst(I, optional=True))]
    objects = {"a": 7, "from_x": "été", "From": b"raw", "opt": None, "opt2": 5}
    want_strings = {b"a": b"7", b"from-x": "été".encode("utf-8"), b"from": b"raw", b"opt2": b"5"}
    ev = _ev(ctx, mod, consts)
    k, strings = run_eval(lambda: ev.func(o2s, [dict(objects), arglist, DictInst(AB), None]))
    _need(k, strings, "_objectsToStrings / Argument.toBox")
    got = dict(strings.data) if isinstance(strings, DictInst) else strings
    ctx.check(k == "value" and got == want_strings, "argument/box-round-trip", QA + "._objectsToStrings | <wire keys>",
              f"objects {objects!r} are written to the box as {got!r} ({k}); expected {want_strings!r}: each value under its wire name, an omitted optional argument leaves no key")
    if k == "value" and isinstance(strings, DictInst):
        k, back = run_eval(lambda: ev.func(s2o, [strings, arglist, None]))
        _need(k, back, "_stringsToObjects / Argument.fromBox")
        ctx.check(k == "value" and back == objects, "argument/box-round-trip", QA + "._stringsToObjects | <python keys>",
                  f"the box {got!r} is read back as {back!r} ({k}); expected {objects!r} (dashes become underscores, Python keywords are capitalised, a missing optional value is None)")
    # a required argument that is missing must raise, not be invented
    k, back = run_eval(lambda: ev.func(s2o, [DictInst(AB, data={b"from-x": b"x"}), arglist[:2], None]))
    _need(k, back, "_stringsToObjects")
    ctx.check(k == "raised", "argument/box-round-trip", QA + "._stringsToObjects | <missing required argument>", f"a box without the required key b'a' is accepted: {back!r}")
    # AmpList
    al = Inst(AL, subargs=arglist[:2], optional=False)
    for v in ([], [{"a": 1, "from_x": "x"}], [{"a": 1, "from_x": ""}, {"a": -5, "from_x": "€"}]):
        ev = _ev(ctx, mod, consts)
        k1, wire = run_eval(lambda: ev.method(al, "toStringProto", [[dict(x) for x in v], None]))
        _need(k1, wire, "AmpList.toStringProto")
        want = b"".join(oracle_encode({b"a": b"%d" % x["a"], b"from-x": x["from_x"].encode("utf-8")}) for x in v)
        ok = k1 == "value" and wire == want
        back = None
        if ok:
            k2, back = run_eval(lambda: ev.method(al, "fromStringProto", [wire, None]))
            _need(k2, back, "AmpList.fromStringProto")
            ok = k2 == "value" and back == v
        ctx.check(ok, "argument/box-round-trip", f"{QA}.AmpList | {len(v)} boxes", f"AmpList: {v!r} is encoded as {wire!r} ({k1}; oracle {want!r}) and decoded as {back!r}")


def check(ctx):
    mod = ctx.mod(AMP)
    ctx.mod(BASIC)
    consts = module_consts(mod)
    with ctx.section("AmpBox.serialize"):
        check_writer(ctx, mod, consts)
    with ctx.section("limits"):
        check_limits(ctx, mod, consts)
    with ctx.section("BinaryBoxProtocol reader"):
        check_reader(ctx, mod, consts)
    with ctx.section("argument pairing"):
        check_pairing(ctx, mod)
    check_leaf_codecs(ctx, mod, consts)      # one section per codec inside
    with ctx.section("ListOf"):
        check_lists(ctx, mod, consts)
    with ctx.section("boxes of arguments"):
        check_boxes_of_arguments(ctx, mod, consts)


MUTANTS = [
    Mutant("key-limit-boundary", AMP, "            if len(k) > MAX_KEY_LENGTH:\n", "            if len(k) >= MAX_KEY_LENGTH:\n", expect_rule="box/key-length-upper-bound"),
    Mutant("overlong-key-skipped-silently", AMP, "            if len(k) > MAX_KEY_LENGTH:\n                raise TooLong(True, True, k, None)\n",
           "            if len(k) > MAX_KEY_LENGTH:\n                continue\n", expect_rule="box/key-length-upper-bound"),
    Mutant("pairs-normalised-with-bytes-constructor", AMP, "            if len(k) > MAX_KEY_LENGTH:\n                raise TooLong(True, True, k, None)\n",
           "            k = bytes(k)\n            v = bytes(v)\n            if len(k) > MAX_KEY_LENGTH:\n                raise TooLong(True, True, k, None)\n", expect_rule="box/no-coercion"),
    Mutant("values-coerced-when-emitted", AMP, "                w(kv)\n", "                w(bytes(kv))\n", expect_rule="box/refuses-non-bytes-evaluated"),
    Mutant("items-coerced-before-loop", AMP, "        i = sorted(self.items())\n", "        i = sorted((bytes(a), bytes(b)) for a, b in self.items() if type(a) != str and type(b) != str)\n", expect_rule=None),
    Mutant("value-before-key", AMP, "            for kv in k, v:\n", "            for kv in v, k:\n", expect_rule="box/wire-form"),
    Mutant("signed-length-prefix", AMP, '                w(pack("!H", len(kv)))\n', '                w(pack("!h", len(kv)))\n', expect_rule="box/value-length-upper-bound"),
    Mutant("value-limit-uses-key-limit", AMP, "            if len(v) > MAX_VALUE_LENGTH:\n", "            if len(v) > MAX_KEY_LENGTH:\n", expect_rule="box/value-length-upper-bound"),
    Mutant("box-reused-across-boxes", AMP, "        self._currentBox = AmpBox()\n        return self.proto_key(string)\n", "        if self._currentBox is None:\n            self._currentBox = AmpBox()\n        return self.proto_key(string)\n",
           more=[(AMP, "            self.boxReceiver.ampBoxReceived(self._currentBox)\n            self._currentBox = None\n", "            self.boxReceiver.ampBoxReceived(self._currentBox)\n")], expect_rule="reader/boxes-parsed-back"),
    Mutant("terminator-only-for-nonempty", AMP, '        w(pack("!H", 0))\n        return b"".join(L)\n', '        if L:\n            w(pack("!H", 0))\n        return b"".join(L)\n',
           expect_rule="box/wire-form"),
    Mutant("receiver-value-limit-shrunk", AMP, "    _MAX_VALUE_LENGTH = 65535\n", "    _MAX_VALUE_LENGTH = 65534\n", expect_rule="limits/value"),
    Mutant("limit-not-restored-after-value", AMP, "        self._currentKey = None\n        self.MAX_LENGTH = self._MAX_KEY_LENGTH\n", "        self._currentKey = None\n",
           expect_rule="reader/limits"),
    Mutant("value-stored-under-cleared-key", AMP, "        self._currentBox[self._currentKey] = string\n        self._currentKey = None\n", "        self._currentKey = None\n        self._currentBox[self._currentKey] = string\n",
           expect_rule="reader/boxes-parsed-back"),
    Mutant("terminator-returns-key-state", AMP, '            self._currentBox = None\n            return "init"\n', '            self._currentBox = None\n            return "key"\n',
           expect_rule="reader/boxes-parsed-back"),
    Mutant("prefix-needs-one-more-byte", BASIC, "        while len(alldata) >= (currentOffset + prefixLength) and not self.paused:\n",
           "        while len(alldata) > (currentOffset + prefixLength) and not self.paused:\n", expect_rule="reader/split-invariance"),
    Mutant("limit-inclusive", BASIC, "            if length > self.MAX_LENGTH:\n", "            if length >= self.MAX_LENGTH:\n", expect_rule="reader/limits"),
    Mutant("complete-string-waits", BASIC, "            if len(alldata) < messageEnd:\n", "            if len(alldata) <= messageEnd:\n", expect_rule="reader/split-invariance"),
    Mutant("tail-dropped-on-split", BASIC, "        self._unprocessed = alldata[currentOffset:]\n        self._compatibilityOffset = 0\n",
           "        self._unprocessed = alldata[messageStart:] if currentOffset else alldata\n        self._compatibilityOffset = 0\n".replace("messageStart", "currentOffset + prefixLength"),
           expect_rule="reader/split-invariance"),
    Mutant("payload-includes-prefix-byte", BASIC, "            packet = alldata[messageStart:messageEnd]\n", "            packet = alldata[messageStart - 1 : messageEnd]\n", expect_rule="reader/boxes-parsed-back"),
    Mutant("pending-bytes-after-new-data", BASIC, "        alldata = self._unprocessed + data\n", "        alldata = data + self._unprocessed\n", expect_rule="reader/split-invariance"),
    Mutant("float-fixed-point", AMP, '        return str(inString).encode("ascii")\n', '        return ("%f" % inString).encode("ascii")\n', expect_rule="argument/value-round-trip"),
    Mutant("integer-hex", AMP, '        return b"%d" % (inObject,)\n', '        return b"%x" % (inObject,)\n', expect_rule="argument/value-round-trip"),
    Mutant("boolean-false-lowercase", AMP, '        elif inString == b"False":\n', '        elif inString == b"false":\n', expect_rule="argument/value-round-trip"),
    Mutant("unicode-decodes-latin1", AMP, '        return String.fromString(self, inString).decode("utf-8")\n', '        return String.fromString(self, inString).decode("latin-1")\n',
           expect_rule="argument/value-round-trip"),
    Mutant("path-inherits-decoder", AMP, "    def fromString(self, inString):\n        return filepath.FilePath(Unicode.fromString(self, inString))\n\n", "", expect_rule="argument/pairing"),
    Mutant("listof-8bit-prefix", AMP, '            strings.append(pack("!H", len(serialized)))\n', '            strings.append(pack("!B", len(serialized)))\n', expect_rule="argument/list-framing"),
    Mutant("datetime-microsecond-slice", AMP, "        slice(20, 26),  # microsecond\n", "        slice(20, 25),  # microsecond\n", expect_rule="datetime/round-trip"),
    Mutant("datetime-offset-ignores-days", AMP, "        minutesOffset = (offset.days * 86400 + offset.seconds) // 60\n", "        minutesOffset = offset.seconds // 60\n", expect_rule="datetime/round-trip"),
    Mutant("datetime-hours-not-absolute", AMP, "            abs(minutesOffset) // 60,\n", "            minutesOffset // 60,\n", expect_rule="datetime/round-trip"),
    Mutant("decimal-via-float-repr", AMP, '            return str(inObject).encode("ascii")\n        raise ValueError("amp.Decimal can only encode instances of decimal.Decimal")\n',
           '            return str(float(inObject)).encode("ascii")\n        raise ValueError("amp.Decimal can only encode instances of decimal.Decimal")\n', expect_rule="argument/value-round-trip"),
    Mutant("datetime-sign-from-hour-part", AMP, "        if minutesOffset > 0:\n", "        if minutesOffset // 60 > 0:\n", expect_rule="datetime/round-trip"),
    Mutant("listof-reader-stops-before-trailing-empty-element", AMP, "        strings = []\n        parser = Int16StringReceiver()\n        parser.stringReceived = strings.append\n        parser.dataReceived(inString)\n",
           "        strings = []\n        pos = 0\n        while pos + 2 < len(inString):\n            (n,) = unpack(\"!H\", inString[pos : pos + 2])\n            strings.append(inString[pos + 2 : pos + 2 + n])\n            pos += 2 + n\n",
           more=[(AMP, "from struct import pack\n", "from struct import pack, unpack\n")], expect_rule="argument/list-round-trip"),
    Mutant("datetime-sign-index", AMP, "        sign = s[26]\n", "        sign = s[25]\n", expect_rule="datetime/round-trip"),
    Mutant("frombox-raw-key", AMP, "        nk = _wireNameToPythonIdentifier(name)\n", "        nk = nativeString(name)\n", expect_rule="argument/box-round-trip"),
]

SILENT = [
    Silent("serialize-unrolled-with-temporaries", AMP, "            if len(k) > MAX_KEY_LENGTH:\n                raise TooLong(True, True, k, None)\n            if len(v) > MAX_VALUE_LENGTH:\n                raise TooLong(False, True, v, k)\n            for kv in k, v:\n                w(pack(\"!H\", len(kv)))\n                w(kv)\n",
           "            nk = len(k)\n            if MAX_KEY_LENGTH < nk:\n                raise TooLong(True, True, k, None)\n            nv = len(v)\n            if MAX_VALUE_LENGTH < nv:\n                raise TooLong(False, True, v, k)\n            L.extend((pack(\"!H\", nk), k, pack(\"!H\", nv), v))\n"),
    Silent("proto-key-guard-clause", AMP, "        if string:\n            self._currentKey = string\n            self.MAX_LENGTH = self._MAX_VALUE_LENGTH\n            return \"value\"\n        else:\n            self.boxReceiver.ampBoxReceived(self._currentBox)\n            self._currentBox = None\n            return \"init\"\n",
           "        if not string:\n            done, self._currentBox = self._currentBox, None\n            self.boxReceiver.ampBoxReceived(done)\n            return \"init\"\n        self._currentKey = string\n        self.MAX_LENGTH = self._MAX_VALUE_LENGTH\n        return \"value\"\n"),
    Silent("framing-loop-with-break-guards", BASIC, "        while len(alldata) >= (currentOffset + prefixLength) and not self.paused:\n            messageStart = currentOffset + prefixLength\n",
           "        while True:\n            if self.paused or len(alldata) - currentOffset < prefixLength:\n                break\n            messageStart = currentOffset + prefixLength\n"),
    Silent("datetime-divmod-and-conditional-sign", AMP, "        if minutesOffset > 0:\n            sign = \"+\"\n        else:\n            sign = \"-\"\n", "        sign = \"+\" if 0 < minutesOffset else \"-\"\n        tzh, tzm = divmod(abs(minutesOffset), 60)\n",
           more=[(AMP, "            abs(minutesOffset) // 60,\n            abs(minutesOffset) % 60,\n", "            tzh,\n            tzm,\n")]),
    Silent("guards-as-not-le", AMP, "            if len(k) > MAX_KEY_LENGTH:\n", "            if not len(k) <= MAX_KEY_LENGTH:\n"),
    Silent("isinstance-refusal-and-literals", AMP, "            if type(k) == str:\n", "            if isinstance(k, str):\n",
           more=[(AMP, "            if len(v) > MAX_VALUE_LENGTH:\n", "            if len(v) > 0xFFFF:\n")]),
    Silent("unrolled-pair", AMP, '            for kv in k, v:\n                w(pack("!H", len(kv)))\n                w(kv)\n',
           '            w(pack("!H", len(k)))\n            w(k)\n            w(pack("!H", len(v)))\n            w(v)\n'),
    Silent("append-without-alias", AMP, '        w(pack("!H", 0))\n', '        L.append(b"\\x00\\x00")\n'),
    Silent("framing-flipped-comparisons", BASIC, "            if len(alldata) < messageEnd:\n                break\n", "            if not (messageEnd <= len(alldata)):\n                break\n",
           more=[(BASIC, "            if length > self.MAX_LENGTH:\n", "            if self.MAX_LENGTH < length:\n")]),
    Silent("f30-repaired-empty-key-refused", AMP, "            if len(k) > MAX_KEY_LENGTH:\n", "            if len(k) < 1 or len(k) > MAX_KEY_LENGTH:\n"),
    Silent("f30-repaired-truthiness", AMP, "            if len(k) > MAX_KEY_LENGTH:\n", "            if not k:\n                raise TooLong(True, True, k, None)\n            if len(k) > MAX_KEY_LENGTH:\n"),
    Silent("datetime-sign-ge", AMP, "        if minutesOffset > 0:\n", "        if minutesOffset >= 0:\n"),
    Silent("explicit-bytes-test-added", AMP, "            if len(k) > MAX_KEY_LENGTH:\n                raise TooLong(True, True, k, None)\n",
           "            if not isinstance(k, (bytes, bytearray)) or not isinstance(v, (bytes, bytearray)):\n                raise TypeError(\"keys and values must be bytes\")\n            if len(k) > MAX_KEY_LENGTH:\n                raise TooLong(True, True, k, None)\n"),
    Silent("listof-inline-reader-correct", AMP, "        strings = []\n        parser = Int16StringReceiver()\n        parser.stringReceived = strings.append\n        parser.dataReceived(inString)\n",
           "        strings = []\n        pos = 0\n        while pos + 2 <= len(inString):\n            (n,) = unpack(\"!H\", inString[pos : pos + 2])\n            strings.append(inString[pos + 2 : pos + 2 + n])\n            pos += 2 + n\n",
           more=[(AMP, "from struct import pack\n", "from struct import pack, unpack\n")]),
    Silent("datetime-offset-split-first", AMP, "        minutesOffset = (offset.days * 86400 + offset.seconds) // 60\n", "        minutesOffset = (offset.days * 86400 + offset.seconds) // 60\n        tzHours, tzMinutes = abs(minutesOffset) // 60, abs(minutesOffset) % 60\n",
           more=[(AMP, "            abs(minutesOffset) // 60,\n            abs(minutesOffset) % 60,\n", "            tzHours,\n            tzMinutes,\n")], allow_error=False),
    Silent("boolean-ifexp", AMP, '        if inObject:\n            return b"True"\n        else:\n            return b"False"\n', '        return b"True" if inObject else b"False"\n'),
]
