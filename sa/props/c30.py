"""C30 - AMP wire format and argument types round-trip."""
from __future__ import annotations

import ast
import decimal
import math
import struct
from typing import Dict, List, Optional, Tuple

from sa.astx import NotConst, call_attr, call_name, const_eval, dotted, lincmp, module_consts, src, statements, walk_local
from sa.props._lib_g import (Inst, MiniEval, attrs_to_names, class_const, expand, fmt_lin, fresh, is_self_attr, lin_equal, lin_expect, must_pass, norm_cmp,
                             run_eval, single_defs)
from sa.selftest import Mutant, Silent
from sa.source import AnalysisError, base_names, class_assigns, methods, mro_lookup

PROPERTY = "C30"
INCLUDE = [("C16", ("intn",), "BinaryBoxProtocol is an Int16StringReceiver: the length-prefixed framing clauses of C16 are necessary for "
            "'parsing it back, with the byte stream split arbitrarily'")]
AMP = "protocols/amp.py"
BASIC = "protocols/basic.py"
QA = "twisted.protocols.amp"
QB = "twisted.protocols.basic"
TECHNIQUE = "CFG guard dominance, linear boundary normal forms, symbolic wire layout, finite evaluation"
EXPLANATION = (
    'Writer (AmpBox.serialize): each pair is emitted symbolically as len16(k) k len16(v) v plus one zero-length '
    "terminator in the reader's struct format, and every emit is dominated by guards whose normal form is exactly "
    'len(k) <= 255, len(v) <= 65535, k/v not str, with a refusing edge that cannot reach the normal exit; the missing '
    'lower bound len(k) >= 1 is reported as known finding F30. Reader: sender and receiver limits agree with each '
    'other and with the 16-bit prefix, proto_init/proto_key/proto_value toggle MAX_LENGTH, keep the key until the '
    'value is stored and return states that have handlers. Stream splits: IntNStringReceiver.dataReceived appends new '
    'data after the pending bytes, keeps its boundaries (prefix available, limit, message complete) in normal form, '
    'slices prefix and payload contiguously, advances the offset and saves the unconsumed tail on every exit. '
    'Arguments: every Argument subclass pairs toString/fromString (and the Proto/Box variants); Integer, String, '
    'Unicode, Boolean, Float and Decimal are evaluated by a whitelisted interpreter on representative values (huge '
    "ints, NaN/inf/-0.0, Decimal specials, non-BMP text); ListOf framing equals its parser's format, AmpList and "
    'toBox/fromBox use the same keys both ways. DateTime: format string, slice table, sign index and length check '
    'describe one 32-character layout and the UTC-offset arithmetic is evaluated for 18 offsets (sub-hour ones included). Not decided: Path '
    'and DateTime date-field value equality, TLS and protocol switching.'
)
ASSUMPTIONS = [
    "struct codes and str/bytes/int/float builtins behave as in CPython 3.12 (they are evaluated by the analyser, not modelled)",
    "twisted.python.compat.nativeString(bytes) is bytes.decode('ascii') (modelled, used by the Decimal evaluation)",
]


def _fail(msg):
    raise AnalysisError("C30: " + msg)


# ---------------------------------------------------------------------------------------------------------------
# A. writer: AmpBox.serialize

def _emit_calls(func, acc: str) -> Tuple[set, List[ast.Call]]:
    """Aliases of ``<acc>.append`` and all emitting calls of the function."""
    aliases = set()
    for st in statements(func):
        if isinstance(st, ast.Assign) and len(st.targets) == 1 and isinstance(st.targets[0], ast.Name) \
                and isinstance(st.value, ast.Attribute) and st.value.attr == "append" and dotted(st.value.value) == acc:
            aliases.add(st.targets[0].id)
    calls = []
    for n in ast.walk(func):
        if isinstance(n, ast.Call):
            if isinstance(n.func, ast.Name) and n.func.id in aliases:
                calls.append(n)
            elif isinstance(n.func, ast.Attribute) and n.func.attr == "append" and dotted(n.func.value) == acc:
                calls.append(n)
    return aliases, calls


def _is_emit(node, aliases, acc) -> Optional[ast.expr]:
    if isinstance(node, ast.Expr) and isinstance(node.value, ast.Call) and len(node.value.args) == 1 and not node.value.keywords:
        c = node.value
        if (isinstance(c.func, ast.Name) and c.func.id in aliases) or \
                (isinstance(c.func, ast.Attribute) and c.func.attr == "append" and dotted(c.func.value) == acc):
            return c.args[0]
    return None


def _subst(expr: ast.AST, mapping: Dict[str, str]) -> str:
    """Normalised text of expr with loop variables renamed."""
    e = fresh(expr)
    for n in ast.walk(e):
        if isinstance(n, ast.Name) and n.id in mapping:
            n.id = mapping[n.id]
    return src(e)


def _classify_emit(arg: ast.expr, mapping: Dict[str, str], consts) -> Tuple:
    """("len", fmt, X) for pack(fmt, len(X)); ("const", bytes) for a constant; ("raw", X) for a name."""
    if isinstance(arg, ast.Call) and (call_name(arg) in ("pack", "struct.pack")) and len(arg.args) == 2:
        try:
            fmt = const_eval(arg.args[0], consts)
        except NotConst:
            return ("?", src(arg))
        a = arg.args[1]
        if isinstance(a, ast.Call) and call_name(a) == "len" and len(a.args) == 1:
            return ("len", fmt, _subst(a.args[0], mapping))
        try:
            v = const_eval(a, consts)
            return ("const", struct.pack(fmt, v))
        except (NotConst, struct.error):
            return ("?", src(arg))
    try:
        v = const_eval(arg, consts)
        if isinstance(v, bytes):
            return ("const", v)
    except NotConst:
        pass
    if isinstance(arg, ast.Name):
        return ("raw", mapping.get(arg.id, arg.id))
    return ("?", src(arg))


def _layout(stmts, aliases, acc, mapping, consts, out: List[Tuple]) -> None:
    """Symbolic straight-line emission of a statement list (guards that only raise are skipped; a ``for x in a, b``
    over a literal tuple of names is unrolled)."""
    for st in stmts:
        arg = _is_emit(st, aliases, acc)
        if arg is not None:
            parts = [arg]
            while any(isinstance(p, ast.BinOp) and isinstance(p.op, ast.Add) for p in parts):   # pack(...) + kv
                parts = [x for p in parts for x in ((p.left, p.right) if isinstance(p, ast.BinOp) and isinstance(p.op, ast.Add) else (p,))]
            out.extend(_classify_emit(p, mapping, consts) for p in parts)
            continue
        if isinstance(st, ast.For) and isinstance(st.target, ast.Name) and isinstance(st.iter, (ast.Tuple, ast.List)) \
                and all(isinstance(e, ast.Name) for e in st.iter.elts) and not st.orelse:
            for e in st.iter.elts:
                m2 = dict(mapping)
                m2[st.target.id] = mapping.get(e.id, e.id)
                _layout(st.body, aliases, acc, m2, consts, out)
            continue
        has_emit = any(_is_emit(x, aliases, acc) is not None for x in ast.walk(st) if isinstance(x, ast.Expr))
        if not has_emit:
            continue  # guards, bookkeeping
        if isinstance(st, ast.If):
            out.append(("?", "conditional emission: " + src(st.test)))
            continue
        out.append(("?", "emission inside " + type(st).__name__))


def _nonbytes_guard(test: ast.expr, lab: str, var: str) -> bool:
    """The guard edge (test, lab) implies that ``var`` is not a str (or is bytes)."""
    t = src(test)
    neg = {f"type({var}) == str", f"type({var}) is str", f"isinstance({var}, str)", f"str == type({var})", f"type({var}) != bytes",
           f"type({var}) is not bytes"}
    pos = {f"isinstance({var}, bytes)", f"type({var}) == bytes", f"type({var}) is bytes", f"type({var}) != str", f"type({var}) is not str"}
    return (t in neg and lab == "F") or (t in pos and lab == "T")


def check_serialize(ctx, mod, consts, reader_fmt: str):
    f = ctx.func(AMP, "AmpBox.serialize")
    g = ctx.cfg(f)
    q = QA + ".AmpBox.serialize"
    defs = single_defs(f)

    # accumulator: the list joined by the return statement
    rets = [st for st in statements(f) if isinstance(st, ast.Return)]
    acc = None
    for r in rets:
        v = r.value
        if isinstance(v, ast.Call) and isinstance(v.func, ast.Attribute) and v.func.attr == "join" and len(v.args) == 1 and isinstance(v.args[0], ast.Name):
            acc = v.args[0].id
            sep = None
            try:
                sep = const_eval(v.func.value, consts)
            except NotConst:
                pass
            ctx.check(sep == b"", "box/wire-layout", ctx.construct(q, r), f"the emitted items are joined with {sep!r} instead of b'' (foreign bytes between the strings)")
    if acc is None or len(rets) != 1:
        _fail("AmpBox.serialize: shape `return b''.join(<list>)` not recognised")
    aliases, calls = _emit_calls(f, acc)
    ctx.need(calls, "emitting calls in AmpBox.serialize")

    # the items loop
    loops = [st for st in f.body if isinstance(st, ast.For) and isinstance(st.target, ast.Tuple) and len(st.target.elts) == 2
             and all(isinstance(e, ast.Name) for e in st.target.elts)]
    if len(loops) != 1:
        _fail("AmpBox.serialize: the `for k, v in <items>` loop was not found exactly once")
    loop = loops[0]
    kn, vn = loop.target.elts[0].id, loop.target.elts[1].id
    it = expand(loop.iter, defs)
    it_calls = [c for c in walk_local(it) if isinstance(c, ast.Call)]
    covers_all = any(call_name(c) == "self.items" and not c.args for c in it_calls) and \
        all(call_name(c) in ("self.items", "sorted", "list", "iter", "tuple") for c in it_calls) and \
        not any(isinstance(x, (ast.Subscript, ast.IfExp, ast.GeneratorExp, ast.ListComp)) for x in walk_local(it))
    ctx.check(covers_all, "box/wire-layout", q + " | <items iterated>",
              f"the serialisation loop iterates over `{src(it)}`, not over all items of the box")

    # layout per pair
    per_pair: List[Tuple] = []
    _layout(loop.body, aliases, acc, {kn: "K", vn: "V"}, consts, per_pair)
    want = [("len", reader_fmt, "K"), ("raw", "K"), ("len", reader_fmt, "V"), ("raw", "V")]
    names = ["length prefix of the key", "key bytes", "length prefix of the value", "value bytes"]
    ctx.check(len(per_pair) == 4, "box/wire-layout", q + " | <items per pair>",
              f"each key/value pair is written as {per_pair!r}; the box format is len16(key) key len16(value) value")
    for i, (w, nm) in enumerate(zip(want, names)):
        got = per_pair[i] if i < len(per_pair) else None
        ctx.check(got == w, "box/wire-layout", q + f" | <{nm}>",
                  f"item {i + 1} written for a pair is {got!r}, the reader (Int16StringReceiver, format {reader_fmt!r}) expects {w!r}")
    # terminator after the loop
    idx = f.body.index(loop)
    after: List[Tuple] = []
    _layout(f.body[idx + 1:], aliases, acc, {}, consts, after)
    before: List[Tuple] = []
    _layout(f.body[:idx], aliases, acc, {}, consts, before)
    term = struct.pack(reader_fmt, 0)
    ctx.check(after == [("const", term)] and not before, "box/terminator", q + " | <terminator>",
              f"items written outside the pair loop are before={before!r} after={after!r}; a box must end with exactly one empty string {term!r}")
    term_nodes = [n for c in calls for n in g.ids_of(c) if not any(c is x for x in ast.walk(loop))]
    wit = g.must_pass([g.entry], term_nodes, exc=False) if term_nodes else [g.entry]
    ctx.check(wit is None, "box/terminator", q + " | <terminator on every path>",
              "serialize() can return without writing the box terminator", witness=g.describe(wit) if wit and term_nodes else "")

    # guards dominating the emits inside the loop
    emit_nodes = sorted({n for c in calls if any(c is x for x in ast.walk(loop)) for n in g.ids_of(c)})
    ctx.need(emit_nodes, "emits inside the pair loop")
    klen, vlen = f"len({kn})", f"len({vn})"
    kmax = consts.get("MAX_KEY_LENGTH")
    vmax = consts.get("MAX_VALUE_LENGTH")
    if not isinstance(kmax, int) or not isinstance(vmax, int):
        _fail("module constants MAX_KEY_LENGTH / MAX_VALUE_LENGTH are not constant integers")

    def refusing_edge_raises(t: int, lab: str) -> Optional[List[int]]:
        other = "F" if lab == "T" else "T"
        succ = [d for d, l in g.succ[t] if l == other]
        return g.path(succ, [g.exit], edge_ok=lambda a, b, l: l != "exc") if succ else None

    for n in emit_nodes:
        eg = g.edge_guards(n)
        cons = ctx.construct(q, g.node(n).ast)
        forms = [(t, lab, lincmp(g.node(t).ast, consts, negate=(lab == "F"))) for t, lab in eg]
        # upper bounds
        for what, term_txt, limit, rule in (("key", klen, kmax, "box/key-length-upper-bound"), ("value", vlen, vmax, "box/value-length-upper-bound")):
            exp = lin_expect({term_txt: -1}, -limit)
            on_term = [(t, lab, fm) for t, lab, fm in forms if fm is not None and {k for k, _ in fm[0]} == {term_txt} and dict(fm[0])[term_txt] < 0]
            exact = [x for x in on_term if x[2] == exp]
            if exact:
                wit = refusing_edge_raises(exact[0][0], exact[0][1])
                ctx.check(wit is None, rule, cons, f"an overlong {what} is not refused: the guard's other branch reaches the normal exit (pair dropped or altered)",
                          witness=g.describe(wit))
            elif on_term:
                ctx.violation(rule, cons, f"the {what} length guard is `{fmt_lin(on_term[0][2])}`; the wire format requires exactly `-{term_txt} >= {-limit}` "
                              f"({what}s of up to {limit} bytes are representable, longer ones are not)")
            else:
                ctx.violation(rule, cons, f"no guard refuses a {what} longer than {limit} bytes before it is written (its 16-bit prefix "
                              f"{'would wrap or raise struct.error' if what == 'value' else 'would be read as a value-sized string by the peer'})")
        # not str
        for what, var in (("key", kn), ("value", vn)):
            hit = [(t, lab) for t, lab in eg if _nonbytes_guard(g.node(t).ast, lab, var)]
            if hit:
                wit = refusing_edge_raises(*hit[0])
                ctx.check(wit is None, "box/refuses-non-bytes", cons + f" | {what}", f"a str {what} is not refused (the guard's other branch reaches the normal exit)",
                          witness=g.describe(wit))
            else:
                ctx.violation("box/refuses-non-bytes", cons + f" | {what}", f"a str {what} reaches the wire writer without being refused")
    # the guards above test the ORIGINAL key and value: neither may be rebound (coerced) inside the pair loop
    coerced = False
    for st in ast.walk(loop):
        if st is loop:
            continue
        stored = set()
        if isinstance(st, (ast.Assign, ast.AugAssign, ast.AnnAssign, ast.For, ast.With, ast.NamedExpr)):
            tg = st.targets if isinstance(st, ast.Assign) else ([st.target] if hasattr(st, "target") else [i.optional_vars for i in getattr(st, "items", []) if i.optional_vars is not None])
            stored = {x.id for t in tg for x in ast.walk(t) if isinstance(x, ast.Name) and isinstance(x.ctx, ast.Store)}
        for nm, what in ((kn, "key"), (vn, "value")):
            if nm in stored:
                coerced = True
                ctx.violation("box/no-coercion", ctx.construct(q, st if not isinstance(st, ast.For) else f"for {src(st.target)} in {src(st.iter)}:") + f" | {what}",
                              f"the {what} is replaced by `{src(getattr(st, 'value', st))[:80]}` before it is measured and written: a conversion such as bytes(7) (seven NUL bytes), "
                              "bytes([1, 2, 3]) or bytes(True) turns a non-bytes value that must be refused into a silent mis-serialisation")
    if not coerced:
        ctx.ok("box/no-coercion", q + " | <pair loop scanned>", f"{kn}, {vn} are only read inside the loop")
    # lower bound on the key length: an empty key IS the terminator
    low = lin_expect({klen: 1}, 1)
    missing = []
    for n in emit_nodes:
        eg = g.edge_guards(n)
        forms = [lincmp(g.node(t).ast, consts, negate=(lab == "F")) for t, lab in eg]
        has_low = any(fm == low for fm in forms) or any((src(g.node(t).ast) == kn and lab == "T") for t, lab in eg) \
            or any((src(g.node(t).ast) in (f"{kn} == b''", f"b'' == {kn}") and lab == "F") or (src(g.node(t).ast) == f"{kn} != b''" and lab == "T") for t, lab in eg)
        if not has_low:
            missing.append(n)
    ctx.check(not missing, "box/key-length-lower-bound", q + " | <empty key>",
              "AmpBox({b'': b'x'}).serialize() is accepted: the zero-length key is written as b'\\x00\\x00', which the reader (proto_key) "
              "takes as the end of the box, so the rest of this box and the next box are mis-framed")


def check_serialize_refusals(ctx, mod, consts):
    """serialize() is interpreted (whitelisted interpreter) on one-pair boxes holding a non-bytes key or value: each must raise,
    i.e. return nothing to write; a plain bytes box must give the documented wire form."""
    f = ctx.func(AMP, "AmpBox.serialize")
    q = QA + ".AmpBox.serialize"
    ev = MiniEval(mod, consts=consts)
    k, out = run_eval(lambda: ev.func(f, [{b"k": b"v"}]))
    if k == "unsupported":
        _fail(f"AmpBox.serialize uses a construct outside the interpreted subset: {out}")
    ctx.check(k == "value" and out == b"\x00\x01k\x00\x01v\x00\x00", "box/evaluated-wire-form", q + " | {b'k': b'v'}",
              f"AmpBox({{b'k': b'v'}}).serialize() evaluates to {out!r} ({k}); the wire form is b'\\x00\\x01k\\x00\\x01v\\x00\\x00'")
    samples = [("int", 7), ("bool", True), ("None", None), ("float", 1.5), ("tuple", (1, 2)), ("str", "text"), ("list", [1, 2, 3]), ("dict", {"a": 1}), ("int 0", 0)]
    for pos in ("key", "value"):
        bad = None
        n = 0
        for label, v in samples:
            if pos == "key":
                try:
                    box = {v: b"v"}
                except TypeError:
                    continue      # unhashable: cannot be a key at all
            else:
                box = {b"k": v}
            ev = MiniEval(mod, consts=consts)
            k, out = run_eval(lambda: ev.func(f, [box]))
            if k == "unsupported":
                _fail(f"AmpBox.serialize uses a construct outside the interpreted subset: {out}")
            n += 1
            if k != "raised":
                bad = bad or f"AmpBox({box!r}).serialize() does not raise: it returns {out!r}, i.e. a {label} {pos} is silently mis-serialised instead of being refused"
        ctx.check(bad is None, "box/refuses-non-bytes-evaluated", q + f" | non-bytes {pos}", bad or "", detail=f"{n} non-bytes {pos}s, each must raise")


# ---------------------------------------------------------------------------------------------------------------
# B. reader: constants, state machine, length-prefixed framing

def _returns_under(g, srcs) -> List[ast.Return]:
    reach = g.reach(srcs)
    return [g.node(i).ast for i in reach if g.node(i).kind == "stmt" and isinstance(g.node(i).ast, ast.Return)]


def _assign_nodes(g, pred):
    return g.ids(lambda n: n.kind == "stmt" and isinstance(n.ast, (ast.Assign, ast.AnnAssign)) and pred(n.ast))


def check_reader(ctx, mod, consts, reader_fmt: str):
    bmod = ctx.mod(BASIC)
    bbp = ctx.cls(AMP, "BinaryBoxProtocol")
    q = QA + ".BinaryBoxProtocol"
    bases = base_names(bbp)
    ctx.check("Int16StringReceiver" in bases and "StatefulStringProtocol" in bases and
              bases.index("StatefulStringProtocol") < bases.index("Int16StringReceiver"),
              "reader/class-shape", q + " | bases", f"BinaryBoxProtocol bases are {bases}: stringReceived must resolve to StatefulStringProtocol's dispatcher "
              "in front of the 16-bit receiver")
    kmax, vmax = consts.get("MAX_KEY_LENGTH"), consts.get("MAX_VALUE_LENGTH")
    ca = {k: None for k in ("_MAX_KEY_LENGTH", "_MAX_VALUE_LENGTH", "MAX_LENGTH")}
    for k in ca:
        ca[k] = class_const(mod, bbp, k, consts)
    prefix_max = 2 ** (8 * struct.calcsize(reader_fmt)) - 1
    ctx.check(kmax == 255 and ca["_MAX_KEY_LENGTH"] == kmax, "limits/key", QA + " | MAX_KEY_LENGTH",
              f"sender limit MAX_KEY_LENGTH={kmax!r}, receiver limit _MAX_KEY_LENGTH={ca['_MAX_KEY_LENGTH']!r}; both must be 255 (one length byte, first prefix byte zero)")
    ctx.check(vmax == prefix_max and ca["_MAX_VALUE_LENGTH"] == vmax, "limits/value", QA + " | MAX_VALUE_LENGTH",
              f"sender limit MAX_VALUE_LENGTH={vmax!r}, receiver limit _MAX_VALUE_LENGTH={ca['_MAX_VALUE_LENGTH']!r}, largest length the {reader_fmt!r} prefix can carry is {prefix_max}")
    ctx.check(ca["MAX_LENGTH"] == ca["_MAX_KEY_LENGTH"] and ca["MAX_LENGTH"] is not None, "limits/initial", q + " | MAX_LENGTH",
              f"the initial MAX_LENGTH is {ca['MAX_LENGTH']!r}; the first string of a connection is a key (limit {ca['_MAX_KEY_LENGTH']!r})")

    def sets_limit(st, which):
        return any(is_self_attr(t, "MAX_LENGTH") for t in (st.targets if isinstance(st, ast.Assign) else [st.target])) and is_self_attr(st.value, which)

    # proto_key
    f = ctx.func(AMP, "BinaryBoxProtocol.proto_key")
    g = ctx.cfg(f)
    qq = q + ".proto_key"
    p = f.args.args[1].arg if len(f.args.args) > 1 else _fail("proto_key signature")
    tests = g.ids(lambda n: n.kind == "test" and src(n.ast) == p)
    ctx.need(tests, "emptiness test on the received string in proto_key")
    tsucc = [d for t in tests for d, l in g.succ[t] if l == "T"]
    fsucc = [d for t in tests for d, l in g.succ[t] if l == "F"]
    to_value = _assign_nodes(g, lambda st: sets_limit(st, "_MAX_VALUE_LENGTH"))
    wit = must_pass(g, tsucc, to_value)
    ctx.check(bool(to_value) and wit is None, "reader/limit-toggle", qq + " | <key received>",
              "after a key the length limit is not raised to _MAX_VALUE_LENGTH: values longer than 255 bytes are rejected by the receiver", witness=g.describe(wit))
    keep = _assign_nodes(g, lambda st: any(is_self_attr(t, "_currentKey") for t in getattr(st, "targets", [])) and src(st.value) == p)
    wit = must_pass(g, tsucc, keep)
    ctx.check(bool(keep) and wit is None, "reader/key-kept", qq + " | <key received>", "the received key is not remembered for the value that follows", witness=g.describe(wit))
    rv = {const_eval(r.value, {}) if isinstance(r.value, ast.Constant) else src(r.value) for r in _returns_under(g, tsucc)}
    ctx.check(rv == {"value"}, "reader/state", qq + " | <key received>", f"after a key the next state is {sorted(map(str, rv))}, must be 'value'")
    deliver = g.find(lambda x: isinstance(x, ast.Call) and call_attr(x) == "ampBoxReceived" and len(x.args) == 1 and is_self_attr(x.args[0], "_currentBox"))
    wit = must_pass(g, fsucc, deliver)
    ctx.check(bool(deliver) and wit is None and all(g.guarded(d, lambda e: src(e) == p, False) for d in deliver), "reader/box-delivered", qq + " | <empty key>",
              "the empty key does not (only) deliver the accumulated box to the box receiver", witness=g.describe(wit))
    rv = {const_eval(r.value, {}) if isinstance(r.value, ast.Constant) else src(r.value) for r in _returns_under(g, fsucc)}
    ctx.check(rv == {"init"}, "reader/state", qq + " | <empty key>", f"after the terminator the next state is {sorted(map(str, rv))}, must be 'init' (a fresh box)")

    # proto_value
    f = ctx.func(AMP, "BinaryBoxProtocol.proto_value")
    g = ctx.cfg(f)
    qq = q + ".proto_value"
    p = f.args.args[1].arg
    store = _assign_nodes(g, lambda st: isinstance(st, ast.Assign) and any(isinstance(t, ast.Subscript) and is_self_attr(t.value, "_currentBox")
                                                                          and is_self_attr(t.slice, "_currentKey") for t in st.targets) and src(st.value) == p)
    wit = g.must_pass([g.entry], store, exc=False)
    ctx.check(bool(store) and wit is None, "reader/value-stored", qq, "the received value is not stored under the remembered key", witness=g.describe(wit))
    rekey = _assign_nodes(g, lambda st: any(is_self_attr(t, "_currentKey") for t in getattr(st, "targets", [])))
    stale = [r for r in rekey if store and g.path([r], store, edge_ok=lambda a, b, l: l != "exc")]
    ctx.check(not stale, "reader/value-stored", qq + " | <key still current>", "the remembered key is overwritten before the value is stored under it (the value lands under None / a stale key)",
              witness=g.describe(g.path(stale[:1], store, edge_ok=lambda a, b, l: l != "exc")) if stale else "")
    to_key = _assign_nodes(g, lambda st: sets_limit(st, "_MAX_KEY_LENGTH"))
    wit = g.must_pass([g.entry], to_key, exc=False)
    ctx.check(bool(to_key) and wit is None, "reader/limit-toggle", qq, "after a value the length limit is not lowered back to _MAX_KEY_LENGTH "
              "(an overlong key would be accepted and the sender/receiver limits diverge)", witness=g.describe(wit))
    rv = {const_eval(r.value, {}) if isinstance(r.value, ast.Constant) else src(r.value) for r in _returns_under(g, [g.entry])}
    ctx.check(rv == {"key"}, "reader/state", qq, f"after a value the next state is {sorted(map(str, rv))}, must be 'key'")

    # proto_init
    f = ctx.func(AMP, "BinaryBoxProtocol.proto_init")
    g = ctx.cfg(f)
    qq = q + ".proto_init"
    p = f.args.args[1].arg
    fresh = _assign_nodes(g, lambda st: any(is_self_attr(t, "_currentBox") for t in getattr(st, "targets", [])) and isinstance(st.value, ast.Call)
                          and call_name(st.value) in ("AmpBox", "Box") and not st.value.args and not st.value.keywords)
    wit = g.must_pass([g.entry], fresh, exc=False)
    ctx.check(bool(fresh) and wit is None, "reader/fresh-box", qq, "a new box does not start from an empty AmpBox (keys of the previous box leak into it)", witness=g.describe(wit))
    rets = _returns_under(g, [g.entry])
    ok = bool(rets) and all(isinstance(r.value, ast.Call) and call_name(r.value) == "self.proto_key" and [src(a) for a in r.value.args] == [p] for r in rets)
    ctx.check(ok, "reader/state", qq, "the first string of a box is not handled as a key (proto_init must delegate to proto_key)")
    # every returned state has its handler
    ms = set()
    c = bbp
    for name in ("proto_init", "proto_key", "proto_value"):
        ms.add(name)
    have = {m for m in methods(bbp) if m.startswith("proto_")}
    ctx.check({"proto_init", "proto_key", "proto_value"} <= have, "reader/state", q + " | <handlers>", f"state handlers present: {sorted(have)}")
    ssp = ctx.cls(BASIC, "StatefulStringProtocol")
    ctx.check(class_const(bmod, ssp, "state", {}) == "init", "reader/state", QB + ".StatefulStringProtocol | state", "the initial state is not 'init'")
    f = ctx.func(BASIC, "StatefulStringProtocol.stringReceived")
    g = ctx.cfg(f)
    upd = g.ids(lambda n: n.kind == "stmt" and isinstance(n.ast, ast.Assign) and any(is_self_attr(t, "state") for t in n.ast.targets)
                and isinstance(n.ast.value, ast.Call) and len(n.ast.value.args) == 1 and src(n.ast.value.args[0]) == f.args.args[1].arg)
    look = [st for st in statements(f) if isinstance(st, ast.Assign) and isinstance(st.value, ast.BinOp) and src(st.value) == "'proto_' + self.state"]
    ctx.check(bool(upd) and bool(look), "reader/state", QB + ".StatefulStringProtocol.stringReceived",
              "the dispatcher no longer calls proto_<state>(string) and stores the returned state")


def check_framing(ctx, reader_fmt: str):
    """IntNStringReceiver.dataReceived: arbitrary splits of the stream are harmless."""
    bmod = ctx.mod(BASIC)
    f = ctx.func(BASIC, "IntNStringReceiver.dataReceived")
    g = ctx.cfg(f)
    q = QB + ".IntNStringReceiver.dataReceived"
    defs = single_defs(f)
    data = f.args.args[1].arg
    i16 = ctx.cls(BASIC, "Int16StringReceiver")
    fmt = class_const(bmod, i16, "structFormat", {})
    plen = class_const(bmod, i16, "prefixLength", {})
    ctx.check(fmt == reader_fmt and plen == struct.calcsize(reader_fmt) == 2, "framing/prefix", QB + ".Int16StringReceiver | structFormat",
              f"Int16StringReceiver: structFormat={fmt!r} prefixLength={plen!r}; AMP strings carry a 2-byte network-order unsigned length")

    # the buffer variable: assigned `self._unprocessed + data`
    bufs = [st for st in statements(f) if isinstance(st, ast.Assign) and len(st.targets) == 1 and isinstance(st.targets[0], ast.Name)
            and isinstance(st.value, ast.BinOp) and isinstance(st.value.op, ast.Add) and is_self_attr(st.value.left, "_unprocessed") and src(st.value.right) == data]
    ctx.check(len(bufs) == 1, "framing/buffer", q + " | <pending bytes first>", "new data is not appended after the unconsumed bytes of earlier calls "
              "(`self._unprocessed + data`): a string split across two segments is lost or reordered")
    if len(bufs) != 1:
        return
    buf = bufs[0].targets[0].id
    # offset variable & the unpack site
    unpacks = [c for c in ast.walk(f) if isinstance(c, ast.Call) and call_name(c) in ("unpack", "struct.unpack") and len(c.args) == 2]
    if len(unpacks) != 1:
        _fail("IntNStringReceiver.dataReceived: exactly one unpack() of the length prefix expected")
    up = unpacks[0]
    ctx.check(src(expand(up.args[0], defs)) == "self.structFormat", "framing/prefix", q + " | <prefix format>",
              f"the prefix is unpacked with {src(expand(up.args[0], defs))} instead of self.structFormat")
    sl = up.args[1]
    if not (isinstance(sl, ast.Subscript) and isinstance(sl.slice, ast.Slice) and src(sl.value) == buf and isinstance(sl.slice.lower, ast.Name)):
        _fail("IntNStringReceiver.dataReceived: prefix slice `buffer[offset:...]` not recognised")
    off = sl.slice.lower.id
    env: Dict[str, object] = {}
    PL = "self.prefixLength"
    start = ast.parse(f"{off} + {PL}", mode="eval").body
    ctx.check(sl.slice.upper is not None and lin_equal(sl.slice.upper, start, defs), "framing/prefix-slice", q + " | <prefix slice>",
              f"the length prefix is read from {buf}[{off}:{src(expand(sl.slice.upper, defs)) if sl.slice.upper else ''}], must be exactly prefixLength bytes at the offset")
    # the length variable
    ust = next((st for st in statements(f) if isinstance(st, ast.Assign) and any(x is up for x in ast.walk(st.value))), None)
    if ust is None or not isinstance(ust.targets[0], (ast.Tuple, ast.List)) or len(ust.targets[0].elts) != 1 or not isinstance(ust.targets[0].elts[0], ast.Name):
        _fail("IntNStringReceiver.dataReceived: `(length,) = unpack(...)` not recognised")
    ln = ust.targets[0].elts[0].id
    end = ast.parse(f"{off} + {PL} + {ln}", mode="eval").body

    whiles = [st for st in f.body if isinstance(st, ast.While)]
    if len(whiles) != 1:
        _fail("IntNStringReceiver.dataReceived: the parsing loop was not found")
    loop = whiles[0]
    # (1) loop test: a complete prefix is available
    conj = loop.test.values if isinstance(loop.test, ast.BoolOp) and isinstance(loop.test.op, ast.And) else [loop.test]
    forms = [norm_cmp(t, defs, env) for t in conj]
    exp = lin_expect({f"len({buf})": 1, off: -1, PL: -1}, 0)
    on_len = [fm for fm in forms if fm is not None and f"len({buf})" in dict(fm[0])]
    ctx.check(exp in forms, "framing/prefix-available", q + " | <loop condition>",
              (f"the loop runs while `{fmt_lin(on_len[0])}`" if on_len else "the loop condition does not compare the buffered length with the prefix size") +
              f"; it must run exactly while a whole prefix is buffered (`{fmt_lin(exp)}`): otherwise a zero-length string (the box terminator) "
              "arriving last in a segment is not delivered, or a partial prefix is unpacked")
    # (2) limit test leads to lengthLimitExceeded and return
    unode = g.ids_of(ust)
    lim_tests = [t for t in g.ids(lambda n: n.kind == "test") if any(x is g.node(t).ast for x in ast.walk(loop))
                 and (lambda fm: fm is not None and dict(fm[0]).get(ln) and "self.MAX_LENGTH" in dict(fm[0]))(norm_cmp(g.node(t).ast, defs, env))]
    ctx.check(len(lim_tests) == 1, "framing/limit", q + " | <length limit test>", "the received length is not compared with self.MAX_LENGTH exactly once")
    for t in lim_tests:
        fm = norm_cmp(g.node(t).ast, defs, env)
        exp = lin_expect({ln: 1, "self.MAX_LENGTH": -1}, 1)
        ctx.check(fm == exp, "framing/limit", q + " | <length limit test>",
                  f"strings are rejected when `{fmt_lin(fm)}`; a string of exactly MAX_LENGTH bytes (a 255-byte key, a 65535-byte value) must be accepted: `{fmt_lin(exp)}`")
        tsucc = [d for d, l in g.succ[t] if l == "T"]
        lle = g.find(lambda x: isinstance(x, ast.Call) and call_name(x) == "self.lengthLimitExceeded")
        wit = must_pass(g, tsucc, lle)
        ctx.check(bool(lle) and wit is None, "framing/limit", q + " | <over the limit>", "an over-long length prefix is not reported through lengthLimitExceeded()", witness=g.describe(wit))
        # it must not deliver the string
        deliver = g.find(lambda x: isinstance(x, ast.Call) and call_name(x) == "self.stringReceived")
        back = g.path(tsucc, deliver, edge_ok=lambda a, b, l: l != "exc")
        ctx.check(back is None, "framing/limit", q + " | <over the limit stops parsing>", "parsing continues after an over-long length prefix", witness=g.describe(back))
    # (3) incomplete message: break, nothing consumed
    inc_tests = [t for t in g.ids(lambda n: n.kind == "test") if any(x is g.node(t).ast for x in ast.walk(loop)) and t not in lim_tests
                 and (lambda fm: fm is not None and f"len({buf})" in dict(fm[0]) and ln in dict(fm[0]))(norm_cmp(g.node(t).ast, defs, env))]
    ctx.check(len(inc_tests) == 1, "framing/message-complete", q + " | <completeness test>", "the buffered length is not compared with the end of the message exactly once")
    deliver = g.find(lambda x: isinstance(x, ast.Call) and call_name(x) == "self.stringReceived")
    ctx.need(deliver, "self.stringReceived(...) call")
    for t in inc_tests:
        fm = norm_cmp(g.node(t).ast, defs, env)
        exp = lin_expect({off: 1, PL: 1, ln: 1, f"len({buf})": -1}, 1)
        exp_neg = lin_expect({off: -1, PL: -1, ln: -1, f"len({buf})": 1}, 0)
        if fm == exp:
            wait_lab = "T"
        elif fm == exp_neg:
            wait_lab = "F"
        else:
            ctx.violation("framing/message-complete", q + " | <completeness test>",
                          f"the loop waits for more data when `{fmt_lin(fm)}`; it must wait exactly when `{fmt_lin(exp)}` (a string whose last byte just "
                          "arrived must be delivered now - it may be the box terminator)")
            continue
        ctx.ok("framing/message-complete", q + " | <completeness test>", fmt_lin(fm))
        wsucc = [d for d, l in g.succ[t] if l == wait_lab]
        csucc = [d for d, l in g.succ[t] if l != wait_lab and l in ("T", "F")]
        p1 = g.path(wsucc, deliver, avoid=[t], edge_ok=lambda a, b, l: l != "exc")
        ctx.check(p1 is None, "framing/message-complete", q + " | <incomplete string>", "an incomplete string is delivered", witness=g.describe(p1))
        # incomplete -> the tail from the *unchanged* offset is saved
        savers = _assign_nodes(g, lambda st: isinstance(st, ast.Assign) and any(is_self_attr(tg, "_unprocessed") for tg in st.targets)
                               and isinstance(st.value, ast.Subscript) and src(st.value.value) == buf and isinstance(st.value.slice, ast.Slice)
                               and st.value.slice.upper is None and st.value.slice.lower is not None and src(st.value.slice.lower) == off)
        wit = must_pass(g, wsucc, savers)
        ctx.check(bool(savers) and wit is None, "framing/remainder-kept", q + " | <incomplete string>",
                  f"when a string is incomplete the unconsumed bytes `{buf}[{off}:]` are not kept for the next dataReceived()", witness=g.describe(wit))
        offw = g.ids(lambda n: n.kind == "stmt" and isinstance(n.ast, (ast.Assign, ast.AugAssign)) and
                     any(isinstance(x, ast.Name) and x.id == off and isinstance(x.ctx, ast.Store) for x in ast.walk(n.ast)))
        moved = g.path(wsucc, offw, avoid=[t], edge_ok=lambda a, b, l: l != "exc")
        ctx.check(moved is None, "framing/remainder-kept", q + " | <offset unchanged while waiting>", "the offset moves although the string is incomplete", witness=g.describe(moved))
    # (4) payload slice and advance
    pays = [st for st in statements(f) if isinstance(st, ast.Assign) and isinstance(st.value, ast.Subscript) and src(st.value.value) == buf
            and isinstance(st.value.slice, ast.Slice) and st.value.slice.lower is not None and st.value.slice.upper is not None and any(st is x for x in ast.walk(loop))
            and isinstance(st.targets[0], ast.Name)]
    pay = [st for st in pays if any(isinstance(c, ast.Call) and call_name(c) == "self.stringReceived" and [src(a) for a in c.args] == [st.targets[0].id] for c in ast.walk(loop))]
    ctx.check(len(pay) == 1, "framing/payload-slice", q + " | <payload>", "the delivered string is not a slice of the buffer")
    for st in pay:
        lo, hi = st.value.slice.lower, st.value.slice.upper
        ctx.check(lin_equal(lo, start, defs) and lin_equal(hi, end, defs), "framing/payload-slice", q + " | <payload>",
                  f"the payload is {buf}[{src(expand(lo, defs))}:{src(expand(hi, defs))}]; it must start right after the prefix and be `length` bytes long")
    adv = g.ids(lambda n: n.kind == "stmt" and isinstance(n.ast, ast.Assign) and any(isinstance(t, ast.Name) and t.id == off for t in n.ast.targets)
                and any(x is n.ast for x in ast.walk(loop)) and lin_equal(n.ast.value, end, defs))
    heads = g.ids(lambda n: n.kind == "join" and n.ast is loop)
    for d in deliver:
        # every way back to the loop head from the delivery passes an advance of the offset (before or after the call) or the recvd reset
        resets = g.ids(lambda n: n.kind == "stmt" and isinstance(n.ast, ast.Assign) and any(isinstance(x, ast.Name) and x.id == off and isinstance(x.ctx, ast.Store) for x in ast.walk(n.ast))
                       and any(x is n.ast for x in ast.walk(loop)))
        pre = g.must_precede(adv, [d], exc=False)
        post = g.must_pass([d], set(resets), to=heads, exc=False) if pre is not None else None
        ctx.check(bool(adv) and (pre is None or post is None), "framing/advance", q + " | <offset advance>",
                  "after a string is delivered the offset is not advanced to the end of that string: it is parsed again or bytes are skipped",
                  witness=g.describe(pre))
    # (5) loop ends normally -> tail saved
    savers = _assign_nodes(g, lambda st: isinstance(st, ast.Assign) and any(is_self_attr(tg, "_unprocessed") for tg in st.targets)
                           and isinstance(st.value, ast.Subscript) and src(st.value.value) == buf and isinstance(st.value.slice, ast.Slice)
                           and st.value.slice.upper is None and st.value.slice.lower is not None and src(st.value.slice.lower) == off)
    loop_tests = [t for t in g.ids(lambda n: n.kind == "test") if any(g.node(t).ast is c or any(g.node(t).ast is x for x in ast.walk(c)) for c in conj)]
    body_nodes = {id(x) for st in loop.body for x in ast.walk(st)}
    exits = [d for t in loop_tests for d, l in g.succ[t] if l in ("T", "F") and d not in loop_tests and id(g.node(d).ast) not in body_nodes]
    wit = must_pass(g, exits, savers) if exits else [g.entry]
    ctx.check(bool(savers) and wit is None, "framing/remainder-kept", q + " | <loop finished>",
              "when the buffer holds less than a prefix the unconsumed tail is not saved in self._unprocessed", witness=g.describe(wit) if exits else "")


# ---------------------------------------------------------------------------------------------------------------
# C. argument types

PAIRS = (("toString", "fromString"), ("toStringProto", "fromStringProto"), ("toBox", "fromBox"))
PAIR_EXCEPTIONS = {("_LocalArgument", "fromBox"): "local arguments are never relayed over the wire; fromBox is a documented no-op"}


def _argument_classes(mod) -> List[ast.ClassDef]:
    classes = {n.name: n for n in mod.tree.body if isinstance(n, ast.ClassDef)}
    out = []

    def derives(c, seen=()):
        for b in base_names(c):
            if b == "Argument":
                return True
            if b in classes and b not in seen and derives(classes[b], seen + (b,)):
                return True
        return False

    for c in classes.values():
        if derives(c):
            out.append(c)
    return out


def _defined(cls: ast.ClassDef) -> set:
    return set(methods(cls)) | set(class_assigns(cls))


def check_arguments(ctx, mod, consts):
    classes = {n.name: n for n in mod.tree.body if isinstance(n, ast.ClassDef)}
    with ctx.section("argument pairing"):
        args = _argument_classes(mod)
        ctx.floor("argument/pairing", len(args), 12, "Argument subclasses")
        for c in args:
            d = _defined(c)
            for a, b in PAIRS:
                if (a in d) == (b in d):
                    if a in d:
                        ctx.ok("argument/pairing", f"{QA}.{c.name} | {a}/{b}")
                    continue
                lone = a if a in d else b
                if (c.name, lone) in PAIR_EXCEPTIONS:
                    ctx.ok("argument/pairing", f"{QA}.{c.name} | {a}/{b}", "documented exception: " + PAIR_EXCEPTIONS[(c.name, lone)])
                    continue
                ctx.violation("argument/pairing", f"{QA}.{c.name} | {a}/{b}",
                              f"{c.name} overrides {lone} but inherits {b if lone == a else a} from its base: the two directions no longer use the same encoding")

    # --- finite evaluation of the leaf conversions ------------------------------------------------------------
    with ctx.section("argument value round trips"):
        def _native(x):
            return x.decode("ascii") if isinstance(x, bytes) else x

        ev = MiniEval(mod, helpers={"nativeString": _native, "decimal.Decimal": decimal.Decimal})
        D = decimal.Decimal
        samples = {
            "Decimal": [D("0"), D("-0"), D("1.5"), D("1.50"), D("1E+2"), D("-1E-7"), D("Infinity"), D("-Infinity"), D("NaN"), D("-sNaN"), D("123456789012345678901234567890.5")],
            "Integer": [0, 1, -1, 255, 2 ** 64, -(2 ** 200), 10 ** 30],
            "String": [b"", b"a", b"\x00\xff", b"x" * 300],
            "Unicode": ["", "a", "\u00e9", "\u20ac", "\U0001f600", "a\x00b", "\ud7ff"],
            "Boolean": [True, False],
            "Float": [0.0, -0.0, 1.5, 0.1, 1e300, 5e-324, float("inf"), float("-inf"), float("nan"), -2.5e-10],
        }
        for cname, vals in samples.items():
            c = classes.get(cname)
            if c is None:
                _fail(f"argument class {cname} vanished")
            inst = Inst(c)
            bad = None
            encs = {}
            for v in vals:
                k1, s = run_eval(lambda: ev.method(inst, "toString", [v]))
                if k1 == "unsupported":
                    _fail(f"{cname}.toString uses a construct outside the evaluated subset: {s}")
                if k1 == "raised" or not isinstance(s, bytes):
                    bad = bad or f"{cname}().toString({v!r}) gives {s!r} ({k1}); a byte string is required"
                    continue
                k2, back = run_eval(lambda: ev.method(inst, "fromString", [s]))
                if k2 == "unsupported":
                    _fail(f"{cname}.fromString uses a construct outside the evaluated subset: {back}")
                if isinstance(v, decimal.Decimal):
                    same = k2 == "value" and isinstance(back, decimal.Decimal) and back.as_tuple() == v.as_tuple()
                else:
                    same = k2 == "value" and type(back) is type(v) and (back == v or (isinstance(v, float) and math.isnan(v) and math.isnan(back)))
                if same and isinstance(v, float) and v == 0.0:
                    same = math.copysign(1.0, v) == math.copysign(1.0, back)
                if not same:
                    bad = bad or f"{cname}: {v!r} is encoded as {s!r} and decoded as {back!r} ({k2})"
                encs.setdefault(s, v)
            if not bad and len(encs) != len(vals) and cname != "Float":
                bad = f"{cname}: two different values share one encoding"
            ctx.check(bad is None, "argument/value-round-trip", f"{QA}.{cname} | toString/fromString", bad or "", detail=f"{len(vals)} representative values")

    # --- ListOf element framing --------------------------------------------------------------------------------------
    with ctx.section("ListOf framing"):
        lo = classes.get("ListOf") or _fail("ListOf vanished")
        ts = methods(lo).get("toString")
        fs = methods(lo).get("fromString")
        if ts is None or fs is None:
            _fail("ListOf.toString/fromString vanished")
        q = QA + ".ListOf"
        acc_ret = [st for st in statements(ts) if isinstance(st, ast.Return)]
        acc = None
        for r in acc_ret:
            v = r.value
            if isinstance(v, ast.Call) and isinstance(v.func, ast.Attribute) and v.func.attr == "join" and v.args and isinstance(v.args[0], ast.Name):
                acc = v.args[0].id
        loops = [st for st in ts.body if isinstance(st, ast.For) and isinstance(st.target, ast.Name)]
        if acc is None or len(loops) != 1:
            _fail("ListOf.toString: shape not recognised")
        aliases, _ = _emit_calls(ts, acc)
        lay: List[Tuple] = []
        ldefs = {}
        for st in loops[0].body:
            if isinstance(st, ast.Assign) and len(st.targets) == 1 and isinstance(st.targets[0], ast.Name):
                ldefs[st.targets[0].id] = st.value
        _layout(loops[0].body, aliases, acc, {}, consts, lay)
        parser_cls = None
        for st in statements(fs):
            if isinstance(st, ast.Assign) and isinstance(st.value, ast.Call) and isinstance(st.value.func, ast.Name) and st.value.func.id.endswith("StringReceiver"):
                parser_cls = st.value.func.id
        bmod = ctx.mod(BASIC)
        pc = bmod.find(parser_cls) if parser_cls else None
        pfmt = class_const(bmod, pc, "structFormat", {}) if isinstance(pc, ast.ClassDef) else None
        wfmt = lay[0][1] if len(lay) == 2 and lay[0][0] == "len" else None
        if pfmt is None:
            # the reader does not use a *StringReceiver: take the format of its own unpack() calls (the evaluated round trip below decides the rest)
            ufm = [const_eval(c.args[0], consts) for c in ast.walk(fs) if isinstance(c, ast.Call) and call_name(c) in ("unpack", "struct.unpack") and c.args and isinstance(c.args[0], ast.Constant)]
            if len(set(ufm)) != 1:
                _fail("ListOf.fromString: neither a *StringReceiver parser nor a single constant unpack() format was found")
            pfmt, parser_cls = ufm[0], "inline unpack"
        ok = len(lay) == 2 and lay[0][0] == "len" and lay[1][0] == "raw" and lay[0][2] == lay[1][1] and lay[0][1] == pfmt
        ctx.check(ok, "argument/list-framing", q + " | <element framing>",
                  f"ListOf.toString writes {lay!r} per element; ListOf.fromString parses with {parser_cls} (format {pfmt!r}): each element must be its "
                  "length in that format followed by its bytes")
        if len(lay) == 2 and lay[1][0] == "raw":
            elem = ldefs.get(lay[1][1])
            ctx.check(elem is not None and isinstance(elem, ast.Call) and call_name(elem) == "self.elementType.toString" and
                      len(elem.args) == 1 and src(elem.args[0]) == loops[0].target.id, "argument/list-framing", q + " | <element encoder>",
                      "list elements are not encoded with self.elementType.toString(element)")
        dec = [n for n in ast.walk(fs) if isinstance(n, ast.Attribute) and src(n) == "self.elementType.fromString"]
        ctx.check(bool(dec), "argument/list-framing", q + " | <element decoder>", "ListOf.fromString does not decode each element with self.elementType.fromString")

    with ctx.section("ListOf evaluated round trip"):
        # toString/fromString interpreted on lists with empty elements in every position (an empty element is just a zero length prefix,
        # also when it is the last thing in the value) and on nested lists
        lo = classes.get("ListOf") or _fail("ListOf vanished")
        S, I = classes.get("String"), classes.get("Integer")
        if S is None or I is None:
            _fail("String/Integer vanished")
        cases = [("ListOf(String())", Inst(lo, elementType=Inst(S), optional=False),
                  [[], [b""], [b"foo"], [b"foo", b""], [b"", b"foo"], [b"", b""], [b"a", b"", b"b"], [b"x" * 300, b"y"]]),
                 ("ListOf(ListOf(Integer()))", Inst(lo, elementType=Inst(lo, elementType=Inst(I), optional=False), optional=False),
                  [[[1, 2], []], [[], [3]], [[]], [[], []], [[10 ** 20]]])]
        for label, inst, samples in cases:
            bad = None
            for v in samples:
                ev = MiniEval(mod, consts=consts, extra_mods=[ctx.mod(BASIC)])
                k1, wire = run_eval(lambda: ev.method(inst, "toString", [v]))
                if k1 == "unsupported":
                    _fail(f"ListOf.toString uses a construct outside the interpreted subset: {wire}")
                if k1 != "value" or not isinstance(wire, bytes):
                    bad = bad or f"{label}.toString({v!r}) gives {wire!r} ({k1})"
                    continue
                k2, back = run_eval(lambda: ev.method(inst, "fromString", [wire]))
                if k2 == "unsupported":
                    _fail(f"ListOf.fromString uses a construct outside the interpreted subset: {back}")
                if k2 != "value" or back != v:
                    bad = bad or f"{label}: {v!r} is encoded as {wire[:40]!r}{'..' if len(wire) > 40 else ''} and decoded as {back!r} ({k2})"
            ctx.check(bad is None, "argument/list-round-trip", f"{QA}.ListOf | {label}", bad or "", detail=f"{len(samples)} lists, empty elements in first/middle/last position")

    # --- AmpList and toBox/fromBox key symmetry ----------------------------------------------------------------------------
    with ctx.section("AmpList / box keys"):
        al = classes.get("AmpList") or _fail("AmpList vanished")
        tsp, fsp = methods(al).get("toStringProto"), methods(al).get("fromStringProto")
        if tsp is None or fsp is None:
            _fail("AmpList.toStringProto/fromStringProto vanished")
        enc = [c for c in ast.walk(tsp) if isinstance(c, ast.Call) and call_name(c) == "_objectsToStrings"]
        decs = [c for c in ast.walk(fsp) if isinstance(c, ast.Call) and call_name(c) == "_stringsToObjects"]
        ser = [c for c in ast.walk(tsp) if isinstance(c, ast.Call) and call_attr(c) == "serialize"]
        par = [c for c in ast.walk(fsp) if isinstance(c, ast.Call) and call_name(c) in ("parseString", "parse")]
        ok = len(enc) == 1 and len(decs) == 1 and len(enc[0].args) >= 2 and len(decs[0].args) >= 2 and src(enc[0].args[1]) == src(decs[0].args[1]) == "self.subargs" \
            and bool(ser) and bool(par)
        ctx.check(ok, "argument/amplist", QA + ".AmpList | <schema both ways>",
                  "AmpList does not encode with _objectsToStrings(..., self.subargs, ...).serialize() and decode with parseString + _stringsToObjects(box, self.subargs, ...)")
        for fname, meth in (("_stringsToObjects", "fromBox"), ("_objectsToStrings", "toBox")):
            fn = ctx.func(AMP, fname)
            loops2 = [st for st in fn.body if isinstance(st, ast.For) and isinstance(st.target, ast.Tuple) and len(st.target.elts) == 2]
            ok = False
            if len(loops2) == 1 and src(loops2[0].iter) == fn.args.args[1].arg:
                nm, parser = [e.id for e in loops2[0].target.elts]
                cs = [c for c in ast.walk(loops2[0]) if isinstance(c, ast.Call) and call_name(c) == f"{parser}.{meth}"]
                ok = len(cs) == 1 and cs[0].args and src(cs[0].args[0]) == nm
            ctx.check(ok, "argument/box-keys", f"{QA}.{fname}", f"{fname} does not call <argument>.{meth}(<its own name>, ...) for every entry of the schema")
        arg = classes.get("Argument") or _fail("Argument vanished")
        tb, fb = methods(arg).get("toBox"), methods(arg).get("fromBox")
        if tb is None or fb is None:
            _fail("Argument.toBox/fromBox vanished")
        nm_t, st_t, ob_t = [a.arg for a in tb.args.args[1:4]]
        nm_f, st_f, ob_f = [a.arg for a in fb.args.args[1:4]]
        tdefs, fdefs = single_defs(tb), single_defs(fb)
        w = [st for st in statements(tb) if isinstance(st, ast.Assign) and isinstance(st.targets[0], ast.Subscript) and src(st.targets[0].value) == st_t]
        ok_w = len(w) == 1 and src(w[0].targets[0].slice) == nm_t and isinstance(w[0].value, ast.Call) and call_name(w[0].value) == "self.toStringProto"
        r_t = [c for c in ast.walk(tb) if isinstance(c, ast.Call) and call_name(c) == "self.retrieve"]
        ok_rt = len(r_t) == 1 and src(r_t[0].args[0]) == ob_t and src(expand(r_t[0].args[1], tdefs)) == f"_wireNameToPythonIdentifier({nm_t})"
        r_f = [c for c in ast.walk(fb) if isinstance(c, ast.Call) and call_name(c) == "self.retrieve"]
        ok_rf = len(r_f) == 1 and src(r_f[0].args[0]) == st_f and src(r_f[0].args[1]) == nm_f
        wf = [st for st in statements(fb) if isinstance(st, ast.Assign) and isinstance(st.targets[0], ast.Subscript) and src(st.targets[0].value) == ob_f]
        ok_wf = bool(wf) and all(src(expand(st.targets[0].slice, fdefs)) == f"_wireNameToPythonIdentifier({nm_f})" for st in wf) and \
            any(isinstance(st.value, ast.Call) and call_name(st.value) == "self.fromStringProto" for st in wf)
        ctx.check(ok_w and ok_rf, "argument/box-keys", QA + ".Argument | <wire key>",
                  "toBox stores the encoded string under `name` and fromBox retrieves it under `name`: this no longer holds")
        ctx.check(ok_rt and ok_wf, "argument/box-keys", QA + ".Argument | <python key>",
                  "toBox reads the object under _wireNameToPythonIdentifier(name) and fromBox stores it under the same identifier: this no longer holds")

    # --- DateTime layout ----------------------------------------------------------------------------------------------------------
    with ctx.section("DateTime layout"):
        check_datetime(ctx, mod, classes)


def _parse_percent(fmt: str) -> Optional[List[Tuple[str, int, int]]]:
    """[(kind, start, end)] for a %-format made of %0Ni / %0Nd (fixed width N), %s (one char assumed) and literals."""
    out = []
    pos = 0
    i = 0
    while i < len(fmt):
        ch = fmt[i]
        if ch != "%":
            out.append(("lit:" + ch, pos, pos + 1))
            pos += 1
            i += 1
            continue
        j = i + 1
        if j < len(fmt) and fmt[j] == "%":
            out.append(("lit:%", pos, pos + 1))
            pos += 1
            i = j + 1
            continue
        num = ""
        while j < len(fmt) and fmt[j].isdigit():
            num += fmt[j]
            j += 1
        if j >= len(fmt):
            return None
        conv = fmt[j]
        if conv in "id":
            if not num.startswith("0") or len(num) < 2:
                return None  # not fixed width
            w = int(num[1:])
            out.append(("int", pos, pos + w))
            pos += w
        elif conv == "s" and not num:
            out.append(("str", pos, pos + 1))
            pos += 1
        else:
            return None
        i = j + 1
    return out


def check_datetime(ctx, mod, classes):
    dt = classes.get("DateTime") or _fail("DateTime vanished")
    q = QA + ".DateTime"
    ts, fs = methods(dt).get("toString"), methods(dt).get("fromString")
    if ts is None or fs is None:
        _fail("DateTime.toString/fromString vanished")
    fmts = [n for n in ast.walk(ts) if isinstance(n, ast.BinOp) and isinstance(n.op, ast.Mod) and isinstance(n.left, ast.Constant) and isinstance(n.left.value, str)
            and isinstance(n.right, ast.Tuple)]
    if len(fmts) != 1:
        _fail("DateTime.toString: the %-format expression was not found exactly once")
    fields = _parse_percent(fmts[0].left.value)
    if fields is None:
        _fail("DateTime.toString: format string is not made of fixed-width %0Ni fields, %s and literals")
    ops = fmts[0].right.elts
    conv = [f for f in fields if not f[0].startswith("lit:")]
    ctx.check(len(conv) == len(ops), "datetime/layout", q + ".toString | <operands>", f"{len(conv)} conversions for {len(ops)} operands")
    if len(conv) != len(ops):
        return
    p = ts.args.args[1].arg
    want_attrs = ["year", "month", "day", "hour", "minute", "second", "microsecond"]
    int_fields = [(f, o) for f, o in zip(conv, ops) if f[0] == "int"]
    str_fields = [(f, o) for f, o in zip(conv, ops) if f[0] == "str"]
    got_attrs = [o.attr if isinstance(o, ast.Attribute) and src(o.value) == p else src(o) for _, o in int_fields[:7]]
    ctx.check(got_attrs == want_attrs and len(int_fields) == 9 and len(str_fields) == 1, "datetime/layout", q + ".toString | <field order>",
              f"the integer fields are written in the order {got_attrs}; the reader passes them positionally to datetime.datetime({', '.join(want_attrs)}, tzinfo)")
    total = fields[-1][2]
    # the sign is one character
    sign_name = src(str_fields[0][1]) if str_fields else None
    sign_vals = [st.value.value for st in statements(ts) if isinstance(st, ast.Assign) and any(isinstance(t, ast.Name) and t.id == sign_name for t in st.targets)
                 and isinstance(st.value, ast.Constant)]
    sign_all = [st for st in statements(ts) if isinstance(st, ast.Assign) and any(isinstance(t, ast.Name) and t.id == sign_name for t in st.targets)]
    ctx.check(bool(sign_vals) and len(sign_vals) == len(sign_all) and set(sign_vals) <= {"+", "-"} and len(set(sign_vals)) == 2, "datetime/layout", q + ".toString | <sign>",
              f"the timezone direction takes the values {sign_vals}; the reader accepts exactly one character '+' or '-'")
    # reader: positions table
    pos_expr = class_assigns(dt).get("_positions")
    if not isinstance(pos_expr, (ast.List, ast.Tuple)):
        _fail("DateTime._positions is not a literal list")
    slices = []
    for e in pos_expr.elts:
        if not (isinstance(e, ast.Call) and call_name(e) == "slice" and len(e.args) == 2 and all(isinstance(a, ast.Constant) for a in e.args)):
            _fail("DateTime._positions entry is not slice(a, b)")
        slices.append((e.args[0].value, e.args[1].value))
    want = [(f[1], f[2]) for f, _ in int_fields]
    n = max(len(want), len(slices))
    ctx.check(len(want) == len(slices), "datetime/layout", q + "._positions | <count>", f"{len(slices)} slices for {len(want)} integer fields of the format string")
    names = want_attrs + ["tz hours", "tz minutes"]
    for i in range(min(len(want), len(slices))):
        ctx.check(want[i] == slices[i], "datetime/layout", q + f"._positions | {names[i] if i < len(names) else i}",
                  f"the writer puts {names[i] if i < len(names) else i} at characters {want[i][0]}..{want[i][1]}, the reader reads slice{slices[i]}")
    fp = fs.args.args[1].arg
    lens = [c for c in ast.walk(fs) if isinstance(c, ast.Compare) and isinstance(c.left, ast.Call) and call_name(c.left) == "len" and len(c.ops) == 1
            and isinstance(c.comparators[0], ast.Constant)]
    ctx.check(len(lens) == 1 and isinstance(lens[0].ops[0], ast.NotEq) and lens[0].comparators[0].value == total, "datetime/layout", q + ".fromString | <length check>",
              f"the writer produces {total} characters; the reader's length test is {src(lens[0]) if lens else 'absent'}")
    idx = [n for n in ast.walk(fs) if isinstance(n, ast.Subscript) and isinstance(n.value, ast.Name) and n.value.id == fp and isinstance(n.slice, ast.Constant)]
    ctx.check(len(idx) == 1 and str_fields and idx[0].slice.value == str_fields[0][0][1], "datetime/layout", q + ".fromString | <sign index>",
              f"the writer puts the sign at character {str_fields[0][0][1] if str_fields else '?'}; the reader reads {src(idx[0]) if idx else 'nothing'}")
    # UTC offset: minutes computed from the timedelta, split into sign / hours / minutes, re-joined by fromSignHoursMinutes.
    # Every expression is expanded down to offset.days / offset.seconds and evaluated for concrete offsets.
    if len(int_fields) == 9 and str_fields:
        tdefs = single_defs(ts)
        ev = MiniEval(mod)
        offs = [st.targets[0].id for st in statements(ts) if isinstance(st, ast.Assign) and len(st.targets) == 1 and isinstance(st.targets[0], ast.Name)
                and isinstance(st.value, ast.Call) and call_attr(st.value) == "utcoffset"]
        if len(offs) != 1:
            _fail("DateTime.toString: `offset = <datetime>.utcoffset()` not found")
        offv = offs[0]
        odefs = {k: v for k, v in tdefs.items() if k != offv}
        stores: Dict[str, int] = {}
        for x in ast.walk(ts):
            if isinstance(x, ast.Name) and isinstance(x.ctx, ast.Store):
                stores[x.id] = stores.get(x.id, 0) + 1
        for st in statements(ts):      # a, b = e1, e2  binds like two plain assignments
            if isinstance(st, ast.Assign) and len(st.targets) == 1 and isinstance(st.targets[0], ast.Tuple) and isinstance(st.value, ast.Tuple) \
                    and len(st.targets[0].elts) == len(st.value.elts):
                for t, v in zip(st.targets[0].elts, st.value.elts):
                    if isinstance(t, ast.Name) and stores.get(t.id) == 1:
                        odefs[t.id] = v
        h_e, m_e = int_fields[7][1], int_fields[8][1]
        g = ctx.cfg(ts)

        def ev_off(e, env):
            k, v = run_eval(lambda: ev.expr(attrs_to_names(expand(e, odefs), offv), env))
            if k == "unsupported":
                _fail(f"DateTime.toString: `{src(e)}` is outside the interpreted subset: {v}")
            return k, v

        bad = None
        for m in (-840, -720, -90, -61, -60, -59, -30, -1, 0, 1, 30, 59, 60, 61, 90, 330, 720, 840):
            secs = m * 60
            days, seconds = secs // 86400, secs % 86400      # timedelta normal form
            env = {f"{offv}__days": days, f"{offv}__seconds": seconds, f"{offv}__microseconds": 0, offv: "<timedelta>"}
            sign = None
            for st in sign_all:
                for n in g.ids_of(st):
                    okp = True
                    for t, lab in g.edge_guards(n):
                        kk, tv = ev_off(g.node(t).ast, env)
                        if kk != "value" or bool(tv) != (lab == "T"):
                            okp = False
                    if okp:
                        sign = st.value.value
            k1, hh = ev_off(h_e, env)
            k2, mm = ev_off(m_e, env)
            if sign is None or k1 != "value" or k2 != "value" or not isinstance(hh, int) or not isinstance(mm, int):
                bad = bad or f"a UTC offset of {m} minutes: sign {sign!r}, hours {hh!r}, minutes {mm!r} (the format needs one sign character and two integers)"
                continue
            back = (hh * 60 + mm) * (-1 if sign == "-" else 1)
            if not (0 <= hh <= 99 and 0 <= mm <= 59 and back == m):
                bad = bad or f"a UTC offset of {m:+d} minutes (timedelta(days={days}, seconds={seconds})) is written as {sign}{hh:02d}:{mm:02d}, which the reader turns into {back:+d} minutes"
        ctx.check(bad is None, "datetime/offset-arithmetic", q + ".toString | <UTC offset>", bad or "", detail="18 offsets between -14:00 and +14:00, sub-hour ones included")
    calls = [c for c in ast.walk(fs) if isinstance(c, ast.Call) and call_attr(c) == "fromSignHoursMinutes"]
    ctx.check(len(calls) == 1 and len(calls[0].args) == 2 and isinstance(calls[0].args[1], ast.Starred) and src(calls[0].args[1].value).endswith("[7:]"), "datetime/layout",
              q + ".fromString | <tz fields>", "the two last integer fields are not passed as hours, minutes to fromSignHoursMinutes(sign, hours, minutes)")


# ---------------------------------------------------------------------------------------------------------------

def check(ctx):
    mod = ctx.mod(AMP)
    bmod = ctx.mod(BASIC)
    consts = module_consts(mod)
    i16 = ctx.cls(BASIC, "Int16StringReceiver")
    reader_fmt = class_const(bmod, i16, "structFormat", {})
    if not isinstance(reader_fmt, str):
        _fail("Int16StringReceiver.structFormat is not a constant string")
    with ctx.section("AmpBox.serialize"):
        check_serialize(ctx, mod, consts, reader_fmt)
    with ctx.section("AmpBox.serialize refusals (evaluated)"):
        check_serialize_refusals(ctx, mod, consts)
    with ctx.section("BinaryBoxProtocol reader"):
        check_reader(ctx, mod, consts, reader_fmt)
    with ctx.section("IntNStringReceiver framing"):
        check_framing(ctx, reader_fmt)
    check_arguments(ctx, mod, consts)     # one section per rule group inside


_SER_GUARDS = ("            if len(k) > MAX_KEY_LENGTH:\n                raise TooLong(True, True, k, None)\n"
               "            if len(v) > MAX_VALUE_LENGTH:\n                raise TooLong(False, True, v, k)\n")

MUTANTS = [
    Mutant("key-limit-boundary", AMP, "            if len(k) > MAX_KEY_LENGTH:\n", "            if len(k) >= MAX_KEY_LENGTH:\n", expect_rule="box/key-length-upper-bound"),
    Mutant("value-guard-dropped", AMP, "            if len(v) > MAX_VALUE_LENGTH:\n                raise TooLong(False, True, v, k)\n", "", expect_rule="box/value-length-upper-bound"),
    Mutant("overlong-key-skipped-silently", AMP, "            if len(k) > MAX_KEY_LENGTH:\n                raise TooLong(True, True, k, None)\n",
           "            if len(k) > MAX_KEY_LENGTH:\n                continue\n", expect_rule="box/key-length-upper-bound"),
    Mutant("unicode-value-check-on-key-twice", AMP, "            if type(v) == str:\n", "            if type(k) == str:\n", expect_rule="box/refuses-non-bytes"),
    Mutant("pairs-normalised-with-bytes-constructor", AMP, "            if len(k) > MAX_KEY_LENGTH:\n                raise TooLong(True, True, k, None)\n",
           "            k = bytes(k)\n            v = bytes(v)\n            if len(k) > MAX_KEY_LENGTH:\n                raise TooLong(True, True, k, None)\n", expect_rule="box/no-coercion"),
    Mutant("values-coerced-when-emitted", AMP, "                w(kv)\n", "                w(bytes(kv))\n", expect_rule="box/refuses-non-bytes-evaluated"),
    Mutant("items-coerced-before-loop", AMP, "        i = sorted(self.items())\n", "        i = sorted((bytes(a), bytes(b)) for a, b in self.items() if type(a) != str and type(b) != str)\n", expect_rule=None),
    Mutant("value-before-key", AMP, "            for kv in k, v:\n", "            for kv in v, k:\n", expect_rule="box/wire-layout"),
    Mutant("signed-length-prefix", AMP, '                w(pack("!H", len(kv)))\n', '                w(pack("!h", len(kv)))\n', expect_rule="box/wire-layout"),
    Mutant("terminator-only-for-nonempty", AMP, '        w(pack("!H", 0))\n        return b"".join(L)\n', '        if L:\n            w(pack("!H", 0))\n        return b"".join(L)\n',
           expect_rule="box/terminator"),
    Mutant("receiver-value-limit-shrunk", AMP, "    _MAX_VALUE_LENGTH = 65535\n", "    _MAX_VALUE_LENGTH = 65534\n", expect_rule="limits/value"),
    Mutant("limit-not-restored-after-value", AMP, "        self._currentKey = None\n        self.MAX_LENGTH = self._MAX_KEY_LENGTH\n", "        self._currentKey = None\n",
           expect_rule="reader/limit-toggle"),
    Mutant("value-stored-under-cleared-key", AMP, "        self._currentBox[self._currentKey] = string\n        self._currentKey = None\n", "        self._currentKey = None\n        self._currentBox[self._currentKey] = string\n",
           expect_rule="reader/value-stored"),
    Mutant("box-not-reset", AMP, "        self._currentBox = AmpBox()\n        return self.proto_key(string)\n", "        if self._currentBox is None:\n            self._currentBox = AmpBox()\n        return self.proto_key(string)\n",
           expect_rule="reader/fresh-box"),
    Mutant("terminator-returns-key-state", AMP, '            self._currentBox = None\n            return "init"\n', '            self._currentBox = None\n            return "key"\n',
           expect_rule="reader/state"),
    Mutant("prefix-needs-one-more-byte", BASIC, "        while len(alldata) >= (currentOffset + prefixLength) and not self.paused:\n",
           "        while len(alldata) > (currentOffset + prefixLength) and not self.paused:\n", expect_rule="framing/prefix-available"),
    Mutant("limit-inclusive", BASIC, "            if length > self.MAX_LENGTH:\n", "            if length >= self.MAX_LENGTH:\n", expect_rule="framing/limit"),
    Mutant("complete-string-waits", BASIC, "            if len(alldata) < messageEnd:\n", "            if len(alldata) <= messageEnd:\n", expect_rule="framing/message-complete"),
    Mutant("tail-dropped-on-split", BASIC, "        self._unprocessed = alldata[currentOffset:]\n        self._compatibilityOffset = 0\n",
           "        self._unprocessed = alldata[messageStart:] if currentOffset else alldata\n        self._compatibilityOffset = 0\n".replace("messageStart", "currentOffset + prefixLength"),
           expect_rule="framing/remainder-kept"),
    Mutant("payload-includes-prefix-byte", BASIC, "            packet = alldata[messageStart:messageEnd]\n", "            packet = alldata[messageStart - 1 : messageEnd]\n", expect_rule="framing/payload-slice"),
    Mutant("pending-bytes-after-new-data", BASIC, "        alldata = self._unprocessed + data\n", "        alldata = data + self._unprocessed\n", expect_rule="framing/buffer"),
    Mutant("float-fixed-point", AMP, '        return str(inString).encode("ascii")\n', '        return ("%f" % inString).encode("ascii")\n', expect_rule="argument/value-round-trip"),
    Mutant("integer-hex", AMP, '        return b"%d" % (inObject,)\n', '        return b"%x" % (inObject,)\n', expect_rule="argument/value-round-trip"),
    Mutant("boolean-false-lowercase", AMP, '        elif inString == b"False":\n', '        elif inString == b"false":\n', expect_rule="argument/value-round-trip"),
    Mutant("unicode-decodes-latin1", AMP, '        return String.fromString(self, inString).decode("utf-8")\n', '        return String.fromString(self, inString).decode("latin-1")\n',
           expect_rule="argument/value-round-trip"),
    Mutant("path-inherits-decoder", AMP, "    def fromString(self, inString):\n        return filepath.FilePath(Unicode.fromString(self, inString))\n\n", "", expect_rule="argument/pairing"),
    Mutant("listof-8bit-prefix", AMP, '            strings.append(pack("!H", len(serialized)))\n', '            strings.append(pack("!B", len(serialized)))\n', expect_rule="argument/list-framing"),
    Mutant("datetime-microsecond-slice", AMP, "        slice(20, 26),  # microsecond\n", "        slice(20, 25),  # microsecond\n", expect_rule="datetime/layout"),
    Mutant("datetime-offset-ignores-days", AMP, "        minutesOffset = (offset.days * 86400 + offset.seconds) // 60\n", "        minutesOffset = offset.seconds // 60\n", expect_rule="datetime/offset-arithmetic"),
    Mutant("datetime-hours-not-absolute", AMP, "            abs(minutesOffset) // 60,\n", "            minutesOffset // 60,\n", expect_rule="datetime/offset-arithmetic"),
    Mutant("decimal-via-float-repr", AMP, '            return str(inObject).encode("ascii")\n        raise ValueError("amp.Decimal can only encode instances of decimal.Decimal")\n',
           '            return str(float(inObject)).encode("ascii")\n        raise ValueError("amp.Decimal can only encode instances of decimal.Decimal")\n', expect_rule="argument/value-round-trip"),
    Mutant("datetime-sign-from-hour-part", AMP, "        if minutesOffset > 0:\n", "        if minutesOffset // 60 > 0:\n", expect_rule="datetime/offset-arithmetic"),
    Mutant("listof-reader-stops-before-trailing-empty-element", AMP, "        strings = []\n        parser = Int16StringReceiver()\n        parser.stringReceived = strings.append\n        parser.dataReceived(inString)\n",
           "        strings = []\n        pos = 0\n        while pos + 2 < len(inString):\n            (n,) = unpack(\"!H\", inString[pos : pos + 2])\n            strings.append(inString[pos + 2 : pos + 2 + n])\n            pos += 2 + n\n",
           more=[(AMP, "from struct import pack\n", "from struct import pack, unpack\n")], expect_rule="argument/list-round-trip"),
    Mutant("datetime-sign-index", AMP, "        sign = s[26]\n", "        sign = s[25]\n", expect_rule="datetime/layout"),
    Mutant("frombox-raw-key", AMP, "        nk = _wireNameToPythonIdentifier(name)\n", "        nk = nativeString(name)\n", expect_rule="argument/box-keys"),
]

SILENT = [
    Silent("guards-as-not-le", AMP, "            if len(k) > MAX_KEY_LENGTH:\n", "            if not len(k) <= MAX_KEY_LENGTH:\n"),
    Silent("isinstance-refusal-and-literals", AMP, "            if type(k) == str:\n", "            if isinstance(k, str):\n",
           more=[(AMP, "            if len(v) > MAX_VALUE_LENGTH:\n", "            if len(v) > 0xFFFF:\n")]),
    Silent("unrolled-pair", AMP, '            for kv in k, v:\n                w(pack("!H", len(kv)))\n                w(kv)\n',
           '            w(pack("!H", len(k)))\n            w(k)\n            w(pack("!H", len(v)))\n            w(v)\n'),
    Silent("append-without-alias", AMP, '        w(pack("!H", 0))\n', '        L.append(b"\\x00\\x00")\n'),
    Silent("framing-flipped-comparisons", BASIC, "            if len(alldata) < messageEnd:\n                break\n", "            if not (messageEnd <= len(alldata)):\n                break\n",
           more=[(BASIC, "            if length > self.MAX_LENGTH:\n", "            if self.MAX_LENGTH < length:\n")]),
    Silent("f30-repaired-empty-key-refused", AMP, "            if len(k) > MAX_KEY_LENGTH:\n", "            if len(k) < 1 or len(k) > MAX_KEY_LENGTH:\n"),
    Silent("f30-repaired-truthiness", AMP, "            if len(k) > MAX_KEY_LENGTH:\n", "            if not k:\n                raise TooLong(True, True, k, None)\n            if len(k) > MAX_KEY_LENGTH:\n"),
    Silent("datetime-sign-ge", AMP, "        if minutesOffset > 0:\n", "        if minutesOffset >= 0:\n"),
    Silent("explicit-bytes-test-added", AMP, "            if len(k) > MAX_KEY_LENGTH:\n                raise TooLong(True, True, k, None)\n",
           "            if not isinstance(k, (bytes, bytearray)) or not isinstance(v, (bytes, bytearray)):\n                raise TypeError(\"keys and values must be bytes\")\n            if len(k) > MAX_KEY_LENGTH:\n                raise TooLong(True, True, k, None)\n"),
    Silent("listof-inline-reader-correct", AMP, "        strings = []\n        parser = Int16StringReceiver()\n        parser.stringReceived = strings.append\n        parser.dataReceived(inString)\n",
           "        strings = []\n        pos = 0\n        while pos + 2 <= len(inString):\n            (n,) = unpack(\"!H\", inString[pos : pos + 2])\n            strings.append(inString[pos + 2 : pos + 2 + n])\n            pos += 2 + n\n",
           more=[(AMP, "from struct import pack\n", "from struct import pack, unpack\n")]),
    Silent("datetime-offset-split-first", AMP, "        minutesOffset = (offset.days * 86400 + offset.seconds) // 60\n", "        minutesOffset = (offset.days * 86400 + offset.seconds) // 60\n        tzHours, tzMinutes = abs(minutesOffset) // 60, abs(minutesOffset) % 60\n",
           more=[(AMP, "            abs(minutesOffset) // 60,\n            abs(minutesOffset) % 60,\n", "            tzHours,\n            tzMinutes,\n")], allow_error=False),
    Silent("boolean-ifexp", AMP, '        if inObject:\n            return b"True"\n        else:\n            return b"False"\n', '        return b"True" if inObject else b"False"\n'),
]
